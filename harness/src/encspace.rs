//! The C01 input/option space (DESIGN §4 C01 (a)–(h)), shared by C01, C02, C17, C19.
//! Completely deterministic; `ctx.mine()` shards it round-robin.

use crate::codec::{Opt, OptMenu, Sig, WriterKind};
use crate::core::{for_each_deviation, for_each_seq, Ctx, Lcg};

pub struct EncCase<'a> {
    pub set: &'static str,
    pub w: WriterKind,
    pub opt: Opt,
    pub sig: Sig,
    pub pcm: &'a [i32],
}

pub fn smin(bps: u32) -> i32 {
    if bps >= 32 { i32::MIN } else { -(1i32 << (bps - 1)) }
}
pub fn smax(bps: u32) -> i32 {
    if bps >= 32 { i32::MAX } else { (1i32 << (bps - 1)) - 1 }
}
/// Σ(bps) = {MIN, −1, 0, 1, M, MAX} (distinct members only).
pub fn sigma(bps: u32) -> Vec<i32> {
    let (mn, mx) = (smin(bps), smax(bps));
    let m: i64 = 3i64 << (bps / 2);
    let m = if m <= mx as i64 { m as i32 } else if bps >= 3 { 1 << (bps - 2) } else { 0 };
    let mut v = Vec::new();
    for x in [0, 1, -1, m, mx, mn] {
        if x >= mn && x <= mx && !v.contains(&x) {
            v.push(x);
        }
    }
    v
}
/// 5-value per-channel alphabet for stereo.
pub fn sigma5(bps: u32) -> Vec<i32> {
    let mut v = sigma(bps);
    v.retain(|x| *x != 1);
    v
}

pub fn carriers(bps: u32, n: usize) -> Vec<Vec<i32>> {
    let (mn, mx) = (smin(bps) as i64, smax(bps) as i64);
    let clamp = |x: i64| x.clamp(mn, mx) as i32;
    let amp = mx / 2;
    let mut out = Vec::new();
    out.push(vec![0; n]); // silence
    out.push((0..n).map(|i| clamp(i as i64 * (amp / n as i64).max(1))).collect()); // ramp
    out.push((0..n).map(|i| if i % 2 == 0 { mx as i32 } else { mn as i32 }).collect()); // alternating extremes
    out.push((0..n).map(|i| clamp(((i as f64 * 0.7).sin() * amp as f64) as i64)).collect()); // sine
    let mut l = Lcg(0x5eed + bps as u64);
    out.push((0..n).map(|_| clamp((l.next() as i64 % (mx - mn + 1)) + mn)).collect()); // full-scale noise
    out.push((0..n).map(|i| clamp((i as i64 % 5 - 2) << (bps / 3))).collect()); // wasted-bit sawtooth
    out
}

#[derive(Clone, Copy, Debug, PartialEq)]
pub enum Kind {
    Const, Ramp, Sine, AltExt, Square, Impulse, Spikes, Noise(u64), Wasted(u32), NoisyLow, Periodic(usize),
}

/// Signal-family generator (§3.3). `amp_sel` 0: 1, 1: mid, 2: full scale.
pub fn family(kind: Kind, amp_sel: u32, bps: u32, n: usize) -> Vec<i32> {
    let (mn, mx) = (smin(bps) as i64, smax(bps) as i64);
    let clamp = |x: i64| x.clamp(mn, mx) as i32;
    let amp: i64 = match amp_sel { 0 => 1, 1 => (1i64 << (bps / 2)).min(mx).max(1), _ => mx.max(1) };
    match kind {
        Kind::Const => vec![clamp(if amp_sel == 2 { mn } else { amp }); n],
        Kind::Ramp => (0..n).map(|i| clamp((i as i64 * amp * 2) / n.max(1) as i64 - amp)).collect(),
        Kind::Sine => (0..n).map(|i| clamp(((i as f64 * 0.05).sin() * amp as f64).round() as i64)).collect(),
        Kind::AltExt => (0..n).map(|i| clamp(if i % 2 == 0 { amp } else { -amp - 1 })).collect(),
        Kind::Square => (0..n).map(|i| clamp(if (i / 7) % 2 == 0 { amp } else { -amp - 1 })).collect(),
        Kind::Impulse => (0..n).map(|i| if i == n / 2 { clamp(amp) } else { 0 }).collect(),
        Kind::Spikes => (0..n).map(|i| if i % 61 == 17 { clamp(if i % 2 == 0 { mx } else { mn }) } else { 0 }).collect(),
        Kind::Noise(seed) => {
            let mut l = Lcg(seed * 7919 + 13);
            (0..n).map(|_| clamp((l.next() as i64 % (2 * amp + 1)) - amp)).collect()
        }
        Kind::Wasted(w) => {
            let mut l = Lcg(w as u64 + 99);
            let w = w.min(bps.saturating_sub(1));
            (0..n).map(|_| {
                let r = (l.next() as i64 % (2 * amp + 1)) - amp;
                clamp((r >> w) << w)
            }).collect()
        }
        Kind::Periodic(p) => {
            // a p-sample pattern repeated: predicted exactly by an order-p LPC (drives the encoder to the highest orders)
            let mut l = Lcg(p as u64 * 31 + 5);
            let pat: Vec<i64> = (0..p).map(|_| (l.next() as i64 % (2 * amp + 1)) - amp).collect();
            (0..n).map(|i| clamp(pat[i % p])).collect()
        }
        Kind::NoisyLow => {
            // slow sine + 1 LSB of noise: defeats "constant" detection, tunes Rice estimates low
            let mut l = Lcg(4242);
            (0..n).map(|i| clamp(((i as f64 * 0.01).sin() * amp as f64) as i64 + (l.next() % 2) as i64)).collect()
        }
    }
}
/// Interleaved PCM whose channel c has trait (code >> 3c) & 7: 0 noise, 1 noise with 4 wasted bits, 2 non-zero constant,
/// 3 silence, 4 exact ramp, 5 shared noise ± offset (constant non-zero difference between two such channels), 6 shared
/// noise (dual mono), 7 noise with 1 wasted bit.
pub fn hetero(code: u32, chs: usize, bps: u32, n: usize) -> Vec<i32> {
    let mx = smax(bps) as i64;
    let amp = (mx / 16).max(1);
    let noise = |seed: u64, i: usize| -> i64 {
        let mut z = (seed.wrapping_add(i as u64)).wrapping_mul(0x9E3779B97F4A7C15);
        z ^= z >> 29;
        z = z.wrapping_mul(0xBF58476D1CE4E5B9);
        z ^= z >> 32;
        (z % (2 * amp as u64 + 1)) as i64 - amp
    };
    (0..n * chs)
        .map(|k| {
            let (i, ch) = (k / chs, k % chs);
            let own = noise(0x1000 * (ch as u64 + 1), i);
            let shared = noise(0x77, i);
            (match (code >> (3 * ch)) & 7 {
                0 => own,
                1 => (own << 4).clamp(-mx - 1, mx) & !15,
                2 => amp,
                3 => 0,
                4 => (i as i64 * 3 - 50).clamp(-mx - 1, mx),
                5 => shared + if ch == 0 { mx / 4 } else { -(mx / 4) },
                6 => shared,
                _ => own << 1,
            }) as i32
        })
        .collect()
}
pub const KINDS: &[Kind] = &[Kind::Const, Kind::Ramp, Kind::Sine, Kind::AltExt, Kind::Square, Kind::Impulse, Kind::Spikes, Kind::Noise(0), Kind::Noise(1), Kind::Wasted(1), Kind::Wasted(5), Kind::NoisyLow, Kind::Periodic(32), Kind::Periodic(12)];

pub const RATES: &[u32] = &[44100, 0, 1, 8000, 16000, 22050, 24000, 32000, 48000, 88200, 96000, 176400, 192000, 255000, 254999, 65535, 65536, 655350, 655351, 1048575,
    // one rate per residue class the header-coding choice can test (multiple of 1000 / 100 / 10 / none) on each side of the
    // 8-bit kHz, 16-bit Hz and 16-bit daHz limits
    1000, 37000, 100000, 256000, 37800, 18900, 50400, 12300, 100, 900, 254900, 44110, 100010, 65540, 12345, 65530, 655340, 655360, 300000, 1000000];

fn mono_sig(bps: u32) -> Sig {
    Sig { rate: 44100, bps, ch: 1 }
}

/// Enumerate the selected parts ('a'..'h'); `f` is called only for this shard's cases.
pub fn enumerate(ctx: &Ctx, parts: &str, f: &mut dyn FnMut(&EncCase)) {
    let q = ctx.quick;
    let base = Opt::base16();
    let has = |c: char| parts.contains(c);

    // (a) every mono sequence over Σ(bps), length 1..L, every bps
    if has('a') {
        for bps in 1..=32u32 {
            let big = [1, 4, 8, 12, 16, 17, 20, 24, 31, 32].contains(&bps);
            let l = if q { if big { 6 } else { 5 } } else { 8 };
            let alpha = sigma(bps);
            for_each_seq(&alpha, 1, l, |s| {
                if ctx.mine() {
                    f(&EncCase { set: "a", w: WriterKind::Sample, opt: base, sig: mono_sig(bps), pcm: s });
                }
            });
        }
    }
    // (b) stereo over Σ5×Σ5 × mid-side × correlation mode
    if has('b') {
        for bps in [8u32, 16, 31, 32] {
            let a5 = sigma5(bps);
            let pairs: Vec<(i32, i32)> = a5.iter().flat_map(|l| a5.iter().map(move |r| (*l, *r))).collect();
            let l = if q { 3 } else { 4 };
            for ms in [true, false] {
                for fast in [false, true] {
                    let opt = Opt { mid_side: ms, fast, ..base };
                    let mut buf = Vec::new();
                    for_each_seq(&pairs, 1, l, |s| {
                        if ctx.mine() {
                            buf.clear();
                            for (a, b) in s {
                                buf.push(*a);
                                buf.push(*b);
                            }
                            f(&EncCase { set: "b", w: WriterKind::Sample, opt, sig: Sig { rate: 44100, bps, ch: 2 }, pcm: &buf });
                        }
                    });
                }
            }
        }
    }
    // (c) 3..8 channels over {MIN,0,MAX}
    if has('c') {
        for bps in [8u32, 16, 32] {
            let alpha = [smin(bps), 0, smax(bps)];
            for ch in 3..=8usize {
                let maxn = (if q { 8 } else { 12 }) / ch;
                for n in 1..=maxn {
                    for_each_seq(&alpha, ch * n, ch * n, |s| {
                        if ctx.mine() {
                            f(&EncCase { set: "c", w: WriterKind::Sample, opt: base, sig: Sig { rate: 44100, bps, ch: ch as u8 }, pcm: s });
                        }
                    });
                }
            }
        }
    }
    // (d) carrier + tail: the short-final-block region
    if has('d') {
        for bps in [8u32, 16, 24, 32] {
            let alpha = sigma(bps);
            for lpc in [None, Some(2u8), Some(8), Some(32)] {
                let opt = Opt { lpc, ..base };
                for car in carriers(bps, 16) {
                    let mut buf = car.clone();
                    for_each_seq(&alpha, 1, if q { 3 } else { 5 }, |t| {
                        if ctx.mine() {
                            buf.truncate(16);
                            buf.extend_from_slice(t);
                            f(&EncCase { set: "d", w: WriterKind::Sample, opt, sig: mono_sig(bps), pcm: &buf });
                        }
                    });
                }
            }
        }
    }
    // (e) option lattice, ≤ 2 (T: 3) deviations from base16
    if has('e') {
        let menus = OptMenu::menus();
        let d = if q { 2 } else { 3 };
        let mono_l = if q { 4 } else { 5 };
        let a16 = sigma(16);
        let a5 = sigma5(16);
        let pairs: Vec<(i32, i32)> = a5.iter().flat_map(|l| a5.iter().map(move |r| (*l, *r))).collect();
        for_each_deviation(&menus, d, |v| {
            let opt = OptMenu::pick(v);
            for_each_seq(&a16, 1, mono_l, |s| {
                if ctx.mine() {
                    f(&EncCase { set: "e", w: WriterKind::Sample, opt, sig: mono_sig(16), pcm: s });
                }
            });
            let mut buf = Vec::new();
            for_each_seq(&pairs, 1, 2, |s| {
                if ctx.mine() {
                    buf.clear();
                    for (a, b) in s {
                        buf.push(*a);
                        buf.push(*b);
                    }
                    f(&EncCase { set: "e", w: WriterKind::Sample, opt, sig: Sig { rate: 44100, bps: 16, ch: 2 }, pcm: &buf });
                }
            });
            // one two-block carrier so that multi-frame paths see every option vector as well
            for (k, car) in carriers(16, 37).into_iter().enumerate() {
                if ctx.mine() {
                    f(&EncCase { set: "e", w: WriterKind::Sample, opt, sig: mono_sig(16), pcm: &car });
                }
                if k % 2 == 0 && ctx.mine() {
                    let st: Vec<i32> = car.iter().flat_map(|x| [*x, x / 2 + 1]).collect();
                    f(&EncCase { set: "e", w: WriterKind::Sample, opt, sig: Sig { rate: 44100, bps: 16, ch: 2 }, pcm: &st });
                }
            }
        });
    }
    // (f) sample-rate codings
    if has('f') {
        let a16 = sigma(16);
        for &rate in RATES {
            for_each_seq(&a16, 1, 3, |s| {
                if ctx.mine() {
                    f(&EncCase { set: "f", w: WriterKind::Sample, opt: base, sig: Sig { rate, bps: 16, ch: 1 }, pcm: s });
                }
            });
        }
    }
    // (g) writer front-ends (reader front-ends are the oracle's business)
    if has('g') {
        for bps in [8u32, 12, 16, 24, 32] {
            let alpha = sigma(bps);
            for ch in [1u8, 2, 3] {
                for w in crate::codec::WRITERS {
                    for n in 1..=(if q { 2usize } else { 3 }) {
                        for_each_seq(&alpha, n * ch as usize, n * ch as usize, |s| {
                            if ctx.mine() {
                                f(&EncCase { set: "g", w, opt: base, sig: Sig { rate: 44100, bps, ch }, pcm: s });
                            }
                        });
                    }
                    // multi-block through each writer
                    for car in carriers(bps, 16 * 2 + 5) {
                        if ctx.mine() {
                            let pcm: Vec<i32> = car.iter().flat_map(|x| (0..ch).map(move |c| if c == 0 { *x } else { x / (c as i32 + 1) })).collect();
                            f(&EncCase { set: "g", w, opt: base, sig: Sig { rate: 44100, bps, ch }, pcm: &pcm });
                        }
                    }
                }
            }
        }
    }
    // (i) adversarial signals × the whole option lattice (each vector's own block size)
    if has('i') {
        let menus = OptMenu::menus();
        let adv = [Kind::AltExt, Kind::Noise(0), Kind::Spikes, Kind::Const, Kind::NoisyLow, Kind::Square];
        for_each_deviation(&menus, if q { 2 } else { 3 }, |v| {
            let opt = OptMenu::pick(v);
            let b = opt.block as usize;
            for bps in [8u32, 12, 16, 32] {
                for &kind in &adv {
                    for ch in [1u8, 2] {
                        if b > 4096 && (bps != 16 || ch == 2) {
                            continue;
                        }
                        if ctx.mine() {
                            let m = family(kind, 2, bps, b + 1 + (b > 16) as usize * 20);
                            let pcm: Vec<i32> = if ch == 1 { m } else { m.iter().enumerate().flat_map(|(i, x)| [*x, if i % 2 == 0 { !*x } else { *x }]).collect() };
                            f(&EncCase { set: "i", w: WriterKind::Sample, opt, sig: Sig { rate: 44100, bps, ch }, pcm: &pcm });
                        }
                    }
                }
            }
        });
    }
    // (j) channel-heterogeneous inputs: every assignment of 8 per-channel traits to 2 channels (4 correlation modes) and of the
    //     first 4 traits to 3 channels — frames whose subframes see different KINDS of data (wasted bits in one channel only,
    //     constant next to noise, constant non-zero inter-channel difference, dual mono)
    if has('j') {
        for bps in [8u32, 16, 24] {
            for bs in [16u16, 192] {
                let n = bs as usize * 2 + 5;
                for (chs, ncodes) in [(2usize, 64u32), (3, 512)] {
                    for code in 0..ncodes {
                        if chs == 3 && (0..3).any(|c| (code >> (3 * c)) & 7 > 3) {
                            continue;
                        }
                        let modes: &[(bool, bool)] = if chs == 2 { &[(true, false), (false, false), (false, true), (true, true)] } else { &[(true, false)] };
                        for &(mid_side, fast) in modes {
                            if ctx.mine() {
                                let pcm = hetero(code, chs, bps, n);
                                f(&EncCase { set: "j", w: WriterKind::Sample, opt: Opt { block: bs, mid_side, fast, ..base }, sig: Sig { rate: 44100, bps, ch: chs as u8 }, pcm: &pcm });
                            }
                        }
                    }
                }
            }
        }
    }
    // (k) the two documented presets taken whole — Options::fast() (block 1152, no LPC, fast correlation, no mid-side,
    //     partition order 3) and Options::best() (block 4096, LPC 12, partition order 6) — × signal families × every writer
    if has('k') {
        for opt in [Opt::fast_preset(), Opt::best_preset()] {
            let b = opt.block as usize;
            for bps in [8u32, 16, 24] {
                for &kind in KINDS {
                    for amp in [1u32, 2] {
                        for len in [b - 1, b, b + 1, 2 * b + 17] {
                            for ch in [1u8, 2] {
                                if ctx.mine() {
                                    let m = family(kind, amp, bps, len);
                                    let pcm: Vec<i32> = if ch == 1 { m } else { m.iter().enumerate().flat_map(|(i, x)| [*x, (*x as i64 + (i as i64 % 3) - 1).clamp(smin(bps) as i64, smax(bps) as i64) as i32]).collect() };
                                    let w = crate::codec::WRITERS[(len + ch as usize + amp as usize) % 4];
                                    f(&EncCase { set: "k", w, opt, sig: Sig { rate: 44100, bps, ch }, pcm: &pcm });
                                }
                            }
                        }
                    }
                }
            }
            for code in 0..64u32 {
                if ctx.mine() {
                    let pcm = hetero(code, 2, 16, b + 40);
                    f(&EncCase { set: "k", w: WriterKind::Sample, opt, sig: Sig { rate: 48000, bps: 16, ch: 2 }, pcm: &pcm });
                }
            }
            for ch in 3..=8u8 {
                for bps in [16u32, 24, 32] {
                    // (8 channels × 24 bit × 4096 samples = 96 KiB of interleaved PCM per block: frames beyond 64 KiB)
                    if ctx.mine() {
                        let pcm = hetero(0o31203120 >> (3 * (8 - ch as u32)), ch as usize, bps, b + 3);
                        f(&EncCase { set: "k", w: if bps == 24 { WriterKind::Sample } else { WriterKind::Channel }, opt, sig: Sig { rate: 96000, bps, ch }, pcm: &pcm });
                    }
                }
            }
        }
    }
    // (l) steep low-pass signals (sums of k octave-spaced slow sinusoids near full scale): the optimal predictor approaches
    //     (1 - z^-1)^p, its coefficients exceed the quantiser's range and the LPC quantiser works at shift 0 / takes its
    //     negative-shift branch (found with `vpx lpcprobe2`; the parameter sets below are the ones that reach it)
    if has('l') {
        for (k, f0, spread) in [(8usize, 0.025f64, 1.8f64), (11, 0.01, 1.6), (7, 0.02, 2.0), (8, 0.01, 2.0), (6, 0.04, 2.0), (5, 0.08, 2.0)] {
            for bps in [16u32, 24, 32] {
                for bs in [128u16, 192, 384] {
                    for lpc in [12u8, 32] {
                        for win in [crate::codec::Win::Hann, crate::codec::Win::Tukey(1.0), crate::codec::Win::Tukey(0.5)] {
                            for ch in [1u8, 2] {
                                if ctx.mine() {
                                    let n = bs as usize + 1;
                                    let amp = smax(bps) as f64;
                                    let m: Vec<i32> = (0..n).map(|i| { let mut v = 0.0; for j in 0..k { v += ((i as f64) * f0 * spread.powi(j as i32) + j as f64).sin(); } (v / k as f64 * amp * 0.95) as i32 }).collect();
                                    let pcm: Vec<i32> = if ch == 1 { m } else { m.iter().flat_map(|x| [*x, x / 2]).collect() };
                                    f(&EncCase { set: "l", w: WriterKind::Sample, opt: Opt { block: bs, lpc: Some(lpc), win, part: 0, ..base }, sig: Sig { rate: 44100, bps, ch }, pcm: &pcm });
                                }
                            }
                        }
                    }
                }
            }
        }
    }
    // (h) signal-family grid on real block sizes
    if has('h') {
        let blocks: &[u16] = if q { &[16, 192, 576, 4096] } else { &[16, 17, 100, 192, 576, 1000, 1152, 4096, 65535] };
        for &bs in blocks {
            let b = bs as usize;
            let mut lens = vec![b - 1, b, b + 1, 2 * b + 1];
            if !q || bs <= 576 {
                lens.push(2 * b - 1);
                for o in [1usize, 2, 7, 8, 9, 16, 24, 33, 64] {
                    lens.push(b + o);
                }
            }
            if bs == 65535 {
                lens = vec![b, b + 1, b + 33];
            }
            // depths that are not a whole number of bytes (12, 20) on the small blocks in the quick tier, everywhere in thorough
            let depths: &[u32] = if !q || bs <= 192 { &[8, 12, 16, 20, 24, 32] } else { &[8, 16, 24, 32] };
            for &bps in depths {
                for &kind in KINDS {
                    for amp in 0..3u32 {
                        for &len in &lens {
                            // multichannel on the small blocks (per-channel vec_map path, 3..8 subframes per frame)
                            let chans: &[u8] = if bs <= 192 && amp == 2 { &[1, 2, 3, 8] } else { &[1, 2] };
                            for &ch in chans {
                                for (oi, opt) in [Opt { block: bs, ..base }, Opt { block: bs, lpc: Some(32), part: 15, ..base }, Opt { block: bs, lpc: None, part: 0, fast: true, ..base }].into_iter().enumerate() {
                                    // (the high-order LPC option set needs blocks of a few hundred samples to be chosen at all)
                                    if q && oi > 0 && bs > 576 {
                                        continue;
                                    }
                                    if ctx.mine() {
                                        let m = family(kind, amp, bps, len);
                                        let pcm: Vec<i32> = if ch == 1 { m } else if ch == 2 {
                                            // right = left + δ (stereo-correlated), clamped
                                            m.iter().enumerate().flat_map(|(i, x)| [*x, (*x as i64 + (i as i64 % 3) - 1).clamp(smin(bps) as i64, smax(bps) as i64) as i32]).collect()
                                        } else {
                                            // channel c: the signal delayed by c samples and attenuated by c bits (channel 1 silent)
                                            (0..len).flat_map(|i| (0..ch as usize).map(move |c| (i, c))).map(|(i, c)| if c == 1 { 0 } else { m[i.saturating_sub(c)] >> c.min(7) }).collect()
                                        };
                                        f(&EncCase { set: "h", w: WriterKind::Sample, opt, sig: Sig { rate: 44100, bps, ch }, pcm: &pcm });
                                    }
                                }
                            }
                        }
                    }
                }
            }
        }
    }
}
