//! Independent reference FLAC (RFC 9639) decoder and strict validator.
//!
//! Written from the format rules only (no code shared with the library under test).
//! Plain, slow and auditable on purpose: bit-serial CRCs, a simple MSB-first bit reader,
//! exact integer arithmetic in i64 (bounds argued where it matters), std only, no unsafe.

// ---------------------------------------------------------------------------------------------
// Public data model
// ---------------------------------------------------------------------------------------------

#[derive(Clone, Debug, PartialEq, Eq)]
pub struct StreamInfo {
    pub min_block: u16,
    pub max_block: u16,
    pub min_frame: u32,
    pub max_frame: u32,
    pub rate: u32,
    pub channels: u8, // 1..8
    pub bps: u8,      // 1..32
    pub total: u64,   // 0 = unknown
    pub md5: [u8; 16], // all zero = unknown
}

#[derive(Clone, Debug, PartialEq, Eq)]
pub struct MetaBlock {
    pub last: bool,
    pub btype: u8,
    pub offset: usize, // offset of the 4-byte block header in the input
    pub len: usize,    // body length
}

#[derive(Clone, Debug, PartialEq, Eq)]
pub enum SubKind {
    Constant,
    Verbatim,
    Fixed(u8),
    Lpc(u8),
}

#[derive(Clone, Debug, PartialEq, Eq)]
pub struct PartitionInfo {
    pub escaped: bool,
    pub param: u8, // rice parameter, or escape width when escaped
    pub count: usize,
}

#[derive(Clone, Debug, PartialEq, Eq)]
pub struct SubframeInfo {
    pub kind: SubKind,
    pub wasted: u8,
    pub bps: u8,       // subframe depth before removing wasted bits (frame depth, +1 for a side channel)
    pub precision: u8, // LPC only else 0
    pub shift: i8,     // LPC only else 0
    pub coefs: Vec<i32>, // LPC only (transmitted coefficients) else empty
    pub method: Option<u8>,
    pub partition_order: Option<u8>,
    pub partitions: Vec<PartitionInfo>,
    pub bit_len: usize, // number of bits this subframe occupies
    pub raw: Vec<i64>,  // subframe samples before stereo restoration, after wasted-bit shift
}

#[derive(Clone, Debug, PartialEq, Eq)]
pub struct FrameInfo {
    pub offset: usize,
    pub len: usize,        // bytes incl. CRC-16
    pub header_len: usize, // incl. CRC-8
    pub variable: bool,
    pub coded_number: u64,
    pub coded_number_len: usize,
    pub coded_number_minimal: bool,
    pub first_sample: u64,
    pub block_size: u32,
    pub bs_code: u8,
    pub rate: u32,
    pub rate_code: u8,
    pub chan_code: u8,
    pub channels: u8,
    pub bps: u8,
    pub bps_code: u8,
    pub padding_zero: bool,
    pub subframes: Vec<SubframeInfo>,
    pub samples: Vec<Vec<i64>>, // per channel, after stereo restoration
}

#[derive(Clone, Debug, PartialEq, Eq)]
pub struct Stream {
    pub info: StreamInfo,
    pub blocks: Vec<MetaBlock>,
    pub first_frame_offset: usize,
    pub frames: Vec<FrameInfo>,
    pub pcm: Vec<i32>,     // interleaved, all frames
    pub end_offset: usize, // offset just past the last decoded frame
}

#[derive(Clone, Debug, PartialEq, Eq)]
pub struct Reject {
    pub offset: usize,
    pub frame: Option<usize>,
    pub code: &'static str,
    pub msg: String,
}

fn rej(offset: usize, code: &'static str, msg: String) -> Reject {
    Reject { offset, frame: None, code, msg }
}

// ---------------------------------------------------------------------------------------------
// CRC-8, CRC-16, MD5
// ---------------------------------------------------------------------------------------------

/// CRC-8, polynomial x^8+x^2+x+1 (0x07), init 0, MSB first, bit-serial.
pub fn crc8(data: &[u8]) -> u8 {
    let mut crc = 0u8;
    for &b in data {
        crc ^= b;
        for _ in 0..8 {
            crc = if crc & 0x80 != 0 { (crc << 1) ^ 0x07 } else { crc << 1 };
        }
    }
    crc
}

/// CRC-16, polynomial x^16+x^15+x^2+1 (0x8005), init 0, MSB first, bit-serial.
pub fn crc16(data: &[u8]) -> u16 {
    let mut crc = 0u16;
    for &b in data {
        crc ^= (b as u16) << 8;
        for _ in 0..8 {
            crc = if crc & 0x8000 != 0 { (crc << 1) ^ 0x8005 } else { crc << 1 };
        }
    }
    crc
}

const MD5_S: [u32; 64] = [
    7, 12, 17, 22, 7, 12, 17, 22, 7, 12, 17, 22, 7, 12, 17, 22, 5, 9, 14, 20, 5, 9, 14, 20, 5, 9,
    14, 20, 5, 9, 14, 20, 4, 11, 16, 23, 4, 11, 16, 23, 4, 11, 16, 23, 4, 11, 16, 23, 6, 10, 15,
    21, 6, 10, 15, 21, 6, 10, 15, 21, 6, 10, 15, 21,
];

/// K[i] = floor(2^32 * |sin(i+1)|) (RFC 1321 table T); cross-checked against that formula in tests.
const MD5_K: [u32; 64] = [
    0xd76aa478, 0xe8c7b756, 0x242070db, 0xc1bdceee, 0xf57c0faf, 0x4787c62a, 0xa8304613, 0xfd469501,
    0x698098d8, 0x8b44f7af, 0xffff5bb1, 0x895cd7be, 0x6b901122, 0xfd987193, 0xa679438e, 0x49b40821,
    0xf61e2562, 0xc040b340, 0x265e5a51, 0xe9b6c7aa, 0xd62f105d, 0x02441453, 0xd8a1e681, 0xe7d3fbc8,
    0x21e1cde6, 0xc33707d6, 0xf4d50d87, 0x455a14ed, 0xa9e3e905, 0xfcefa3f8, 0x676f02d9, 0x8d2a4c8a,
    0xfffa3942, 0x8771f681, 0x6d9d6122, 0xfde5380c, 0xa4beea44, 0x4bdecfa9, 0xf6bb4b60, 0xbebfbc70,
    0x289b7ec6, 0xeaa127fa, 0xd4ef3085, 0x04881d05, 0xd9d4d039, 0xe6db99e5, 0x1fa27cf8, 0xc4ac5665,
    0xf4292244, 0x432aff97, 0xab9423a7, 0xfc93a039, 0x655b59c3, 0x8f0ccc92, 0xffeff47d, 0x85845dd1,
    0x6fa87e4f, 0xfe2ce6e0, 0xa3014314, 0x4e0811a1, 0xf7537e82, 0xbd3af235, 0x2ad7d2bb, 0xeb86d391,
];

/// MD5 (RFC 1321).
pub fn md5(data: &[u8]) -> [u8; 16] {
    let mut msg = data.to_vec();
    msg.push(0x80);
    while msg.len() % 64 != 56 {
        msg.push(0);
    }
    msg.extend_from_slice(&((data.len() as u64).wrapping_mul(8)).to_le_bytes());

    let (mut a0, mut b0, mut c0, mut d0) = (0x67452301u32, 0xefcdab89u32, 0x98badcfeu32, 0x10325476u32);
    for chunk in msg.chunks_exact(64) {
        let mut m = [0u32; 16];
        for (i, w) in m.iter_mut().enumerate() {
            *w = u32::from_le_bytes([chunk[4 * i], chunk[4 * i + 1], chunk[4 * i + 2], chunk[4 * i + 3]]);
        }
        let (mut a, mut b, mut c, mut d) = (a0, b0, c0, d0);
        for i in 0..64 {
            let (f, g) = match i / 16 {
                0 => ((b & c) | (!b & d), i),
                1 => ((d & b) | (!d & c), (5 * i + 1) % 16),
                2 => (b ^ c ^ d, (3 * i + 5) % 16),
                _ => (c ^ (b | !d), (7 * i) % 16),
            };
            let f = f.wrapping_add(a).wrapping_add(MD5_K[i]).wrapping_add(m[g]);
            a = d;
            d = c;
            c = b;
            b = b.wrapping_add(f.rotate_left(MD5_S[i]));
        }
        a0 = a0.wrapping_add(a);
        b0 = b0.wrapping_add(b);
        c0 = c0.wrapping_add(c);
        d0 = d0.wrapping_add(d);
    }
    let mut out = [0u8; 16];
    out[0..4].copy_from_slice(&a0.to_le_bytes());
    out[4..8].copy_from_slice(&b0.to_le_bytes());
    out[8..12].copy_from_slice(&c0.to_le_bytes());
    out[12..16].copy_from_slice(&d0.to_le_bytes());
    out
}

/// MD5 of interleaved PCM, each sample sign-extended to ceil(bps/8) bytes, little-endian.
pub fn pcm_md5(pcm_interleaved: &[i32], bps: u8) -> [u8; 16] {
    let nbytes = ((bps as usize) + 7) / 8;
    let nbytes = nbytes.clamp(1, 4);
    let mut buf = Vec::with_capacity(pcm_interleaved.len() * nbytes);
    for &s in pcm_interleaved {
        buf.extend_from_slice(&s.to_le_bytes()[..nbytes]); // i32 two's complement = sign extension
    }
    md5(&buf)
}

// ---------------------------------------------------------------------------------------------
// Bit reader (MSB first)
// ---------------------------------------------------------------------------------------------

struct Bits<'a> {
    d: &'a [u8],
    pos: usize, // in bits
}

impl<'a> Bits<'a> {
    fn eof(&self) -> Reject {
        rej(self.d.len(), "eof", format!("input ends at byte {} while reading bits", self.d.len()))
    }

    /// Read n (0..=64) bits as an unsigned number.
    fn read(&mut self, n: u32) -> Result<u64, Reject> {
        let mut v = 0u64;
        let mut left = n;
        while left > 0 {
            let byte = *self.d.get(self.pos >> 3).ok_or_else(|| self.eof())?;
            let avail = 8 - (self.pos & 7) as u32;
            let take = avail.min(left);
            let bits = ((byte as u16) >> (avail - take)) & ((1u16 << take) - 1);
            v = (v << take) | bits as u64;
            self.pos += take as usize;
            left -= take;
        }
        Ok(v)
    }

    /// Read an n-bit (0..=64) two's-complement number; n == 0 yields 0.
    fn read_signed(&mut self, n: u32) -> Result<i64, Reject> {
        let v = self.read(n)?;
        Ok(if n == 0 { 0 } else { ((v << (64 - n)) as i64) >> (64 - n) })
    }

    /// Count 0 bits up to (and consuming) the terminating 1 bit.
    fn unary(&mut self) -> Result<u64, Reject> {
        let mut q = 0u64;
        loop {
            let byte = *self.d.get(self.pos >> 3).ok_or_else(|| self.eof())?;
            let off = (self.pos & 7) as u32;
            let rest = byte << off; // u8: the (8 - off) unread bits, left aligned
            if rest == 0 {
                q += (8 - off) as u64;
                self.pos += (8 - off) as usize;
            } else {
                let z = rest.leading_zeros();
                q += z as u64;
                self.pos += z as usize + 1;
                return Ok(q);
            }
        }
    }
}

/// Does v fit a signed two's-complement number of `bits` (1..=63) bits?
fn fits(v: i64, bits: u32) -> bool {
    let half = 1i64 << (bits - 1);
    v >= -half && v < half
}

// ---------------------------------------------------------------------------------------------
// Frame decoding
// ---------------------------------------------------------------------------------------------

const RATE_TABLE: [u32; 12] = [0, 88200, 176400, 192000, 8000, 16000, 22050, 24000, 32000, 44100, 48000, 96000];
const BPS_TABLE: [u8; 8] = [0, 8, 12, 0, 16, 20, 24, 32];
const FIXED_COEFS: [&[i64]; 5] = [&[], &[1], &[2, -1], &[3, -3, 1], &[4, -6, 4, -1]];

/// The "UTF-8-like" coded number: (value, byte length, minimal-length encoding?).
fn parse_coded_number(bytes: &[u8], pos: usize) -> Result<(u64, usize, bool), Reject> {
    let eof = || rej(bytes.len(), "eof", "input ends inside the coded number".to_string());
    let lead = *bytes.get(pos).ok_or_else(eof)?;
    let (ncont, lead_bits): (usize, u32) = match lead {
        0x00..=0x7F => (0, 7),
        0xC0..=0xDF => (1, 5),
        0xE0..=0xEF => (2, 4),
        0xF0..=0xF7 => (3, 3),
        0xF8..=0xFB => (4, 2),
        0xFC..=0xFD => (5, 1),
        0xFE => (6, 0),
        _ => return Err(rej(pos, "coded-number", format!("invalid lead byte {:#04x}", lead))),
    };
    let mut v: u64 = (lead as u64) & ((1u64 << lead_bits) - 1);
    for i in 1..=ncont {
        let c = *bytes.get(pos + i).ok_or_else(eof)?;
        if c & 0xC0 != 0x80 {
            return Err(rej(pos + i, "coded-number", format!("invalid continuation byte {:#04x}", c)));
        }
        v = (v << 6) | (c & 0x3F) as u64;
    }
    // payload capacity of an encoding of 1..7 bytes: 7, 11, 16, 21, 26, 31, 36 bits
    const CAP: [u32; 7] = [7, 11, 16, 21, 26, 31, 36];
    let minimal = ncont == 0 || v >= (1u64 << CAP[ncont - 1]);
    Ok((v, ncont + 1, minimal))
}

/// Decode one frame at bytes[pos..]. See module docs / task statement for the rules.
pub fn decode_frame(bytes: &[u8], pos: usize, info: Option<&StreamInfo>) -> Result<FrameInfo, Reject> {
    if pos >= bytes.len() {
        return Err(rej(bytes.len(), "eof", format!("no frame data at offset {}", pos)));
    }
    let byte = |i: usize| -> Result<u8, Reject> {
        bytes.get(i).copied().ok_or_else(|| rej(bytes.len(), "eof", "input ends inside the frame header".to_string()))
    };

    // --- header ---
    let b0 = byte(pos)?;
    if b0 != 0xFF {
        return Err(rej(pos, "bad-sync", format!("expected sync code, found byte {:#04x}", b0)));
    }
    let b1 = byte(pos + 1)?;
    if b1 & 0xFE != 0xF8 {
        return Err(rej(pos + 1, "bad-sync", format!("expected sync code, found bytes ff {:02x}", b1)));
    }
    let variable = b1 & 1 == 1;
    let b2 = byte(pos + 2)?;
    let (bs_code, rate_code) = (b2 >> 4, b2 & 0x0F);
    if bs_code == 0 {
        return Err(rej(pos + 2, "bs-code-0", "reserved block size code 0000".to_string()));
    }
    if rate_code == 15 {
        return Err(rej(pos + 2, "rate-code-15", "forbidden sample rate code 1111".to_string()));
    }
    let b3 = byte(pos + 3)?;
    let (chan_code, bps_code) = (b3 >> 4, (b3 >> 1) & 7);
    if chan_code > 10 {
        return Err(rej(pos + 3, "chan-code", format!("reserved channel code {}", chan_code)));
    }
    if bps_code == 3 {
        return Err(rej(pos + 3, "bps-code-3", "reserved bit depth code 011".to_string()));
    }
    if b3 & 1 != 0 {
        return Err(rej(pos + 3, "reserved-bit", "reserved header bit is 1".to_string()));
    }
    let (coded_number, coded_number_len, coded_number_minimal) = parse_coded_number(bytes, pos + 4)?;
    let mut p = pos + 4 + coded_number_len;

    let block_size: u32 = match bs_code {
        1 => 192,
        2..=5 => 576 << (bs_code - 2),
        6 => {
            let v = byte(p)? as u32;
            p += 1;
            v + 1
        }
        7 => {
            let v = ((byte(p)? as u32) << 8) | byte(p + 1)? as u32;
            p += 2;
            v + 1
        }
        _ => 256 << (bs_code - 8),
    };
    let header_rate: Option<u32> = match rate_code {
        0 => None,
        1..=11 => Some(RATE_TABLE[rate_code as usize]),
        12 => {
            let v = byte(p)? as u32;
            p += 1;
            Some(v * 1000)
        }
        _ => {
            let v = ((byte(p)? as u32) << 8) | byte(p + 1)? as u32;
            p += 2;
            Some(if rate_code == 13 { v } else { v * 10 })
        }
    };
    let stored_crc8 = byte(p)?;
    let computed_crc8 = crc8(&bytes[pos..p]);
    if stored_crc8 != computed_crc8 {
        return Err(rej(p, "crc8", format!("header CRC-8 stored {:#04x} computed {:#04x}", stored_crc8, computed_crc8)));
    }
    let header_len = p + 1 - pos;
    if block_size > 65535 {
        return Err(rej(pos + 2, "bs-65536", "block size 65536 is forbidden".to_string()));
    }

    // --- resolve against STREAMINFO ---
    let channels: u8 = if chan_code < 8 { chan_code + 1 } else { 2 };
    let rate = match (header_rate, info) {
        (Some(r), Some(si)) if r != si.rate => {
            return Err(rej(pos + 2, "info-mismatch-rate", format!("frame rate {} != STREAMINFO {}", r, si.rate)));
        }
        (Some(r), _) => r,
        (None, Some(si)) => si.rate,
        (None, None) => return Err(rej(pos + 2, "rate-from-streaminfo", "rate code 0000 without STREAMINFO".to_string())),
    };
    if let Some(si) = info {
        if channels != si.channels {
            return Err(rej(pos + 3, "info-mismatch-channels", format!("frame channels {} != STREAMINFO {}", channels, si.channels)));
        }
    }
    let bps: u8 = match (bps_code, info) {
        (0, Some(si)) => si.bps,
        (0, None) => return Err(rej(pos + 3, "bps-from-streaminfo", "bit depth code 000 without STREAMINFO".to_string())),
        (c, Some(si)) if BPS_TABLE[c as usize] != si.bps => {
            return Err(rej(pos + 3, "info-mismatch-bps", format!("frame depth {} != STREAMINFO {}", BPS_TABLE[c as usize], si.bps)));
        }
        (c, _) => BPS_TABLE[c as usize],
    };
    if bps == 0 || bps > 32 {
        return Err(rej(pos + 3, "info-mismatch-bps", format!("unusable bit depth {}", bps)));
    }
    if let Some(si) = info {
        if block_size > si.max_block as u32 {
            return Err(rej(pos + 2, "block>max", format!("block size {} > STREAMINFO max {}", block_size, si.max_block)));
        }
    }

    // --- subframes ---
    let n = block_size as usize;
    let mut br = Bits { d: bytes, pos: (pos + header_len) * 8 };
    let mut subframes = Vec::with_capacity(channels as usize);
    for ch in 0..channels {
        let side = match chan_code {
            8 | 10 => ch == 1,
            9 => ch == 0,
            _ => false,
        };
        subframes.push(decode_subframe(&mut br, n, bps as u32 + side as u32)?);
    }
    let subframes_end = br.pos >> 3;

    // --- stereo restoration (exact) ---
    let mut samples: Vec<Vec<i64>> = Vec::with_capacity(channels as usize);
    match chan_code {
        8 => {
            let (l, s) = (&subframes[0].raw, &subframes[1].raw);
            let r: Vec<i64> = (0..n).map(|i| l[i] - s[i]).collect();
            samples.push(l.clone());
            samples.push(r);
        }
        9 => {
            let (s, r) = (&subframes[0].raw, &subframes[1].raw);
            let l: Vec<i64> = (0..n).map(|i| s[i] + r[i]).collect();
            samples.push(l);
            samples.push(r.clone());
        }
        10 => {
            let (m, s) = (&subframes[0].raw, &subframes[1].raw);
            let mut l = Vec::with_capacity(n);
            let mut r = Vec::with_capacity(n);
            for i in 0..n {
                let m2 = 2 * m[i] + s[i].rem_euclid(2);
                l.push((m2 + s[i]) >> 1);
                r.push((m2 - s[i]) >> 1);
            }
            samples.push(l);
            samples.push(r);
        }
        _ => {
            for sf in &subframes {
                samples.push(sf.raw.clone());
            }
        }
    }
    for (ch, chan) in samples.iter().enumerate() {
        if let Some(i) = chan.iter().position(|&v| !fits(v, bps as u32)) {
            return Err(rej(subframes_end, "sample-range",
                format!("channel {} sample {} = {} does not fit {} bits", ch, i, chan[i], bps)));
        }
    }

    // --- footer ---
    let pad = (8 - (br.pos & 7)) & 7;
    let padding_zero = br.read(pad as u32)? == 0;
    let crc_pos = br.pos >> 3;
    let stored_crc16 = br.read(16)? as u16;
    let computed_crc16 = crc16(&bytes[pos..crc_pos]);
    if stored_crc16 != computed_crc16 {
        return Err(rej(crc_pos, "crc16", format!("frame CRC-16 stored {:#06x} computed {:#06x}", stored_crc16, computed_crc16)));
    }

    // first_sample here is only the frame's own claim; decode()/validate_raw_frames() refine it.
    let first_sample = if variable {
        coded_number
    } else {
        let stream_bs = match info {
            Some(si) if si.min_block == si.max_block => si.max_block as u64,
            _ => block_size as u64,
        };
        coded_number.saturating_mul(stream_bs)
    };

    Ok(FrameInfo {
        offset: pos,
        len: crc_pos + 2 - pos,
        header_len,
        variable,
        coded_number,
        coded_number_len,
        coded_number_minimal,
        first_sample,
        block_size,
        bs_code,
        rate,
        rate_code,
        chan_code,
        channels,
        bps,
        bps_code,
        padding_zero,
        subframes,
        samples,
    })
}

/// Decode one subframe of `n` samples whose depth (incl. the side-channel extra bit) is `depth` (1..=33).
fn decode_subframe(br: &mut Bits, n: usize, depth: u32) -> Result<SubframeInfo, Reject> {
    let start = br.pos;
    let at = br.pos >> 3;
    if br.read(1)? != 0 {
        return Err(rej(at, "subframe-pad", "subframe padding bit is 1".to_string()));
    }
    let t = br.read(6)? as u8;
    let kind = match t {
        0 => SubKind::Constant,
        1 => SubKind::Verbatim,
        8..=12 => SubKind::Fixed(t - 8),
        32..=63 => SubKind::Lpc((t & 31) + 1),
        _ => return Err(rej(at, "subframe-type", format!("reserved subframe type {:06b}", t))),
    };
    let wasted: u64 = if br.read(1)? == 1 { br.unary()? + 1 } else { 0 };
    if wasted >= depth as u64 {
        return Err(rej(br.pos >> 3, "wasted>=bps", format!("{} wasted bits in a {}-bit subframe", wasted, depth)));
    }
    let eff = depth - wasted as u32; // 1..=33
    let order = match kind {
        SubKind::Fixed(o) | SubKind::Lpc(o) => o as usize,
        _ => 0,
    };
    if order > n {
        return Err(rej(at, "order>block", format!("predictor order {} > block size {}", order, n)));
    }

    let mut sf = SubframeInfo {
        kind: kind.clone(),
        wasted: wasted as u8,
        bps: depth as u8,
        precision: 0,
        shift: 0,
        coefs: Vec::new(),
        method: None,
        partition_order: None,
        partitions: Vec::new(),
        bit_len: 0,
        raw: Vec::new(),
    };

    let mut s: Vec<i64> = Vec::with_capacity(n);
    match kind {
        SubKind::Constant => {
            let v = br.read_signed(eff)?;
            s.resize(n, v);
        }
        SubKind::Verbatim => {
            for _ in 0..n {
                s.push(br.read_signed(eff)?);
            }
        }
        SubKind::Fixed(_) | SubKind::Lpc(_) => {
            for _ in 0..order {
                s.push(br.read_signed(eff)?);
            }
            let (coefs, shift): (Vec<i64>, u32) = if let SubKind::Lpc(_) = kind {
                let pat = br.pos >> 3;
                let pm1 = br.read(4)? as u32;
                if pm1 == 15 {
                    return Err(rej(pat, "precision-15", "forbidden LPC precision code 1111".to_string()));
                }
                let precision = pm1 + 1;
                let shift = br.read_signed(5)?;
                if shift < 0 {
                    return Err(rej(pat, "neg-shift", format!("negative LPC shift {}", shift)));
                }
                let mut c = Vec::with_capacity(order);
                for _ in 0..order {
                    c.push(br.read_signed(precision)?);
                }
                sf.precision = precision as u8;
                sf.shift = shift as i8;
                sf.coefs = c.iter().map(|&x| x as i32).collect();
                (c, shift as u32)
            } else {
                (FIXED_COEFS[order].to_vec(), 0)
            };
            let residual = decode_residual(br, n, order, &mut sf)?;
            // Exactness in i64: every history sample fits `eff` <= 33 bits (|s| <= 2^32, checked below),
            // |coef| <= 2^14, at most 32 terms => |sum| <= 2^51; |residual| < 2^31.
            for i in order..n {
                let mut sum = 0i64;
                for (j, &c) in coefs.iter().enumerate() {
                    sum += c * s[i - 1 - j];
                }
                let v = (sum >> shift) + residual[i - order];
                if !fits(v, eff) {
                    return Err(rej(br.pos >> 3, "sample-range",
                        format!("subframe sample {} = {} does not fit {} bits", i, v, eff)));
                }
                s.push(v);
            }
        }
    }
    sf.raw = s.iter().map(|&v| v << wasted).collect();
    sf.bit_len = br.pos - start;
    Ok(sf)
}

/// Decode the coded residual of a Fixed/LPC subframe: n - order values.
fn decode_residual(br: &mut Bits, n: usize, order: usize, sf: &mut SubframeInfo) -> Result<Vec<i64>, Reject> {
    let at = br.pos >> 3;
    let method = br.read(2)? as u8;
    if method > 1 {
        return Err(rej(at, "method", format!("reserved residual coding method {:02b}", method)));
    }
    let (param_bits, escape) = if method == 0 { (4u32, 15u64) } else { (5u32, 31u64) };
    let p = br.read(4)? as u32;
    sf.method = Some(method);
    sf.partition_order = Some(p as u8);
    if p > 0 && n % (1usize << p) != 0 {
        return Err(rej(at, "partition-order", format!("block size {} not divisible by 2^{}", n, p)));
    }
    let per = n >> p;
    if per < order {
        return Err(rej(at, "partition-order", format!("partition length {} < predictor order {}", per, order)));
    }
    let mut out: Vec<i64> = Vec::with_capacity(n - order);
    for part in 0..(1usize << p) {
        let count = if part == 0 { per - order } else { per };
        let k = br.read(param_bits)?;
        if k == escape {
            let w = br.read(5)? as u32;
            sf.partitions.push(PartitionInfo { escaped: true, param: w as u8, count });
            for _ in 0..count {
                out.push(br.read_signed(w)?); // w <= 31 so always within (-2^31, 2^31)
            }
        } else {
            sf.partitions.push(PartitionInfo { escaped: false, param: k as u8, count });
            for _ in 0..count {
                let rat = br.pos >> 3;
                let q = br.unary()?;
                let r = br.read(k as u32)?;
                let u: u128 = ((q as u128) << k) + r as u128; // k <= 30, q < 2^64: no overflow
                if u > (1u128 << 33) {
                    return Err(rej(rat, "residual-range", format!("folded residual {} is absurdly large", u)));
                }
                let u = u as i64;
                let v = if u & 1 == 0 { u >> 1 } else { -(u >> 1) - 1 };
                if v <= -(1i64 << 31) {
                    return Err(rej(rat, "residual-min", format!("residual {} <= -2^31", v)));
                }
                if v > (1i64 << 31) - 1 {
                    return Err(rej(rat, "residual-range", format!("residual {} > 2^31-1", v)));
                }
                out.push(v);
            }
        }
    }
    Ok(out)
}

// ---------------------------------------------------------------------------------------------
// Stream decoding
// ---------------------------------------------------------------------------------------------

fn empty_info() -> StreamInfo {
    StreamInfo { min_block: 0, max_block: 0, min_frame: 0, max_frame: 0, rate: 0, channels: 1, bps: 1, total: 0, md5: [0; 16] }
}

fn be(bytes: &[u8]) -> u64 {
    bytes.iter().fold(0u64, |a, &b| (a << 8) | b as u64)
}

/// "fLaC" + metadata blocks. Returns (STREAMINFO, blocks, offset of the first frame).
fn parse_meta(bytes: &[u8]) -> Result<(StreamInfo, Vec<MetaBlock>, usize), Reject> {
    if bytes.len() < 4 || &bytes[0..4] != b"fLaC" {
        return Err(rej(0, "no-flac-tag", "input does not start with fLaC".to_string()));
    }
    let mut pos = 4usize;
    let mut blocks: Vec<MetaBlock> = Vec::new();
    let mut info: Option<StreamInfo> = None;
    loop {
        if pos + 4 > bytes.len() {
            return Err(rej(bytes.len(), "eof", "input ends inside a metadata block header".to_string()));
        }
        let last = bytes[pos] & 0x80 != 0;
        let btype = bytes[pos] & 0x7F;
        let len = be(&bytes[pos + 1..pos + 4]) as usize;
        if btype == 127 {
            return Err(rej(pos, "meta-type-127", "forbidden metadata block type 127".to_string()));
        }
        if blocks.is_empty() {
            if btype != 0 {
                return Err(rej(pos, "no-streaminfo", format!("first metadata block has type {}", btype)));
            }
            if len != 34 {
                return Err(rej(pos, "meta-streaminfo-len", format!("STREAMINFO length {} != 34", len)));
            }
        } else if btype == 0 {
            return Err(rej(pos, "meta-dup-streaminfo", "second STREAMINFO block".to_string()));
        }
        if len > bytes.len() - (pos + 4) {
            return Err(rej(bytes.len(), "eof", format!("metadata block type {} length {} runs past the end of input", btype, len)));
        }
        let body = &bytes[pos + 4..pos + 4 + len];
        if btype == 0 {
            let packed = be(&body[10..18]); // rate:20 channels-1:3 depth-1:5 total:36
            let mut md5 = [0u8; 16];
            md5.copy_from_slice(&body[18..34]);
            info = Some(StreamInfo {
                min_block: be(&body[0..2]) as u16,
                max_block: be(&body[2..4]) as u16,
                min_frame: be(&body[4..7]) as u32,
                max_frame: be(&body[7..10]) as u32,
                rate: (packed >> 44) as u32,
                channels: ((packed >> 41) & 7) as u8 + 1,
                bps: ((packed >> 36) & 31) as u8 + 1,
                total: packed & ((1u64 << 36) - 1),
                md5,
            });
        }
        blocks.push(MetaBlock { last, btype, offset: pos, len });
        pos += 4 + len;
        if last {
            break;
        }
    }
    match info {
        Some(si) => Ok((si, blocks, pos)),
        None => Err(rej(4, "no-streaminfo", "no STREAMINFO block".to_string())),
    }
}

fn run(bytes: &[u8]) -> (Stream, Option<Reject>) {
    let (info, blocks, first) = match parse_meta(bytes) {
        Ok(x) => x,
        Err(r) => {
            let st = Stream { info: empty_info(), blocks: Vec::new(), first_frame_offset: 0, frames: Vec::new(), pcm: Vec::new(), end_offset: 0 };
            return (st, Some(r));
        }
    };
    let total = info.total;
    let mut st = Stream { info, blocks, first_frame_offset: first, frames: Vec::new(), pcm: Vec::new(), end_offset: first };
    let mut pos = first;
    let mut decoded = 0u64;
    loop {
        if (total != 0 && decoded == total) || (total == 0 && pos == bytes.len()) {
            return (st, None);
        }
        let idx = st.frames.len();
        let fail = |mut r: Reject| {
            r.frame = Some(idx);
            r
        };
        let mut f = match decode_frame(bytes, pos, Some(&st.info)) {
            Ok(f) => f,
            Err(r) => return (st, Some(fail(r))),
        };
        // A block shorter than 16 samples is only allowed as the last one. With an unknown total we
        // learn that the previous frame was not the last one when this one decodes.
        if let Some(prev) = st.frames.last() {
            if prev.block_size < 16 {
                let r = rej(prev.offset, "short-nonfinal-block", format!("frame {} has block size {} but is not the last frame", idx - 1, prev.block_size));
                return (st, Some(fail(r)));
            }
        }
        let bs = f.block_size as u64;
        if total != 0 && decoded + bs > total {
            let r = rej(pos, "too-many-samples", format!("frame carries the sample count to {} > total {}", decoded + bs, total));
            return (st, Some(fail(r)));
        }
        if total != 0 && bs < 16 && decoded + bs < total {
            let r = rej(pos, "short-nonfinal-block", format!("frame {} has block size {} but is not the last frame", idx, bs));
            return (st, Some(fail(r)));
        }
        if !f.variable {
            let stream_bs = if st.info.min_block == st.info.max_block {
                st.info.max_block as u64
            } else {
                st.frames.first().map_or(bs, |f0| f0.block_size as u64)
            };
            f.first_sample = f.coded_number.saturating_mul(stream_bs);
        }
        for i in 0..f.block_size as usize {
            for ch in &f.samples {
                st.pcm.push(ch[i] as i32); // exact: every sample was checked to fit bps <= 32 bits
            }
        }
        pos += f.len;
        decoded += bs;
        st.end_offset = pos;
        st.frames.push(f);
    }
}

/// Decode a whole file; anything a decoder is required to reject is an Err.
pub fn decode(bytes: &[u8]) -> Result<Stream, Reject> {
    match run(bytes) {
        (st, None) => Ok(st),
        (_, Some(r)) => Err(r),
    }
}

/// Like decode() but also returns everything that was decoded (and fully verified) before the error.
pub fn decode_partial(bytes: &[u8]) -> (Stream, Option<Reject>) {
    run(bytes)
}

// ---------------------------------------------------------------------------------------------
// Strict validation of encoder output
// ---------------------------------------------------------------------------------------------

fn reject_line(r: &Reject) -> String {
    match r.frame {
        Some(i) => format!("reject:{} frame {} offset {}: {}", r.code, i, r.offset, r.msg),
        None => format!("reject:{} offset {}: {}", r.code, r.offset, r.msg),
    }
}

/// Per-frame and frame-sequence rules shared by validate() and validate_raw_frames().
/// The last element of `frames` is treated as the final frame of the stream.
fn frame_violations(frames: &[FrameInfo], v: &mut Vec<String>) {
    let mut running = 0u64;
    for (i, f) in frames.iter().enumerate() {
        let last = i + 1 == frames.len();
        if f.variable != frames[0].variable {
            v.push(format!("frame {}: mixed-blocking strategy differs from frame 0", i));
        }
        if f.variable {
            if f.coded_number != running {
                v.push(format!("frame {}: sample-number {} != {}", i, f.coded_number, running));
            }
        } else {
            if f.coded_number != i as u64 {
                v.push(format!("frame {}: frame-number {} != {}", i, f.coded_number, i));
            }
            if f.coded_number_len > 6 {
                v.push(format!("frame {}: frame-number-width coded in {} bytes (frame numbers are at most 31 bits)", i, f.coded_number_len));
            }
            if !last && f.block_size != frames[0].block_size {
                v.push(format!("frame {}: block-size-varies {} != {} in a fixed-blocksize stream", i, f.block_size, frames[0].block_size));
            }
            if last && f.block_size > frames[0].block_size {
                v.push(format!("frame {}: block-size-varies final block {} > {} in a fixed-blocksize stream", i, f.block_size, frames[0].block_size));
            }
        }
        if !f.coded_number_minimal {
            v.push(format!("frame {}: coded-number-nonminimal value {} coded in {} bytes", i, f.coded_number, f.coded_number_len));
        }
        if !f.padding_zero {
            v.push(format!("frame {}: padding-nonzero", i));
        }
        if !last && f.block_size < 16 {
            v.push(format!("frame {}: short-nonfinal-block {}", i, f.block_size));
        }
        for (c, sf) in f.subframes.iter().enumerate() {
            if let Some(p0) = sf.partitions.first() {
                if p0.count == 0 {
                    v.push(format!("frame {} subframe {}: zero-first-partition (block {} >> {} not larger than predictor order)",
                        i, c, f.block_size, sf.partition_order.unwrap_or(0)));
                }
            }
        }
        running += f.block_size as u64;
    }
}

/// Strict conformance of an encoder's output file.
pub fn validate(bytes: &[u8]) -> (Option<Stream>, Vec<String>) {
    let mut v: Vec<String> = Vec::new();
    let (st, reject) = run(bytes);
    if let Some(r) = &reject {
        v.push(reject_line(r));
    }
    if st.first_frame_offset == 0 {
        return (None, v); // metadata unusable
    }
    let info = &st.info;

    // --- metadata ---
    // (The block chain ends exactly at the first frame and `last` is on exactly the final block by
    //  construction of parse_meta(); a wrong chain shows up as reject:bad-sync / reject:eof.)
    let mut seekpoints: Vec<(u64, u64, u16)> = Vec::new();
    for (bi, b) in st.blocks.iter().enumerate() {
        if (7..=126).contains(&b.btype) {
            v.push(format!("meta {}: meta-reserved-type {}", bi, b.btype));
        }
        if b.btype == 3 {
            let body = &bytes[b.offset + 4..b.offset + 4 + b.len];
            if b.len % 18 != 0 {
                v.push(format!("meta {}: seektable-len {} is not a multiple of 18", bi, b.len));
            }
            let mut prev: Option<u64> = None;
            let mut seen_placeholder = false;
            for (pi, pt) in body.chunks_exact(18).enumerate() {
                let sample = be(&pt[0..8]);
                if sample == u64::MAX {
                    seen_placeholder = true;
                    continue;
                }
                if seen_placeholder {
                    v.push(format!("meta {}: seektable-placeholder-order point {} follows a placeholder", bi, pi));
                }
                if let Some(pv) = prev {
                    if sample <= pv {
                        v.push(format!("meta {}: seektable-order point {} sample {} <= previous {}", bi, pi, sample, pv));
                    }
                }
                prev = Some(sample);
                seekpoints.push((sample, be(&pt[8..16]), be(&pt[16..18]) as u16));
            }
        }
    }
    for (t, name) in [(3u8, "meta-dup-seektable"), (4u8, "meta-dup-vorbis-comment")] {
        let cnt = st.blocks.iter().filter(|b| b.btype == t).count();
        if cnt > 1 {
            v.push(format!("{}: {} blocks of type {}", name, cnt, t));
        }
    }
    if info.min_block < 16 {
        v.push(format!("streaminfo: min-block {} < 16", info.min_block));
    }
    if info.max_block < info.min_block {
        v.push(format!("streaminfo: max-block {} < min block {}", info.max_block, info.min_block));
    }
    if info.bps < 4 {
        v.push(format!("streaminfo: bps {} < 4", info.bps));
    }

    // --- frames ---
    frame_violations(&st.frames, &mut v);
    let nframes = st.frames.len();
    let fixed = st.frames.first().map_or(false, |f| !f.variable);
    for (i, f) in st.frames.iter().enumerate() {
        let last = i + 1 == nframes;
        if !last && info.min_block != info.max_block && f.block_size < info.min_block as u32 {
            v.push(format!("frame {}: block<min {} < STREAMINFO min {}", i, f.block_size, info.min_block));
        }
        if fixed && info.min_block == info.max_block && !last && f.block_size != info.max_block as u32 {
            v.push(format!("frame {}: block-size {} != STREAMINFO fixed block size {}", i, f.block_size, info.max_block));
        }
    }
    if fixed && nframes > 1 && info.min_block != info.max_block {
        v.push(format!("streaminfo: fixed-blocksize stream but min block {} != max block {}", info.min_block, info.max_block));
    }

    if reject.is_some() {
        return (None, v);
    }

    // --- whole-stream rules (only meaningful when everything decoded) ---
    let sum: u64 = st.frames.iter().map(|f| f.block_size as u64).sum();
    if info.total == 0 {
        v.push("streaminfo: total-unknown".to_string());
    } else if info.total != sum {
        v.push(format!("streaminfo: total-mismatch {} != decoded {}", info.total, sum));
    }
    if info.md5 == [0u8; 16] {
        v.push("streaminfo: md5-unknown".to_string());
    } else if info.md5 != pcm_md5(&st.pcm, info.bps) {
        v.push("streaminfo: md5-mismatch".to_string());
    }
    if info.min_frame == 0 || info.max_frame == 0 {
        v.push("streaminfo: frame-size-unknown".to_string());
    }
    if let (Some(mn), Some(mx)) = (st.frames.iter().map(|f| f.len).min(), st.frames.iter().map(|f| f.len).max()) {
        if info.min_frame != 0 && info.min_frame as usize != mn {
            v.push(format!("streaminfo: min-frame {} != true minimum {}", info.min_frame, mn));
        }
        if info.max_frame != 0 && info.max_frame as usize != mx {
            v.push(format!("streaminfo: max-frame {} != true maximum {}", info.max_frame, mx));
        }
    }
    if st.end_offset != bytes.len() {
        v.push(format!("trailing-bytes: {} bytes after the last frame", bytes.len() - st.end_offset));
    }
    // Every defined seek point must name a real frame: its first sample, byte offset and length.
    let mut starts: Vec<(u64, u64, u32)> = Vec::with_capacity(nframes);
    let mut running = 0u64;
    for f in &st.frames {
        starts.push((running, (f.offset - st.first_frame_offset) as u64, f.block_size));
        running += f.block_size as u64;
    }
    for (sample, off, cnt) in seekpoints {
        if !starts.iter().any(|&(s, o, n)| s == sample && o == off && n == cnt as u32) {
            v.push(format!("seekpoint-target: point (sample {}, offset {}, samples {}) matches no frame", sample, off, cnt));
        }
    }
    (Some(st), v)
}

/// Strict conformance of a raw back-to-back sequence of frames (no fLaC header, no STREAMINFO).
pub fn validate_raw_frames(bytes: &[u8]) -> (Vec<FrameInfo>, Vec<String>) {
    let mut v: Vec<String> = Vec::new();
    let mut frames: Vec<FrameInfo> = Vec::new();
    let mut pos = 0usize;
    let mut running = 0u64;
    while pos < bytes.len() {
        match decode_frame(bytes, pos, None) {
            Ok(mut f) => {
                f.first_sample = running;
                running += f.block_size as u64;
                pos += f.len;
                frames.push(f);
            }
            Err(mut r) => {
                r.frame = Some(frames.len());
                v.push(reject_line(&r));
                break;
            }
        }
    }
    frame_violations(&frames, &mut v);
    for (i, f) in frames.iter().enumerate() {
        if f.rate != frames[0].rate || f.channels != frames[0].channels || f.bps != frames[0].bps {
            v.push(format!("frame {}: stream-params rate/channels/bps {}/{}/{} differ from frame 0 {}/{}/{}",
                i, f.rate, f.channels, f.bps, frames[0].rate, frames[0].channels, frames[0].bps));
        }
    }
    (frames, v)
}

// ---------------------------------------------------------------------------------------------
// Tests
// ---------------------------------------------------------------------------------------------

#[cfg(test)]
mod tests {
    use super::*;

    fn hex(d: &[u8]) -> String {
        d.iter().map(|b| format!("{:02x}", b)).collect()
    }

    #[test]
    fn md5_vectors() {
        assert_eq!(hex(&md5(b"")), "d41d8cd98f00b204e9800998ecf8427e");
        assert_eq!(hex(&md5(b"a")), "0cc175b9c0f1b6a831c399e269772661");
        assert_eq!(hex(&md5(b"abc")), "900150983cd24fb0d6963f7d28e17f72");
        assert_eq!(hex(&md5(b"message digest")), "f96b697d7cb7938d525a2f31aaf161d0");
        assert_eq!(hex(&md5(b"abcdefghijklmnopqrstuvwxyz")), "c3fcd3d76192e4007dfb496cca67e13b");
        assert_eq!(hex(&md5(b"ABCDEFGHIJKLMNOPQRSTUVWXYZabcdefghijklmnopqrstuvwxyz0123456789")), "d174ab98d277d9f5a5611c2c9f419d9f");
        assert_eq!(hex(&md5("1234567890".repeat(8).as_bytes())), "57edf4a22be3c955ac49da2e2107b67a");
        // padding boundaries
        for n in [55usize, 56, 57, 63, 64, 65, 119, 120, 128] {
            let d = vec![0x61u8; n];
            assert_eq!(md5(&d).len(), 16);
        }
        for i in 0..64 {
            let k = (((i + 1) as f64).sin().abs() * 4294967296.0).floor() as u32;
            assert_eq!(k, MD5_K[i], "K[{}]", i);
        }
    }

    #[test]
    fn pcm_md5_layout() {
        assert_eq!(pcm_md5(&[-2, 1], 16), md5(&[0xFE, 0xFF, 0x01, 0x00]));
        assert_eq!(pcm_md5(&[-2, 1], 8), md5(&[0xFE, 0x01]));
        assert_eq!(pcm_md5(&[-2], 12), md5(&[0xFE, 0xFF]));
        assert_eq!(pcm_md5(&[-2], 20), md5(&[0xFE, 0xFF, 0xFF]));
        assert_eq!(pcm_md5(&[-2], 32), md5(&[0xFE, 0xFF, 0xFF, 0xFF]));
    }

    #[test]
    fn crc_sanity() {
        assert_eq!(crc8(b""), 0);
        assert_eq!(crc16(b""), 0);
        assert_eq!(crc8(b"123456789"), 0xF4); // CRC-8/SMBUS check value
        assert_eq!(crc16(b"123456789"), 0xFEE8); // CRC-16/UMTS (BUYPASS) check value
        assert_eq!(crc8(&[0x01]), 0x07);
        assert_eq!(crc16(&[0x01]), 0x8005);
        // appending the CRC yields residue 0
        let d = b"hello flac";
        let mut x = d.to_vec();
        x.push(crc8(d));
        assert_eq!(crc8(&x), 0);
        let mut y = d.to_vec();
        y.extend_from_slice(&crc16(d).to_be_bytes());
        assert_eq!(crc16(&y), 0);
    }

    #[test]
    fn bit_reader() {
        let d = [0b1010_0000u8, 0b0000_0001, 0xFF, 0x80];
        let mut b = Bits { d: &d, pos: 0 };
        assert_eq!(b.read(3).unwrap(), 0b101);
        assert_eq!(b.unary().unwrap(), 12);
        assert_eq!(b.read_signed(4).unwrap(), -1);
        assert_eq!(b.read_signed(5).unwrap(), -1);
        assert_eq!(b.read(0).unwrap(), 0);
        assert_eq!(b.unary().unwrap_err().code, "eof");
        let mut b = Bits { d: &d, pos: 0 };
        assert_eq!(b.read(32).unwrap(), 0xA001FF80);
        assert_eq!(b.read(1).unwrap_err().code, "eof");
        let d9 = [0xFFu8; 9];
        let mut b = Bits { d: &d9, pos: 3 };
        assert_eq!(b.read(64).unwrap(), u64::MAX);
        let mut b = Bits { d: &d9, pos: 3 };
        assert_eq!(b.read_signed(33).unwrap(), -1);
    }

    #[test]
    fn coded_numbers() {
        assert_eq!(parse_coded_number(&[0x00], 0).unwrap(), (0, 1, true));
        assert_eq!(parse_coded_number(&[0x7F], 0).unwrap(), (127, 1, true));
        assert_eq!(parse_coded_number(&[0xC2, 0x80], 0).unwrap(), (128, 2, true));
        assert_eq!(parse_coded_number(&[0xC0, 0x80], 0).unwrap(), (0, 2, false));
        assert_eq!(parse_coded_number(&[0xE0, 0xA0, 0x80], 0).unwrap(), (0x800, 3, true));
        assert_eq!(parse_coded_number(&[0xE0, 0x9F, 0xBF], 0).unwrap(), (0x7FF, 3, false));
        assert_eq!(parse_coded_number(&[0xFE, 0xBF, 0xBF, 0xBF, 0xBF, 0xBF, 0xBF], 0).unwrap(), ((1 << 36) - 1, 7, true));
        assert_eq!(parse_coded_number(&[0xFE, 0x82, 0x80, 0x80, 0x80, 0x80, 0x80], 0).unwrap(), (1 << 31, 7, true));
        assert_eq!(parse_coded_number(&[0xFE, 0x81, 0xBF, 0xBF, 0xBF, 0xBF, 0xBF], 0).unwrap(), ((1 << 31) - 1, 7, false));
        assert_eq!(parse_coded_number(&[0xFD, 0xBF, 0xBF, 0xBF, 0xBF, 0xBF], 0).unwrap(), ((1 << 31) - 1, 6, true));
        assert_eq!(parse_coded_number(&[0xFF], 0).unwrap_err().code, "coded-number");
        assert_eq!(parse_coded_number(&[0x80], 0).unwrap_err().code, "coded-number");
        assert_eq!(parse_coded_number(&[0xC2, 0x00], 0).unwrap_err().code, "coded-number");
        assert_eq!(parse_coded_number(&[0xC2], 0).unwrap_err().code, "eof");
    }

    // ---- a tiny bit writer to build synthetic frames ----
    struct W {
        bytes: Vec<u8>,
        nbits: usize,
    }
    impl W {
        fn new() -> W {
            W { bytes: Vec::new(), nbits: 0 }
        }
        fn put(&mut self, v: u64, n: u32) {
            for i in (0..n).rev() {
                if self.nbits % 8 == 0 {
                    self.bytes.push(0);
                }
                let bit = ((v >> i) & 1) as u8;
                let l = self.bytes.len() - 1;
                self.bytes[l] |= bit << (7 - self.nbits % 8);
                self.nbits += 1;
            }
        }
        fn puts(&mut self, v: i64, n: u32) {
            self.put((v as u64) & if n == 64 { u64::MAX } else { (1u64 << n) - 1 }, n);
        }
        fn unary(&mut self, q: u64) {
            for _ in 0..q {
                self.put(0, 1);
            }
            self.put(1, 1);
        }
        fn rice(&mut self, v: i64, k: u32) {
            let u = if v >= 0 { (v as u64) << 1 } else { (((-(v + 1)) as u64) << 1) | 1 };
            self.unary(u >> k);
            self.put(u & ((1u64 << k) - 1), k);
        }
        fn align(&mut self, fill: u64) {
            while self.nbits % 8 != 0 {
                self.put(fill, 1);
            }
        }
    }

    /// Header for: fixed blocking, 8-bit block size code (n <= 256), 44.1 kHz, 16 bit, frame number `num` (< 128).
    fn header(n: u32, chan_code: u8, num: u8) -> W {
        let mut w = W::new();
        w.put(0xFFF8, 16);
        w.put(6, 4);
        w.put(9, 4);
        w.put(chan_code as u64, 4);
        w.put(4, 3);
        w.put(0, 1);
        w.put(num as u64, 8);
        w.put((n - 1) as u64, 8);
        let c = crc8(&w.bytes);
        w.put(c as u64, 8);
        w
    }
    fn finish(mut w: W) -> Vec<u8> {
        w.align(0);
        let c = crc16(&w.bytes);
        w.put(c as u64, 16);
        w.bytes
    }
    fn verbatim(w: &mut W, depth: u32, s: &[i64]) {
        w.put(0b0_000001_0, 8);
        for &x in s {
            w.puts(x, depth);
        }
    }

    #[test]
    fn synthetic_stereo_modes() {
        let l = [100i64, -32768, 32767, -5, 7];
        let r = [-3i64, 32767, -32768, 6, 7];
        let side: Vec<i64> = (0..5).map(|i| l[i] - r[i]).collect();
        let mid: Vec<i64> = (0..5).map(|i| (l[i] + r[i]) >> 1).collect();
        for code in [1u8, 8, 9, 10] {
            let mut w = header(5, code, 0);
            match code {
                1 => { verbatim(&mut w, 16, &l); verbatim(&mut w, 16, &r); }
                8 => { verbatim(&mut w, 16, &l); verbatim(&mut w, 17, &side); }
                9 => { verbatim(&mut w, 17, &side); verbatim(&mut w, 16, &r); }
                _ => { verbatim(&mut w, 16, &mid); verbatim(&mut w, 17, &side); }
            }
            let f = finish(w);
            let fr = decode_frame(&f, 0, None).unwrap();
            assert_eq!(fr.samples, vec![l.to_vec(), r.to_vec()], "chan code {}", code);
            assert_eq!(fr.len, f.len());
            assert_eq!(fr.block_size, 5);
            assert_eq!((fr.rate, fr.bps, fr.channels), (44100, 16, 2));
            assert!(fr.padding_zero && fr.coded_number_minimal && !fr.variable);
            let (frames, v) = validate_raw_frames(&f);
            assert_eq!(frames.len(), 1);
            assert!(v.is_empty(), "{:?}", v);
        }
        // left/side whose right channel overflows 16 bits must be rejected
        let mut w = header(1, 8, 0);
        verbatim(&mut w, 16, &[32767]);
        verbatim(&mut w, 17, &[-1]);
        assert_eq!(decode_frame(&finish(w), 0, None).unwrap_err().code, "sample-range");
    }

    #[test]
    fn synthetic_subframes() {
        // constant with 3 wasted bits; fixed order 2 with Rice; LPC order 1 with escape partition
        let mut w = header(16, 2, 0);
        w.put(0b0_000000_1, 8);
        w.unary(2); // 3 wasted bits
        w.puts(-5, 13);
        // fixed order 2, warm-up 10, 12, then residuals 1,-1,0,... (prediction 2a-b)
        w.put(0b0_001010_0, 8);
        w.puts(10, 16);
        w.puts(12, 16);
        w.put(0, 2);
        w.put(1, 4); // partition order 1: 8 + 8 samples, first holds 6
        w.put(2, 4);
        let res_a = [1i64, -1, 0, 3, -4, 2];
        for &x in &res_a { w.rice(x, 2); }
        w.put(0, 4);
        let res_b = [0i64, 0, 1, -1, 0, 0, 2, -2];
        for &x in &res_b { w.rice(x, 0); }
        // LPC order 1, precision 4, shift 2, coef 3: pred = (3*s)>>2 ; escaped residuals 6 bits
        w.put(0b0_100000_0, 8);
        w.puts(-7, 16);
        w.put(3, 4);
        w.puts(2, 5);
        w.puts(3, 4);
        w.put(1, 2);
        w.put(0, 4);
        w.put(31, 5);
        w.put(6, 5);
        let res_c: Vec<i64> = (0..15).map(|i| (i % 5) as i64 - 31 + i as i64).collect();
        for &x in &res_c { w.puts(x, 6); }
        let bits_before_pad = w.nbits;
        let f = finish(w);
        let fr = decode_frame(&f, 0, None).unwrap();
        assert_eq!(fr.samples[0], vec![-40i64; 16]);
        assert_eq!(fr.subframes[0].wasted, 3);
        let mut exp = vec![10i64, 12];
        for (i, &r) in res_a.iter().chain(res_b.iter()).enumerate() {
            let p = 2 * exp[i + 1] - exp[i];
            exp.push(p + r);
        }
        assert_eq!(fr.samples[1], exp);
        assert_eq!(fr.subframes[1].kind, SubKind::Fixed(2));
        assert_eq!(fr.subframes[1].partitions, vec![
            PartitionInfo { escaped: false, param: 2, count: 6 },
            PartitionInfo { escaped: false, param: 0, count: 8 }]);
        let mut exp = vec![-7i64];
        for (i, &r) in res_c.iter().enumerate() {
            exp.push(((3 * exp[i]) >> 2) + r);
        }
        assert_eq!(fr.samples[2], exp);
        assert_eq!(fr.subframes[2].kind, SubKind::Lpc(1));
        assert_eq!((fr.subframes[2].precision, fr.subframes[2].shift, fr.subframes[2].coefs.clone()), (4, 2, vec![3]));
        assert_eq!(fr.subframes[2].method, Some(1));
        assert_eq!(fr.subframes[2].partitions, vec![PartitionInfo { escaped: true, param: 6, count: 15 }]);
        let total_bits: usize = fr.subframes.iter().map(|s| s.bit_len).sum();
        assert_eq!(total_bits + fr.header_len * 8, bits_before_pad);
    }

    #[test]
    fn synthetic_rejects() {
        let reject_code = |f: Vec<u8>| decode_frame(&f, 0, None).unwrap_err().code;
        // residual == -2^31 via Rice k=30
        let mut w = header(16, 0, 0);
        w.put(0b0_001000_0, 8);
        w.put(1, 2);
        w.put(0, 4);
        w.put(30, 5);
        w.unary(3);
        w.put((1 << 30) - 1, 30); // u = 2^32 - 1 -> v = -2^31
        assert_eq!(reject_code(finish(w)), "residual-min");
        // subframe pad bit
        let mut w = header(1, 0, 0);
        w.put(0b1_000000_0, 8);
        w.puts(0, 16);
        assert_eq!(reject_code(finish(w)), "subframe-pad");
        // reserved type
        let mut w = header(1, 0, 0);
        w.put(0b0_000010_0, 8);
        w.puts(0, 16);
        assert_eq!(reject_code(finish(w)), "subframe-type");
        // wasted >= bps
        let mut w = header(1, 0, 0);
        w.put(0b0_000000_1, 8);
        w.unary(15);
        assert_eq!(reject_code(finish(w)), "wasted>=bps");
        // order > block
        let mut w = header(2, 0, 0);
        w.put(0b0_001011_0, 8);
        assert_eq!(reject_code(finish(w)), "order>block");
        // reserved method / bad partition order
        let mut w = header(3, 0, 0);
        w.put(0b0_001000_0, 8);
        w.put(2, 2);
        assert_eq!(reject_code(finish(w)), "method");
        let mut w = header(3, 0, 0);
        w.put(0b0_001000_0, 8);
        w.put(0, 2);
        w.put(1, 4);
        assert_eq!(reject_code(finish(w)), "partition-order");
        // precision 1111, negative shift
        let mut w = header(4, 0, 0);
        w.put(0b0_100000_0, 8);
        w.puts(0, 16);
        w.put(15, 4);
        assert_eq!(reject_code(finish(w)), "precision-15");
        let mut w = header(4, 0, 0);
        w.put(0b0_100000_0, 8);
        w.puts(0, 16);
        w.put(3, 4);
        w.puts(-1, 5);
        assert_eq!(reject_code(finish(w)), "neg-shift");
        // predicted sample out of range: fixed order 1, warm-up 32767, residual +1
        let mut w = header(2, 0, 0);
        w.put(0b0_001001_0, 8);
        w.puts(32767, 16);
        w.put(0, 2);
        w.put(0, 4);
        w.put(1, 4);
        w.rice(1, 1);
        assert_eq!(reject_code(finish(w)), "sample-range");
        // crc16 / crc8 / reserved bits
        let mut w = header(1, 0, 0);
        verbatim(&mut w, 16, &[1]);
        let good = finish(w);
        assert!(decode_frame(&good, 0, None).is_ok());
        let mut bad = good.clone();
        *bad.last_mut().unwrap() ^= 1;
        assert_eq!(reject_code(bad), "crc16");
        let mut bad = good.clone();
        bad[5] ^= 1;
        assert_eq!(reject_code(bad), "crc8");
        let mut bad = good.clone();
        bad[3] |= 1;
        assert_eq!(reject_code(bad), "reserved-bit");
        let mut bad = good.clone();
        bad[2] = 0x09;
        assert_eq!(reject_code(bad), "bs-code-0");
        let mut bad = good.clone();
        bad[2] = 0x6F;
        assert_eq!(reject_code(bad), "rate-code-15");
        let mut bad = good.clone();
        bad[3] = 0xB8;
        assert_eq!(reject_code(bad), "chan-code");
        let mut bad = good.clone();
        bad[3] = 0x06;
        assert_eq!(reject_code(bad), "bps-code-3");
        let mut bad = good.clone();
        bad[2] = 0x60;
        assert_eq!(reject_code(bad.clone()), "crc8");
        bad[6] = crc8(&bad[..6]);
        assert_eq!(reject_code(bad), "rate-from-streaminfo");
        let mut bad = good.clone();
        bad[3] = 0x00;
        bad[6] = crc8(&bad[..6]);
        assert_eq!(reject_code(bad), "bps-from-streaminfo");
        let mut bad = good.clone();
        bad[1] = 0xFA;
        assert_eq!(reject_code(bad), "bad-sync");
        assert_eq!(reject_code(good[..good.len() - 1].to_vec()), "eof");
        // zero-length first partition and nonzero padding: decodable, flagged by validation
        let mut w = header(2, 0, 0);
        w.put(0b0_001010_0, 8);
        w.puts(1, 16);
        w.puts(2, 16);
        w.put(0, 2);
        w.put(0, 4);
        w.put(0, 4);
        w.put(1, 1);
        w.align(1);
        let c = crc16(&w.bytes);
        w.put(c as u64, 16);
        let fr = decode_frame(&w.bytes, 0, None).unwrap();
        assert!(!fr.padding_zero);
        let (_, v) = validate_raw_frames(&w.bytes);
        assert!(v.iter().any(|s| s.contains("zero-first-partition")), "{:?}", v);
        assert!(v.iter().any(|s| s.contains("padding-nonzero")), "{:?}", v);
        // frame numbering in raw sequences
        let mk = |num: u8| {
            let mut w = header(16, 0, num);
            verbatim(&mut w, 16, &[0; 16]);
            finish(w)
        };
        let mut seq = mk(0);
        seq.extend(mk(1));
        seq.extend(mk(3));
        let (frames, v) = validate_raw_frames(&seq);
        assert_eq!(frames.len(), 3);
        assert_eq!(frames[2].first_sample, 32);
        assert_eq!(v, vec!["frame 2: frame-number 3 != 2".to_string()]);
    }

    /// Wrap raw frames into a file with a STREAMINFO (16 bit, 44.1 kHz).
    fn wrap(frames: &[u8], channels: u8, min_b: u16, max_b: u16, total: u64, md5sum: [u8; 16]) -> Vec<u8> {
        let mut w = W::new();
        w.put(u32::from_be_bytes(*b"fLaC") as u64, 32);
        w.put(0x80, 8);
        w.put(34, 24);
        w.put(min_b as u64, 16);
        w.put(max_b as u64, 16);
        w.put(0, 24);
        w.put(0, 24);
        w.put(44100, 20);
        w.put(channels as u64 - 1, 3);
        w.put(15, 5);
        w.put(total, 36);
        let mut out = w.bytes;
        out.extend_from_slice(&md5sum);
        out.extend_from_slice(frames);
        out
    }

    #[test]
    fn synthetic_stream_rules() {
        let mk = |num: u8, n: u32| {
            let mut w = header(n, 0, num);
            verbatim(&mut w, 16, &vec![num as i64; n as usize]);
            finish(w)
        };
        let mut fr = mk(0, 16);
        fr.extend(mk(1, 16));
        fr.extend(mk(2, 5));
        let pcm: Vec<i32> = [vec![0; 16], vec![1; 16], vec![2; 5]].concat();
        let good = wrap(&fr, 1, 16, 16, 37, pcm_md5(&pcm, 16));
        let st = decode(&good).unwrap();
        assert_eq!(st.pcm, pcm);
        assert_eq!(st.frames.iter().map(|f| f.first_sample).collect::<Vec<_>>(), vec![0, 16, 32]);
        assert_eq!(st.end_offset, good.len());
        let (s, v) = validate(&good);
        assert!(s.is_some());
        assert_eq!(v, vec!["streaminfo: frame-size-unknown".to_string()]);
        // unknown total: decode to end of input
        let st = decode(&wrap(&fr, 1, 16, 16, 0, [0; 16])).unwrap();
        assert_eq!(st.pcm, pcm);
        // trailing bytes after a known total are fine for decode(), flagged by validate()
        let mut t = good.clone();
        t.extend_from_slice(b"TAG");
        assert_eq!(decode(&t).unwrap().end_offset, good.len());
        assert!(validate(&t).1.iter().any(|s| s.starts_with("trailing-bytes")));
        // total too small / too large
        assert_eq!(decode(&wrap(&fr, 1, 16, 16, 36, [0; 16])).unwrap_err().code, "too-many-samples");
        let e = decode(&wrap(&fr, 1, 16, 16, 38, [0; 16])).unwrap_err();
        assert_eq!((e.code, e.frame), ("short-nonfinal-block", Some(2))); // the 5-sample frame is not the last
        let e = decode(&wrap(&fr[..2 * mk(0, 16).len()], 1, 16, 16, 40, [0; 16])).unwrap_err();
        assert_eq!((e.code, e.frame), ("eof", Some(2)));
        // decode_partial keeps the verified frames
        let (p, r) = decode_partial(&wrap(&fr[..fr.len() - 1], 1, 16, 16, 37, [0; 16]));
        assert_eq!((p.frames.len(), p.pcm.len(), r.unwrap().code), (2, 32, "eof"));
        // short non-final block (known and unknown total)
        let mut bad = mk(0, 5);
        bad.extend(mk(1, 16));
        assert_eq!(decode(&wrap(&bad, 1, 16, 16, 21, [0; 16])).unwrap_err().code, "short-nonfinal-block");
        assert_eq!(decode(&wrap(&bad, 1, 16, 16, 0, [0; 16])).unwrap_err().code, "short-nonfinal-block");
        // STREAMINFO mismatches
        assert_eq!(decode(&wrap(&fr, 2, 16, 16, 37, [0; 16])).unwrap_err().code, "info-mismatch-channels");
        assert_eq!(decode(&wrap(&fr, 1, 8, 8, 37, [0; 16])).unwrap_err().code, "block>max");
        // md5 mismatch is a violation, not a reject
        let (s, v) = validate(&wrap(&fr, 1, 16, 16, 37, [1; 16]));
        assert!(s.is_some() && v.iter().any(|s| s.contains("md5-mismatch")));
        // metadata errors
        assert_eq!(decode(b"fLaX").unwrap_err().code, "no-flac-tag");
        assert_eq!(decode(b"fLaC").unwrap_err().code, "eof");
        let mut m = good.clone();
        m[4] = 0x81;
        assert_eq!(decode(&m).unwrap_err().code, "no-streaminfo");
        m[4] = 0xFF;
        assert_eq!(decode(&m).unwrap_err().code, "meta-type-127");
        let mut m = good.clone();
        m[4] = 0x00; // STREAMINFO no longer last: next "block" is the frame data
        assert!(decode(&m).is_err());
    }

    fn fixtures() -> Vec<(String, Vec<u8>)> {
        let mut out = Vec::new();
        let mut names: Vec<_> = std::fs::read_dir("/repo/tests/data").unwrap()
            .map(|e| e.unwrap().path()).filter(|p| p.extension().map_or(false, |e| e == "flac")).collect();
        names.sort();
        for p in names {
            out.push((p.file_name().unwrap().to_string_lossy().to_string(), std::fs::read(&p).unwrap()));
        }
        assert!(!out.is_empty());
        out
    }

    #[test]
    fn fixtures_decode_and_md5() {
        for (name, data) in fixtures() {
            let st = decode(&data).unwrap_or_else(|r| panic!("{}: {:?}", name, r));
            let sum: u64 = st.frames.iter().map(|f| f.block_size as u64).sum();
            println!("{}: {:?} blocks={:?} frames={} samples={} end={}/{}", name, st.info,
                st.blocks.iter().map(|b| (b.btype, b.len)).collect::<Vec<_>>(), st.frames.len(), sum, st.end_offset, data.len());
            let mut kinds = std::collections::BTreeSet::new();
            for f in &st.frames {
                for s in &f.subframes {
                    kinds.insert(format!("{:?}/w{}/m{:?}/c{}", s.kind, s.wasted, s.method, f.chan_code));
                }
            }
            println!("  kinds: {:?}", kinds);
            assert_eq!(st.pcm.len() as u64, sum * st.info.channels as u64);
            if st.info.md5 != [0u8; 16] {
                assert_eq!(pcm_md5(&st.pcm, st.info.bps), st.info.md5, "{}: md5", name);
            } else {
                println!("  (md5 not set)");
            }
            let (s, v) = validate(&data);
            assert!(s.is_some());
            println!("  validate: {:?}", v);
            // the frames alone, as a raw frame sequence (only works when no header field defers to STREAMINFO)
            let (rf, rv) = validate_raw_frames(&data[st.first_frame_offset..st.end_offset]);
            println!("  raw frames: {} violations {:?}", rf.len(), rv);
        }
    }

    #[test]
    fn robustness_no_panic() {
        // NOTE: cuesheet.flac declares 48.7M stereo samples in 744 constant frames of 65535 samples, so a
        // full decode costs seconds and ~2 GB; it only takes part in the (cheap) truncation sweep.
        let fx = fixtures();
        for (name, data) in &fx {
            let limit = if name == "cuesheet.flac" { 1000 } else { 3000 };
            for n in 0..=data.len().min(limit) {
                let t = &data[..n];
                let a = decode(t);
                let (st, r) = decode_partial(t);
                assert_eq!(a.is_ok(), r.is_none());
                if n < data.len() {
                    assert!(r.is_some(), "{} truncated to {} must not decode", name, n);
                }
                assert!(st.end_offset <= n);
                let _ = validate(t);
            }
        }
        for (name, data) in fx.iter().filter(|(n, _)| n != "cuesheet.flac") {
            let small = data.len() < 1000;
            let mut m = data.clone();
            for bit in 0..data.len().min(600) * 8 {
                m[bit / 8] ^= 0x80 >> (bit % 8);
                let (st, r) = decode_partial(&m);
                if small {
                    assert_eq!(decode(&m).is_ok(), r.is_none(), "{} bit {}", name, bit);
                    let _ = validate(&m);
                    let _ = validate_raw_frames(&m[st.first_frame_offset.min(m.len())..]);
                }
                // a flipped bit inside a frame must be caught by that frame's CRCs (or earlier)
                if bit / 8 >= st.first_frame_offset && st.first_frame_offset != 0 {
                    assert!(r.is_some(), "{} bit {} flipped in frame data but stream accepted", name, bit);
                }
                m[bit / 8] ^= 0x80 >> (bit % 8);
            }
        }
        // pure noise (xorshift), with and without a plausible prefix
        let mut x = 0x9E3779B97F4A7C15u64;
        let mut next = || { x ^= x << 13; x ^= x >> 7; x ^= x << 17; x };
        for round in 0..2000 {
            let len = (next() % 200) as usize;
            let mut d: Vec<u8> = (0..len).map(|_| next() as u8).collect();
            if round % 2 == 0 && len >= 2 { d[0] = 0xFF; d[1] = 0xF8 | (d[1] & 1); }
            let _ = decode_frame(&d, 0, None);
            let _ = decode_frame(&d, len / 2, None);
            let _ = decode_frame(&d, len + 5, None);
            let _ = validate_raw_frames(&d);
            let mut f = b"fLaC".to_vec();
            f.extend_from_slice(&d);
            let _ = validate(&f);
        }
    }
}
