//! Small-file corpora shared by the history / damage / crash checks.
use crate::codec::{encode, Opt, Pad, Seek, Sig, WriterKind};
use flac_codec::metadata::{write_blocks, BlockList, SeekPoint, SeekTable};
use vph::refdec;

#[derive(Clone)]
pub struct TestFile {
    pub desc: String,
    pub bytes: Vec<u8>,
    pub pcm: Vec<i32>,
    pub sig: Sig,
    pub total_known: bool,
    pub frames: Vec<(usize, usize, u64, u32)>, // (offset, len, first sample, block size) from refdec
    pub first_frame: usize,
}

/// Position-identifying, non-periodic PCM.
pub fn ident_pcm(ch: u8, bps: u32, frames: usize) -> Vec<i32> {
    let m: i64 = 1i64 << bps;
    (0..frames * ch as usize).map(|k| (((k as i64 * 37 + 11) % m) - m / 2) as i32).collect()
}

pub const SEEK_VARIANTS: &[&str] = &["none", "every-frame", "every-2nd", "every-3rd+placeholders", "placeholders-only", "last-frame-only"];

/// Build a file of `nfull` full 16-sample frames + a short final frame of `tail` samples with a hand-made seek table.
pub fn seek_file(ch: u8, bps: u32, variant: &str, declared: bool, nfull: usize, tail: usize) -> TestFile {
    let sig = Sig { rate: 44100, bps, ch };
    let pcm = ident_pcm(ch, bps, nfull * 16 + tail);
    let opt = Opt { seek: Seek::Off, pad: Pad::None, ..Opt::base16() };
    let base = encode(WriterKind::Sample, &opt, &sig, &pcm).expect("corpus encode");
    let st = refdec::decode(&base).expect("refdec on corpus file");
    assert_eq!(st.pcm, pcm, "refdec disagrees on corpus PCM");
    let fstart = st.first_frame_offset;
    let pts: Vec<SeekPoint> = st.frames.iter().map(|f| SeekPoint::Defined { sample_offset: f.first_sample, byte_offset: (f.offset - fstart) as u64, frame_samples: f.block_size as u16 }).collect();
    let points: Option<Vec<SeekPoint>> = match variant {
        "none" => None,
        "every-frame" => Some(pts.clone()),
        "every-2nd" => Some(pts.iter().step_by(2).cloned().collect()),
        "every-3rd+placeholders" => Some(pts.iter().step_by(3).cloned().chain([SeekPoint::Placeholder, SeekPoint::Placeholder]).collect()),
        "placeholders-only" => Some(vec![SeekPoint::Placeholder; 3]),
        "last-frame-only" => Some(vec![pts.last().unwrap().clone()]),
        _ => panic!("variant"),
    };
    let mut blocks = BlockList::read(&base[..]).expect("blocklist");
    if let Some(p) = points {
        blocks.insert(SeekTable { points: p.try_into().expect("contiguous points") });
    }
    if !declared {
        blocks.streaminfo_mut().total_samples = None;
    }
    let mut bytes = Vec::new();
    write_blocks(&mut bytes, blocks.blocks()).expect("write_blocks");
    let first_frame = bytes.len();
    bytes.extend_from_slice(&base[fstart..]);
    let frames = st.frames.iter().map(|f| (f.offset - fstart + first_frame, f.len, f.first_sample, f.block_size)).collect();
    TestFile { desc: format!("ch{ch}-bps{bps}-{variant}-{}-{}x16+{}", if declared { "declared" } else { "unknown" }, nfull, tail), bytes, pcm, sig, total_known: declared, frames, first_frame }
}
