//! Small-file corpora shared by the history / damage / crash checks.
use crate::codec::{encode, Opt, Pad, Seek, Sig, WriterKind};
use flac_codec::metadata::{write_blocks, BlockList, SeekPoint, SeekTable};
use vph::refdec;

#[derive(Clone)]
pub struct TestFile {
    pub desc: String,
    pub bytes: Vec<u8>,
    pub pcm: Vec<i32>,
    pub sig: Sig,
    pub total_known: bool,
    pub frames: Vec<(usize, usize, u64, u32)>, // (offset, len, first sample, block size) from refdec
    pub first_frame: usize,
}

/// Position-identifying, non-periodic PCM.
pub fn ident_pcm(ch: u8, bps: u32, frames: usize) -> Vec<i32> {
    let m: i64 = 1i64 << bps;
    (0..frames * ch as usize).map(|k| (((k as i64 * 37 + 11) % m) - m / 2) as i32).collect()
}

pub const SEEK_VARIANTS: &[&str] = &["none", "every-frame", "every-2nd", "every-3rd+placeholders", "placeholders-only", "last-frame-only"];

/// Build a file of `nfull` full 16-sample frames + a short final frame of `tail` samples with a hand-made seek table.
pub fn seek_file(ch: u8, bps: u32, variant: &str, declared: bool, nfull: usize, tail: usize) -> TestFile {
    if let Some(shape) = variant.strip_prefix("fgen-variable-") {
        // a variable-blocksize stream from the grammar builder (the crate's own encoder only writes fixed-blocksize ones):
        // block lengths 16, 24, 16, 40, tail; frames carry SAMPLE numbers; fixed-predictor subframes
        let lens = [16usize, 24, 16, 40, tail.max(1)];
        let total: usize = lens.iter().sum();
        let pcm = ident_pcm(ch, bps, total);
        let chans = crate::codec::deinterleave(&pcm, ch as usize);
        let mut frames = Vec::new();
        let mut at = 0;
        for l in lens {
            let mut f = vph::fgen::plain_frame(chans.iter().map(|c| c[at..at + l].to_vec()).collect());
            for sf in f.subframes.iter_mut() {
                sf.kind = vph::fgen::SubKind::Fixed(1);
                sf.res.method = (bps > 16) as u8;
            }
            frames.push(f);
            at += l;
        }
        let mut st = vph::fgen::plain_stream(ch, bps as u8, 44100, frames);
        st.variable = true;
        st.total = if declared { vph::fgen::TotalSpec::Exact } else { vph::fgen::TotalSpec::Unknown };
        st.seek = match shape {
            "every-frame" => vph::fgen::SeekSpec::EveryFrame,
            "every-frame+placeholders" => vph::fgen::SeekSpec::EveryFramePlusPlaceholders(2),
            _ => vph::fgen::SeekSpec::None,
        };
        let b = vph::fgen::build(&st).expect("fgen seek corpus file");
        let mut f = from_bytes(format!("ch{ch}-bps{bps}-{variant}-{}-16+24+16+40+{}", if declared { "declared" } else { "unknown" }, tail.max(1)), b.bytes, declared);
        assert_eq!(f.pcm, pcm, "fgen seek corpus PCM");
        f.pcm = pcm;
        return f;
    }
    let sig = Sig { rate: 44100, bps, ch };
    let pcm = ident_pcm(ch, bps, nfull * 16 + tail);
    let opt = Opt { seek: Seek::Off, pad: Pad::None, ..Opt::base16() };
    let base = encode(WriterKind::Sample, &opt, &sig, &pcm).expect("corpus encode");
    let st = refdec::decode(&base).expect("refdec on corpus file");
    assert_eq!(st.pcm, pcm, "refdec disagrees on corpus PCM");
    let fstart = st.first_frame_offset;
    let pts: Vec<SeekPoint> = st.frames.iter().map(|f| SeekPoint::Defined { sample_offset: f.first_sample, byte_offset: (f.offset - fstart) as u64, frame_samples: f.block_size as u16 }).collect();
    let points: Option<Vec<SeekPoint>> = match variant {
        "none" => None,
        "every-frame" => Some(pts.clone()),
        "every-2nd" => Some(pts.iter().step_by(2).cloned().collect()),
        "every-3rd+placeholders" => Some(pts.iter().step_by(3).cloned().chain([SeekPoint::Placeholder, SeekPoint::Placeholder]).collect()),
        "placeholders-only" => Some(vec![SeekPoint::Placeholder; 3]),
        "last-frame-only" => Some(vec![pts.last().unwrap().clone()]),
        _ => panic!("variant"),
    };
    let mut blocks = BlockList::read(&base[..]).expect("blocklist");
    if let Some(p) = points {
        blocks.insert(SeekTable { points: p.try_into().expect("contiguous points") });
    }
    if !declared {
        blocks.streaminfo_mut().total_samples = None;
    }
    let mut bytes = Vec::new();
    write_blocks(&mut bytes, blocks.blocks()).expect("write_blocks");
    let first_frame = bytes.len();
    bytes.extend_from_slice(&base[fstart..]);
    let frames = st.frames.iter().map(|f| (f.offset - fstart + first_frame, f.len, f.first_sample, f.block_size)).collect();
    TestFile { desc: format!("ch{ch}-bps{bps}-{variant}-{}-{}x16+{}", if declared { "declared" } else { "unknown" }, nfull, tail), bytes, pcm, sig, total_known: declared, frames, first_frame }
}

// ---------------------------------------------------------------------------------------------
// Damage corpus (C04/C05): small files from the crate's encoder and from the grammar builder

use vph::fgen::{self, Assign, PartParam, SubKind};

pub fn from_bytes(desc: String, bytes: Vec<u8>, total_known: bool) -> TestFile {
    let st = refdec::decode(&bytes).unwrap_or_else(|r| panic!("corpus file {desc} rejected by refdec: {} {}", r.code, r.msg));
    let (_, viol) = refdec::validate(&bytes);
    if let Some(v) = viol.iter().find(|v| v.contains("zero-first-partition") || v.contains("reject:")) {
        panic!("corpus file {desc} is not a valid stream: {v}");
    }
    TestFile {
        desc,
        pcm: st.pcm.clone(),
        sig: Sig { rate: st.info.rate, bps: st.info.bps as u32, ch: st.info.channels },
        total_known,
        frames: st.frames.iter().map(|f| (f.offset, f.len, f.first_sample, f.block_size)).collect(),
        first_frame: st.first_frame_offset,
        bytes,
    }
}

/// strip the declared total from a finished file (same size, audio untouched)
pub fn unknown_total(bytes: &[u8]) -> Vec<u8> {
    let mut blocks = BlockList::read(bytes).expect("blocklist");
    let mut old = Vec::new();
    write_blocks(&mut old, blocks.blocks()).unwrap();
    blocks.streaminfo_mut().total_samples = None;
    let mut out = Vec::new();
    write_blocks(&mut out, blocks.blocks()).unwrap();
    out.extend_from_slice(&bytes[old.len()..]);
    out
}

/// insert optional metadata blocks in front of the audio of a finished file
pub fn rich_metadata(bytes: &[u8], all: bool) -> Vec<u8> {
    use flac_codec::metadata::{Application, Cuesheet, Picture, PictureType, VorbisComment};
    let mut blocks = BlockList::read(bytes).expect("blocklist");
    let mut old = Vec::new();
    write_blocks(&mut old, blocks.blocks()).unwrap();
    let mut vc = VorbisComment::default();
    vc.fields.push("TITLE=t".into());
    vc.fields.push("WAVEFORMATEXTENSIBLE_CHANNEL_MASK=0x3".into());
    blocks.insert(vc);
    if all {
        blocks.insert(Application { id: 0x61707031, data: vec![9; 5] });
        blocks.insert(Picture { picture_type: PictureType::FrontCover, media_type: "image/png".into(), description: "d".into(), width: 1, height: 1, color_depth: 24, colors_used: None, data: vec![0x89, b'P', b'N', b'G'] });
        let cue = "CATALOG 1234567890123\nFILE \"a.wav\" WAVE\n  TRACK 01 AUDIO\n    ISRC ABCDE1234567\n    INDEX 01 00:00:00\n";
        blocks.insert(Cuesheet::parse(176400, cue).expect("corpus cue sheet"));
    }
    let mut out = Vec::new();
    write_blocks(&mut out, blocks.blocks()).unwrap();
    out.extend_from_slice(&bytes[old.len()..]);
    out
}

pub fn damage_corpus(quick: bool) -> Vec<TestFile> {
    let _ = quick; // both tiers use the full corpus now
    let quick = false;
    let mut v = Vec::new();
    // crate-encoded
    let enc: &[(u8, u32)] = if quick { &[(1, 16), (2, 16), (2, 24)] } else { &[(1, 16), (2, 16), (1, 8), (2, 24), (3, 16), (1, 32), (8, 8)] };
    for &(ch, bps) in enc {
        for (si, seek) in [Seek::Off, Seek::Frames(1)].into_iter().enumerate() {
            let sig = Sig { rate: 44100, bps, ch };
            let frames = 16 * 2 + 5;
            // smooth + noisy halves so that several subframe types appear
            let pcm: Vec<i32> = (0..frames * ch as usize).map(|k| { let (i, c) = (k / ch as usize, k % ch as usize); let mx = ((1i64 << (bps - 1)) - 1) as f64; (((i as f64 * 0.4 + c as f64).sin() * mx * 0.5) as i64 + if i >= 16 { ((k as i64 * 7919) % 31) - 15 } else { 0 }) as i32 }).collect();
            let opt = Opt { seek, pad: Pad::Size(6), ..Opt::base16() };
            let bytes = encode(WriterKind::Sample, &opt, &sig, &pcm).expect("corpus encode");
            if si == 0 {
                v.push(from_bytes(format!("enc-ch{ch}-bps{bps}-unknown-total"), unknown_total(&bytes), false));
            }
            v.push(from_bytes(format!("enc-ch{ch}-bps{bps}-seek{si}"), bytes, true));
        }
    }
    // metadata-rich: the same audio behind VORBIS_COMMENT (vendor + 2 fields, one of them a channel mask), APPLICATION,
    // PICTURE and CUESHEET blocks, so that every byte of every variable-length metadata field (entry counts, string
    // lengths, picture dimensions, track/index counts) is a substitution site
    {
        let sig = Sig { rate: 44100, bps: 16, ch: 2 };
        let pcm = ident_pcm(2, 16, 16 + 5);
        let bytes = encode(WriterKind::Sample, &Opt { seek: Seek::Frames(1), pad: Pad::Size(6), ..Opt::base16() }, &sig, &pcm).expect("corpus encode");
        v.push(from_bytes("enc-ch2-bps16-rich-metadata".into(), rich_metadata(&bytes, true), true));
        v.push(from_bytes("enc-ch2-bps16-comment-only".into(), rich_metadata(&bytes, false), true));
    }
    // files without a stored digest (what other encoders / streaming encoders write): verify has nothing to compare
    {
        let sig = Sig { rate: 44100, bps: 16, ch: 2 };
        let pcm = ident_pcm(2, 16, 16 * 2 + 5);
        let bytes = encode(WriterKind::Sample, &Opt { seek: Seek::Off, pad: Pad::Size(6), ..Opt::base16() }, &sig, &pcm).expect("corpus encode");
        let strip = |b: &[u8], known: bool| -> Vec<u8> {
            let mut blocks = BlockList::read(b).expect("blocklist");
            let mut old = Vec::new();
            write_blocks(&mut old, blocks.blocks()).unwrap();
            blocks.streaminfo_mut().md5 = None;
            if !known {
                blocks.streaminfo_mut().total_samples = None;
            }
            let mut out = Vec::new();
            write_blocks(&mut out, blocks.blocks()).unwrap();
            out.extend_from_slice(&b[old.len()..]);
            out
        };
        v.push(from_bytes("enc-ch2-bps16-no-md5".into(), strip(&bytes, true), true));
        v.push(from_bytes("enc-ch2-bps16-no-md5-unknown-total".into(), strip(&bytes, false), false));
    }
    // grammar-built: every subframe kind, stereo mode, residual coding
    let mut push = |desc: String, spec: fgen::StreamSpec| {
        let known = spec.total == fgen::TotalSpec::Exact;
        let b = fgen::build(&spec).unwrap_or_else(|e| panic!("corpus spec {desc}: {e}"));
        v.push(from_bytes(desc, b.bytes, known));
    };
    let kinds: Vec<(&str, SubKind)> = vec![("verbatim", SubKind::Verbatim), ("fixed0", SubKind::Fixed(0)), ("fixed2", SubKind::Fixed(2)), ("fixed4", SubKind::Fixed(4)), ("lpc2", crate::gspace::kind_of(8)), ("lpc8", crate::gspace::kind_of(9))];
    for (name, kind) in kinds.iter().take(if quick { 3 } else { 6 }) {
        let mk = |base: usize, n: usize| {
            let mut f = fgen::plain_frame(vec![crate::gspace::target(0, 16, 0, n, base, 0)]);
            f.subframes[0].kind = kind.clone();
            f.subframes[0].res.order = if n >= 16 && !matches!(kind, SubKind::Lpc { order: 8.., .. }) { 1 } else { 0 };
            f
        };
        push(format!("gen-mono16-{name}"), fgen::plain_stream(1, 16, 44100, vec![mk(0, 16), mk(16, 16), mk(32, 10)]));
    }
    {
        let mut f = fgen::plain_frame(vec![vec![1234; 16]]);
        f.subframes[0].kind = SubKind::Constant;
        let mut g = fgen::plain_frame(vec![crate::gspace::target(0, 16, 0, 16, 16, 2)]);
        g.subframes[0].wasted = 2;
        g.subframes[0].kind = SubKind::Fixed(1);
        g.subframes[0].res.method = 1;
        g.subframes[0].res.params = vec![PartParam::Escape(None)];
        let mut st = fgen::plain_stream(1, 16, 44100, vec![f, g]);
        st.variable = true;
        push("gen-mono16-constant+wasted-escape-variable".into(), st);
    }
    for (name, a) in [("leftside", Assign::LeftSide), ("sideright", Assign::SideRight), ("midside", Assign::MidSide)].into_iter().take(if quick { 1 } else { 3 }) {
        let mk = |base: usize, n: usize| {
            let mut f = fgen::plain_frame((0..2).map(|c| crate::gspace::target(0, 24, c, n, base, 0)).collect());
            f.assign = a.clone();
            for s in f.subframes.iter_mut() {
                s.kind = SubKind::Fixed(1);
            }
            f
        };
        let mut st = fgen::plain_stream(2, 24, 96000, vec![mk(0, 16), mk(16, 9)]);
        st.total = fgen::TotalSpec::Unknown;
        push(format!("gen-stereo24-{name}-unknown-total"), st);
    }
    v
}
