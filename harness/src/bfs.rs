//! Explicit-state breadth-first exploration of operation histories on a *live, cloneable* system.
//! States are de-duplicated by an exact key (no abstraction): equal keys ⇒ equal futures by determinism.

use std::collections::HashMap;

pub trait Sys: Clone {
    /// exact fingerprint of (implementation state, reference-model state)
    fn key(&self) -> Vec<i64>;
    /// operations enabled in this state (names are replayable)
    fn ops(&self) -> Vec<String>;
    /// apply one op to implementation and reference model; Ok(outcome label) or Err((clause, detail))
    fn step(&mut self, op: &str) -> Result<String, (String, String)>;
}

pub struct BfsStats {
    pub states: u64,
    pub transitions: u64,
    pub capped: bool,
    pub max_depth: u32,
}

/// Explore to a fixpoint (or `cap` states). `on_step(outcome)` sees every transition label;
/// `on_violation(history, clause, detail)` is called for every violating transition (the successor is not explored).
pub fn explore<S: Sys>(init: S, cap: usize, mut on_step: impl FnMut(&str, &str), mut on_violation: impl FnMut(Vec<String>, String, String)) -> BfsStats {
    let mut seen: HashMap<Vec<i64>, u32> = HashMap::new();
    let mut nodes: Vec<(u32, String, u32)> = Vec::new(); // parent, op, depth
    let mut frontier: std::collections::VecDeque<(u32, S)> = Default::default();
    seen.insert(init.key(), 0);
    nodes.push((u32::MAX, String::new(), 0));
    frontier.push_back((0, init));
    let mut st = BfsStats { states: 1, transitions: 0, capped: false, max_depth: 0 };
    let history = |nodes: &Vec<(u32, String, u32)>, mut i: u32, last: &str| {
        let mut h = vec![last.to_string()];
        while nodes[i as usize].0 != u32::MAX {
            h.push(nodes[i as usize].1.clone());
            i = nodes[i as usize].0;
        }
        h.reverse();
        h
    };
    while let Some((idx, s)) = frontier.pop_front() {
        let depth = nodes[idx as usize].2;
        for op in s.ops() {
            let mut n = s.clone();
            st.transitions += 1;
            match crate::core::guarded(|| n.step(&op)) {
                Ok(Ok(label)) => {
                    on_step(&op, &label);
                    let k = n.key();
                    if !seen.contains_key(&k) {
                        if seen.len() >= cap {
                            st.capped = true;
                            continue;
                        }
                        let ni = nodes.len() as u32;
                        seen.insert(k, ni);
                        nodes.push((idx, op.clone(), depth + 1));
                        st.max_depth = st.max_depth.max(depth + 1);
                        st.states += 1;
                        frontier.push_back((ni, n));
                    }
                }
                Ok(Err((clause, detail))) => on_violation(history(&nodes, idx, &op), clause, detail),
                Err(p) => on_violation(history(&nodes, idx, &op), format!("panic@{}", crate::core::panic_loc(&p)), format!("panic: {p}")),
            }
        }
    }
    st
}

/// Replay a recorded history from `init`; returns the first violation, if any, and the labels seen.
pub fn replay<S: Sys>(mut s: S, ops: &[String]) -> (Option<(String, String)>, Vec<String>) {
    let mut labels = Vec::new();
    for op in ops {
        match crate::core::guarded(|| s.step(op)) {
            Ok(Ok(l)) => labels.push(format!("{op} -> {l}")),
            Ok(Err((c, d))) => {
                labels.push(format!("{op} -> VIOLATION {c}: {d}"));
                return (Some((c, d)), labels);
            }
            Err(p) => {
                labels.push(format!("{op} -> PANIC {p}"));
                return (Some((format!("panic@{}", crate::core::panic_loc(&p)), p)), labels);
            }
        }
    }
    (None, labels)
}
