//! The frame-grammar choice space over `fgen` (DESIGN §3.2): a stream is a vector of menu indices
//! (entry 0 = the plainest production); `for_each_deviation` enumerates every vector with ≤ d non-default
//! entries. Valid menus are used by C03/C17, the malformed knobs by C04/C05/C17.

use vph::fgen::*;

pub const NAMES: &[&str] = &["ch", "bps", "rate", "rate_coding", "bps_coding", "total", "md5", "variable", "seek", "nframes", "block", "bs_coding", "last", "number_len", "padding", "target", "kind", "which", "wasted", "method", "porder", "param", "assign"];

pub const CH: &[u8] = &[1, 2, 3, 8];
pub const BPS: &[u8] = &[16, 8, 12, 20, 24, 32, 4, 7, 17, 31, 1];
pub const RATE: &[u32] = &[44100, 8000, 96000, 12000, 12345, 123450, 700001, 1048575, 1, 0];
pub const BLOCK: &[usize] = &[16, 1, 2, 5, 17, 33, 192, 256];

pub fn menus() -> Vec<usize> {
    vec![CH.len(), BPS.len(), RATE.len(), 5, 2, 2, 3, 2, 4, 3, BLOCK.len(), 3, 2, 3, 2, 5, 12, 2, 4, 2, 5, 6, 4]
}

fn smin(bps: u8) -> i64 {
    -(1i64 << (bps - 1))
}
fn smax(bps: u8) -> i64 {
    (1i64 << (bps - 1)) - 1
}

pub fn target(kind: usize, bps: u8, c: usize, n: usize, base: usize, wasted: u8) -> Vec<i32> {
    let (mn, mx) = (smin(bps), smax(bps));
    let mut l = crate::core::Lcg(0x9e37 + c as u64 * 31 + base as u64);
    (0..n)
        .map(|j| {
            let i = (base + j) as i64;
            let v: i64 = match kind {
                0 => ((i * 3 + c as i64 * 5) % (mx.min(2000) + 1)) - (mx.min(2000) / 2),
                1 => 0,
                2 => match (i + c as i64) % 3 { 0 => mx, 1 => mn, _ => 0 },
                3 => (l.next() as i64 % (mx - mn + 1)) + mn,
                _ => mx / 3 - c as i64,
            };
            let v = v.clamp(mn, mx);
            let w = wasted.min(bps - 1) as u32;
            (((v >> w) << w).clamp(mn, mx)) as i32
        })
        .collect()
}

fn lpc(order: u8, precision: u8, shift: u8, pat: u8) -> SubKind {
    let mxc = (1i32 << (precision - 1)) - 1;
    let coefs: Vec<i32> = (0..order as usize)
        .map(|j| match pat {
            0 => if j == 0 { (1i32 << shift.min(precision - 1)).min(mxc) } else { 0 }, // ~ "previous sample"
            1 => if j % 2 == 0 { mxc } else { -mxc - 1 },                              // alternating extremes
            _ => mxc,                                                                  // all maximal
        })
        .collect();
    SubKind::Lpc { order, precision, shift, coefs }
}

pub fn kind_of(k: usize) -> SubKind {
    match k {
        0 => SubKind::Verbatim,
        1 => SubKind::Constant,
        2..=6 => SubKind::Fixed((k - 2) as u8),
        7 => lpc(1, 5, 2, 0),
        8 => lpc(2, 12, 10, 1),
        9 => lpc(8, 15, 14, 1),
        10 => lpc(32, 8, 7, 0),
        _ => lpc(2, 15, 0, 2), // true prediction leaves i32 at 32 bps with full-scale history
    }
}

/// Build the stream spec for a choice vector; Err = this combination is not expressible (counted as skipped).
pub fn make_spec(k: &[usize]) -> Result<StreamSpec, String> {
    let ch = CH[k[0]];
    let bps = BPS[k[1]];
    let rate = RATE[k[2]];
    let nframes = [2usize, 1, 3][k[9]];
    let n = BLOCK[k[10]];
    let last_short = k[12] == 0;
    let wasted: u8 = match k[18] { 0 => 0, 1 => 1, 2 => 3, _ => bps.saturating_sub(1) };
    if wasted >= bps {
        return Err("wasted >= bps".into());
    }
    let assign = [Assign::Independent, Assign::LeftSide, Assign::SideRight, Assign::MidSide][k[22]].clone();
    if assign != Assign::Independent && ch != 2 {
        return Err("stereo assignment needs 2 channels".into());
    }
    let mut frames = Vec::new();
    let mut base = 0usize;
    for f in 0..nframes {
        // a block shorter than 16 samples is only legal as the last block of a stream
        let fl = if n < 16 { if f + 1 == nframes { n } else { 16 } } else if f + 1 == nframes && last_short && nframes > 1 { n / 2 + 1 } else { n };
        let is_target_frame = |which: usize| which == 0 || f == 0;
        let pcm: Vec<Vec<i32>> = (0..ch as usize).map(|c| target(k[15], bps, c, fl, base, if is_target_frame(k[17]) { wasted } else { 0 })).collect();
        let mut fs = plain_frame(pcm);
        fs.bs = [BsCoding::Auto, BsCoding::Bits8, BsCoding::Bits16][k[11]].clone();
        fs.rate = [RateCoding::Auto, RateCoding::Streaminfo, RateCoding::KHz, RateCoding::Hz, RateCoding::DaHz][k[3]].clone();
        fs.bps = [BpsCoding::Auto, BpsCoding::Streaminfo][k[4]].clone();
        fs.assign = assign.clone();
        fs.number_len = match k[13] { 0 => None, 1 => Some(minimal_number_len(if k[7] == 1 { base as u64 } else { f as u64 }) + 1), _ => Some(7) };
        for (si, s) in fs.subframes.iter_mut().enumerate() {
            let apply = k[17] == 0 || (f == 0 && si == 0);
            if !apply {
                continue;
            }
            s.kind = kind_of(k[16]);
            s.wasted = wasted;
            s.res.method = k[19] as u8;
            let order = match &s.kind { SubKind::Fixed(o) => *o as usize, SubKind::Lpc { order, .. } => *order as usize, _ => 0 };
            let maxp = {
                let mut p = 0u8;
                while p < 15 && fl % (1 << (p + 1)) == 0 && (fl >> (p + 1)) > order {
                    p += 1;
                }
                p
            };
            s.res.order = match k[20] { 0 => 0, 1 => 1, 2 => 2, 3 => 3, _ => maxp };
            // RFC 9639 9.2.6: (block size >> partition order) MUST be larger than the predictor order
            if order > 0 && (fl >> s.res.order) <= order {
                return Err("predictor order leaves no residual in the first partition".into());
            }
            let top = if s.res.method == 0 { 14 } else { 30 };
            s.res.params = match k[21] {
                0 => vec![PartParam::Auto],
                1 => vec![PartParam::Rice(0)],
                2 => vec![PartParam::Rice(top)],
                3 => vec![PartParam::Escape(None)],
                4 => vec![PartParam::Escape(Some(31))],
                _ => vec![PartParam::Escape(None), PartParam::Rice(top), PartParam::Auto, PartParam::Rice(3)],
            };
        }
        frames.push(fs);
        base += fl;
    }
    let mut st = plain_stream(ch, bps, rate, frames);
    st.total = [TotalSpec::Exact, TotalSpec::Unknown][k[5]].clone();
    st.md5 = [Md5Spec::Correct, Md5Spec::Zero, Md5Spec::Wrong][k[6]].clone();
    st.variable = k[7] == 1;
    st.seek = [SeekSpec::None, SeekSpec::EveryFrame, SeekSpec::Placeholders(2), SeekSpec::EveryFramePlusPlaceholders(1)][k[8]].clone();
    st.padding = [None, Some(10)][k[14]];
    Ok(st)
}

/// One malformation: a name, whether a decoder is REQUIRED to reject it, and how to apply it to frame `f`.
pub struct BadKnob {
    pub name: &'static str,
    pub must_reject: bool,
    pub apply: fn(&mut StreamSpec, usize),
}

fn last_sub(st: &mut StreamSpec, f: usize) -> &mut SubSpec {
    st.frames[f].subframes.last_mut().unwrap()
}

/// see the two `porder-nondividing-layout-*` knobs; searches predictor orders 0..4 and raw orders for one that the
/// lenient reading can parse, and degrades to a wrong CRC-16 when the block length admits none (e.g. powers of two ≥ 32)
fn nondividing_layout(s: &mut StreamSpec, f: usize, tail: bool) {
    let n = s.frames[f].pcm[0].len();
    for o in 1..=6u32 {
        let k = 1usize << o;
        let size = n >> o;
        if n % k == 0 || size == 0 {
            continue;
        }
        for p in (0..=4usize).rev() {
            if p > n || n - p == 0 {
                continue;
            }
            let sizes: Option<Vec<usize>> = if tail {
                (size >= p).then(|| { let mut v = vec![size; k]; v[0] = size - p; v[k - 1] = size + (n - k * size); v })
            } else {
                let rest = (k - 1) * size;
                (n - p > rest && n - p - rest <= size).then(|| { let mut v = vec![size; k]; v[0] = n - p - rest; v })
            };
            if let Some(v) = sizes {
                let x = last_sub(s, f);
                x.kind = SubKind::Fixed(p as u8);
                x.res.order = 0;
                x.res.params = vec![PartParam::Auto];
                x.bad.order_raw = Some(o as u8);
                x.bad.part_sizes = Some(v);
                return;
            }
        }
    }
    s.frames[f].bad.crc16_wrong = true;
}

pub fn bad_knobs() -> Vec<BadKnob> {
    macro_rules! k {
        ($n:expr, $m:expr, $f:expr) => {
            BadKnob { name: $n, must_reject: $m, apply: $f }
        };
    }
    vec![
        k!("sync-flip", true, |s, f| s.frames[f].bad.sync_flip = true),
        k!("reserved-bit", true, |s, f| s.frames[f].bad.reserved_bit = true),
        k!("bs-code-0", true, |s, f| s.frames[f].bad.bs_code = Some(0)),
        k!("bs-65536", true, |s, f| { s.frames[f].bs = BsCoding::Bits16; s.frames[f].bad.bs_extra = Some(0xFFFF) }),
        k!("rate-code-15", true, |s, f| s.frames[f].bad.rate_code = Some(15)),
        k!("chan-code-11", true, |s, f| s.frames[f].bad.chan_code = Some(11)),
        k!("chan-code-15", true, |s, f| s.frames[f].bad.chan_code = Some(15)),
        k!("bps-code-3", true, |s, f| s.frames[f].bad.bps_code = Some(3)),
        k!("number-lead-ff", true, |s, f| s.frames[f].bad.number_lead_ff = true),
        k!("number-bad-cont", true, |s, f| s.frames[f].bad.number_bad_cont = true),
        k!("crc8-wrong", true, |s, f| s.frames[f].bad.crc8_wrong = true),
        k!("crc16-wrong", true, |s, f| s.frames[f].bad.crc16_wrong = true),
        k!("block>info-max", true, |s, _f| s.info_max_block = Some(s.frames.iter().map(|x| x.pcm[0].len()).max().unwrap_or(1).saturating_sub(1).max(1) as u16)),
        k!("rate!=info", true, |s, f| s.frames[f].bad.rate_code = Some(if s.rate == 8000 { 9 } else { 4 })),
        k!("bps!=info", true, |s, f| s.frames[f].bad.bps_code = Some(if s.bps == 8 { 4 } else { 1 })),
        k!("channels!=info", true, |s, f| s.frames[f].bad.chan_code = Some(if s.channels == 1 { 1 } else { 0 })),
        k!("total-too-small", true, |s, _f| { let t: u64 = s.frames.iter().map(|x| x.pcm[0].len() as u64).sum(); s.total = TotalSpec::Value(t.saturating_sub(1).max(1)) }),
        k!("total-too-large", true, |s, _f| { let t: u64 = s.frames.iter().map(|x| x.pcm[0].len() as u64).sum(); s.total = TotalSpec::Value(t + 1) }),
        // declared totals that are wrong by a multiple of 2^32 (a 32-bit "remaining samples" computation sees them as exact)
        k!("total-too-large-by-2^32", true, |s, _f| { let t: u64 = s.frames.iter().map(|x| x.pcm[0].len() as u64).sum(); s.total = TotalSpec::Value(t + (1u64 << 32)) }),
        k!("total-too-large-by-2^35", true, |s, _f| { let t: u64 = s.frames.iter().map(|x| x.pcm[0].len() as u64).sum(); s.total = TotalSpec::Value(t + (1u64 << 35)) }),
        k!("sub-pad-bit", true, |s, f| last_sub(s, f).bad.pad_bit = true),
        k!("sub-type-2", true, |s, f| last_sub(s, f).bad.type_code = Some(2)),
        k!("sub-type-13", true, |s, f| last_sub(s, f).bad.type_code = Some(13)),
        k!("sub-type-31", true, |s, f| last_sub(s, f).bad.type_code = Some(31)),
        k!("wasted>=bps", true, |s, f| { let b = s.bps as u32; last_sub(s, f).bad.wasted_raw = Some(b) }),
        k!("wasted-huge", true, |s, f| last_sub(s, f).bad.wasted_raw = Some(40)),
        k!("precision-15", true, |s, f| { let x = last_sub(s, f); x.kind = kind_of(7); x.bad.precision_raw = Some(15) }),
        k!("neg-shift", true, |s, f| { let x = last_sub(s, f); x.kind = kind_of(7); x.bad.shift_raw = Some(31) }),
        k!("method-2", true, |s, f| { let x = last_sub(s, f); x.kind = SubKind::Fixed(0); x.bad.method_raw = Some(2) }),
        k!("method-3", true, |s, f| { let x = last_sub(s, f); x.kind = SubKind::Fixed(0); x.bad.method_raw = Some(3) }),
        k!("porder-15", true, |s, f| { let x = last_sub(s, f); x.kind = SubKind::Fixed(0); x.bad.order_raw = Some(15) }),
        k!("porder-nondividing", true, |s, f| { let n = s.frames[f].pcm[0].len(); let x = last_sub(s, f); x.kind = SubKind::Fixed(0); x.bad.order_raw = Some((n.trailing_zeros() + 1).min(15) as u8) }),
        // the same rule with each predictor order: a reader that partitions the residual from the END of the block, or only
        // checks that the partition size is non-zero, accepts exactly those frames where order ≡ remainder (mod size)
        k!("porder-nondividing-fixed1", true, |s, f| { let n = s.frames[f].pcm[0].len(); let x = last_sub(s, f); x.kind = SubKind::Fixed(1); x.bad.order_raw = Some((n.trailing_zeros() + 1).min(15) as u8) }),
        k!("porder-nondividing-fixed2", true, |s, f| { let n = s.frames[f].pcm[0].len(); let x = last_sub(s, f); x.kind = SubKind::Fixed(2); x.bad.order_raw = Some((n.trailing_zeros() + 1).min(15) as u8) }),
        k!("porder-nondividing-fixed3", true, |s, f| { let n = s.frames[f].pcm[0].len(); let x = last_sub(s, f); x.kind = SubKind::Fixed(3); x.bad.order_raw = Some((n.trailing_zeros() + 1).min(15) as u8) }),
        k!("porder-nondividing-fixed4", true, |s, f| { let n = s.frames[f].pcm[0].len(); let x = last_sub(s, f); x.kind = SubKind::Fixed(4); x.bad.order_raw = Some((n.trailing_zeros() + 1).min(15) as u8) }),
        k!("porder-nondividing+1-fixed2", true, |s, f| { let n = s.frames[f].pcm[0].len(); let x = last_sub(s, f); x.kind = SubKind::Fixed(2); x.bad.order_raw = Some((n.trailing_zeros() + 2).min(15) as u8) }),
        k!("porder-nondividing-lpc", true, |s, f| { let n = s.frames[f].pcm[0].len(); let x = last_sub(s, f); x.kind = kind_of(7); x.bad.order_raw = Some((n.trailing_zeros() + 1).min(15) as u8) }),
        // self-consistent frames under two lenient readings of a non-dividing partition order o (size = n >> o, 2^o partitions):
        // "rchunks": equal partitions counted from the end of the block; "tail": the last partition absorbs the remainder
        k!("porder-nondividing-layout-rchunks", true, |s, f| nondividing_layout(s, f, false)),
        k!("porder-nondividing-layout-tail", true, |s, f| nondividing_layout(s, f, true)),
        k!("porder-first-partition-negative", true, |s, f| { let n = s.frames[f].pcm[0].len(); let x = last_sub(s, f); x.kind = SubKind::Fixed(if n > 4 { 4 } else { 1 }); x.bad.order_raw = Some(n.trailing_zeros().min(15) as u8) }),
        k!("short-nonfinal-block-5", true, |s, _f| { if s.frames.len() > 1 && s.total == TotalSpec::Exact { let ch = s.channels as usize; for c in 0..ch { s.frames[0].pcm[c].truncate(5); } } else { s.frames[0].bad.crc16_wrong = true } }),
        k!("short-nonfinal-block-14", true, |s, _f| { if s.frames.len() > 1 && s.total == TotalSpec::Exact && s.frames[0].pcm[0].len() >= 14 { let ch = s.channels as usize; for c in 0..ch { s.frames[0].pcm[c].truncate(14); } } else { s.frames[0].bad.crc16_wrong = true } }),
        // (with an unknown total a streaming decoder cannot know that a short block is not the last one when it delivers it:
        //  the two knobs above degrade to a wrong CRC-16 there)
        // ---- a decoder MAY accept these
        k!("padding-ones", false, |s, f| { s.frames[f].bad.padding_ones = true; last_sub(s, f).kind = SubKind::Fixed(0) }),
        k!("residual-min", false, |s, f| { let x = last_sub(s, f); x.kind = SubKind::Fixed(0); x.res.method = 1; x.bad.residual_force = Some((0, i32::MIN as i64)) }),
        k!("seek-beyond-eof", false, |s, _f| s.seek = SeekSpec::BeyondEof),
        k!("info-frame-size-wrong", false, |s, _f| { s.info_min_frame = Some(1); s.info_max_frame = Some(2) }),
        k!("info-min-block-wrong", false, |s, _f| s.info_min_block = Some(65535)),
    ]
}

/// Every entry of the frame-header code tables: all block-size codes (common sizes 192, 576·2^k, 256·2^k and both
/// explicit forms at their boundaries), all sample-rate codes (the 11 tabulated rates and the kHz / Hz / 10 Hz / STREAMINFO
/// forms at their boundaries), all depth codes, all channel-assignment codes — as products, so that each pair of trailing
/// header fields occurs. Constant / verbatim subframes keep even the 32768-sample blocks small.
pub fn header_table_specs() -> Vec<(StreamSpec, serde_json::Value, bool)> {
    use serde_json::json;
    let mut out = Vec::new();
    let blocks: Vec<(usize, BsCoding)> = vec![
        (192, BsCoding::Auto), (576, BsCoding::Auto), (1152, BsCoding::Auto), (2304, BsCoding::Auto), (4608, BsCoding::Auto),
        (256, BsCoding::Auto), (512, BsCoding::Auto), (1024, BsCoding::Auto), (2048, BsCoding::Auto), (4096, BsCoding::Auto),
        (8192, BsCoding::Auto), (16384, BsCoding::Auto), (32768, BsCoding::Auto),
        (16, BsCoding::Bits8), (255, BsCoding::Bits8), (256, BsCoding::Bits8), (192, BsCoding::Bits8),
        (16, BsCoding::Bits16), (256, BsCoding::Bits16), (257, BsCoding::Bits16), (4096, BsCoding::Bits16), (65535, BsCoding::Bits16),
        (100, BsCoding::Auto), (1000, BsCoding::Auto),
    ];
    let rates: Vec<(u32, RateCoding)> = vec![
        (88200, RateCoding::Auto), (176400, RateCoding::Auto), (192000, RateCoding::Auto), (8000, RateCoding::Auto), (16000, RateCoding::Auto),
        (22050, RateCoding::Auto), (24000, RateCoding::Auto), (32000, RateCoding::Auto), (44100, RateCoding::Auto), (48000, RateCoding::Auto), (96000, RateCoding::Auto),
        (1000, RateCoding::KHz), (255000, RateCoding::KHz), (48000, RateCoding::KHz),
        (1, RateCoding::Hz), (65535, RateCoding::Hz), (44100, RateCoding::Hz),
        (10, RateCoding::DaHz), (655350, RateCoding::DaHz), (44100, RateCoding::DaHz),
        (0, RateCoding::Streaminfo), (655351, RateCoding::Streaminfo), (1048575, RateCoding::Streaminfo), (44100, RateCoding::Streaminfo),
    ];
    let one = |ch: u8, bps: u8, rate: u32, rc: &RateCoding, n: usize, bc: &BsCoding, bpsc: BpsCoding, assign: Assign, kind: SubKind, variable: bool| -> StreamSpec {
        let mk = |len: usize, base: usize| {
            let pcm: Vec<Vec<i32>> = (0..ch as usize).map(|c| if kind == SubKind::Constant { vec![(c as i32 + 1) * 3 - 40; len] } else { target(0, bps, c, len, base, 0) }).collect();
            let mut f = plain_frame(pcm);
            f.bs = bc.clone();
            f.rate = rc.clone();
            f.bps = bpsc.clone();
            f.assign = assign.clone();
            for s in f.subframes.iter_mut() {
                s.kind = kind.clone();
            }
            f
        };
        // two equal frames + a shorter last one (its size is coded explicitly)
        let mut last = mk(n.min(16).max(1), 2 * n);
        last.bs = BsCoding::Auto;
        let mut st = plain_stream(ch, bps, rate, vec![mk(n, 0), mk(n, n), last]);
        st.variable = variable;
        st
    };
    for (bi, (n, bc)) in blocks.iter().enumerate() {
        for (ri, (rate, rc)) in rates.iter().enumerate() {
            let kind = if *n > 1200 { SubKind::Constant } else { SubKind::Fixed(1) };
            let spec = one(1 + (ri % 2) as u8, 16, *rate, rc, *n, bc, BpsCoding::Auto, Assign::Independent, kind, bi % 2 == 1);
            out.push((spec, json!({"sweep":"header-tables","block":n,"block_coding":format!("{bc:?}"),"rate":rate,"rate_coding":format!("{rc:?}")}), *rc != RateCoding::Streaminfo));
        }
    }
    for (bps, bpsc) in [(8u8, BpsCoding::Auto), (12, BpsCoding::Auto), (16, BpsCoding::Auto), (20, BpsCoding::Auto), (24, BpsCoding::Auto), (32, BpsCoding::Auto), (4, BpsCoding::Streaminfo), (16, BpsCoding::Streaminfo), (17, BpsCoding::Streaminfo), (32, BpsCoding::Streaminfo)] {
        for (ch, assign) in [(1u8, Assign::Independent), (2, Assign::Independent), (3, Assign::Independent), (4, Assign::Independent), (5, Assign::Independent), (6, Assign::Independent), (7, Assign::Independent), (8, Assign::Independent), (2, Assign::LeftSide), (2, Assign::SideRight), (2, Assign::MidSide)] {
            for (n, bc) in [(16usize, BsCoding::Auto), (4096, BsCoding::Auto), (1152, BsCoding::Auto)] {
                for variable in [false, true] {
                    let spec = one(ch, bps, 48000, &RateCoding::Auto, n, &bc, bpsc.clone(), assign.clone(), if n > 16 { SubKind::Verbatim } else { SubKind::Fixed(2) }, variable);
                    out.push((spec, json!({"sweep":"header-tables","bps":bps,"bps_coding":format!("{bpsc:?}"),"ch":ch,"assign":format!("{assign:?}"),"block":n,"variable":variable}), bpsc == BpsCoding::Auto));
                }
            }
        }
    }
    out
}

/// Partition orders up to 15 (beyond the streamable subset's 8 and beyond what the crate's own encoder emits) on power-of-two
/// blocks up to 32768 samples: every legal (order, predictor) pair for FIXED 0..4 and an order-2 LPC, both coding methods.
pub fn partition_high_specs() -> Vec<(StreamSpec, serde_json::Value)> {
    use serde_json::json;
    let mut out = Vec::new();
    for n in [512usize, 4096, 32768] {
        for po in 0..=15u8 {
            for fo in 0..=5u8 {
                let pred = if fo == 5 { 2 } else { fo as usize };
                if n % (1usize << po) != 0 || (n >> po) <= pred {
                    continue;
                }
                let mut sub = plain_sub();
                sub.kind = if fo == 5 { kind_of(8) } else { SubKind::Fixed(fo) };
                sub.res = ResSpec { method: (po % 2) as u8, order: po, params: vec![PartParam::Auto, PartParam::Escape(None), PartParam::Rice(2)] };
                let mut f = plain_frame(vec![target(if po % 3 == 0 { 3 } else { 0 }, 16, 0, n, 0, 0)]);
                f.subframes[0] = sub;
                out.push((plain_stream(1, 16, 44100, vec![f]), json!({"sweep":"partition-high","n":n,"order":po,"fixed":fo})));
            }
        }
    }
    out
}
