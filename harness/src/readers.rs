//! The three reader front-ends as explorable systems (bfs::Sys): real reader clone + reference cursor.
//! Used by C06 (seekable, over Cursor) and C07 (non-seekable, over segmented sources).

use crate::bfs::Sys;
use crate::corpus::TestFile;
use flac_codec::byteorder::{BigEndian, LittleEndian};
use flac_codec::decode::{FlacByteReader, FlacChannelReader, FlacSampleReader};
use std::io::{BufRead, Read, Seek, SeekFrom};

pub trait SrcPos {
    fn src_pos(&self) -> u64;
    /// the source can inject a read fault (bit 62 of `src_pos` = "the fault has fired")
    const FAULTY: bool = false;
}

/// A cursor whose read at absolute offset `at` fails ONCE with a transient error; reads before it stop short at `at`.
#[derive(Clone)]
pub struct FaultCursor<'a> {
    pub cur: std::io::Cursor<&'a [u8]>,
    pub at: u64,
    pub fired: bool,
}
impl<'a> Read for FaultCursor<'a> {
    fn read(&mut self, buf: &mut [u8]) -> std::io::Result<usize> {
        if !self.fired && !buf.is_empty() {
            let pos = self.cur.position();
            if pos == self.at {
                self.fired = true;
                return Err(std::io::Error::new(std::io::ErrorKind::Other, "injected read fault"));
            }
            if pos < self.at {
                let lim = buf.len().min((self.at - pos) as usize);
                return self.cur.read(&mut buf[..lim]);
            }
        }
        self.cur.read(buf)
    }
}
impl<'a> Seek for FaultCursor<'a> {
    fn seek(&mut self, p: SeekFrom) -> std::io::Result<u64> {
        self.cur.seek(p)
    }
}
impl<'a> SrcPos for FaultCursor<'a> {
    fn src_pos(&self) -> u64 {
        self.cur.position() | ((self.fired as u64) << 62)
    }
    const FAULTY: bool = true;
}
impl SrcPos for std::io::Cursor<&[u8]> {
    fn src_pos(&self) -> u64 {
        self.position()
    }
}

/// Source that serves a fixed byte string cut at given points (every read stops at the next cut);
/// `chunk` > 0 additionally limits every read to that many bytes. Seek is supported (for C06 use over cuts too).
#[derive(Clone)]
pub struct ChunkedSource<'a> {
    pub data: &'a [u8],
    pub pos: usize,
    pub cuts: Vec<usize>,
    pub chunk: usize,
    pub reads_at_eof: u32,
}
impl<'a> ChunkedSource<'a> {
    pub fn new(data: &'a [u8], cuts: Vec<usize>, chunk: usize) -> Self {
        ChunkedSource { data, pos: 0, cuts, chunk, reads_at_eof: 0 }
    }
}
impl Read for ChunkedSource<'_> {
    fn read(&mut self, buf: &mut [u8]) -> std::io::Result<usize> {
        if self.pos >= self.data.len() {
            self.reads_at_eof += 1;
            if self.reads_at_eof > 1_000_000 {
                panic!("decoder polls the source forever at end of data");
            }
            return Ok(0);
        }
        let mut end = self.data.len().min(self.pos + buf.len());
        if self.chunk > 0 {
            end = end.min(self.pos + self.chunk);
        }
        for &c in &self.cuts {
            if c > self.pos && c < end {
                end = c;
            }
        }
        let n = end - self.pos;
        buf[..n].copy_from_slice(&self.data[self.pos..end]);
        self.pos = end;
        Ok(n)
    }
}
impl SrcPos for ChunkedSource<'_> {
    fn src_pos(&self) -> u64 {
        self.pos as u64
    }
}
impl Seek for ChunkedSource<'_> {
    fn seek(&mut self, p: SeekFrom) -> std::io::Result<u64> {
        let np: i128 = match p {
            SeekFrom::Start(x) => x as i128,
            SeekFrom::Current(d) => self.pos as i128 + d as i128,
            SeekFrom::End(d) => self.data.len() as i128 + d as i128,
        };
        if np < 0 {
            return Err(std::io::Error::new(std::io::ErrorKind::InvalidInput, "negative seek"));
        }
        self.pos = np as usize;
        Ok(np as u64)
    }
}

#[derive(Clone, Copy, Debug, PartialEq, Eq)]
pub enum Front {
    ByteLE,
    ByteBE,
    Sample,
    Channel,
}
pub const FRONTS: [Front; 4] = [Front::ByteLE, Front::ByteBE, Front::Sample, Front::Channel];

#[derive(Clone)]
pub enum Rd<R> {
    ByteLE(FlacByteReader<R, LittleEndian>),
    ByteBE(FlacByteReader<R, BigEndian>),
    Sample(FlacSampleReader<R>),
    Channel(FlacChannelReader<R>),
}

pub fn open<R: Read + Seek>(front: Front, src: R, seekable: bool) -> Result<Rd<R>, String> {
    let e = |x: flac_codec::Error| format!("open failed: {x:?}");
    Ok(match (front, seekable) {
        (Front::ByteLE, true) => Rd::ByteLE(FlacByteReader::new_seekable(src).map_err(e)?),
        (Front::ByteLE, false) => Rd::ByteLE(FlacByteReader::new(src).map_err(e)?),
        (Front::ByteBE, true) => Rd::ByteBE(FlacByteReader::new_seekable(src).map_err(e)?),
        (Front::ByteBE, false) => Rd::ByteBE(FlacByteReader::new(src).map_err(e)?),
        (Front::Sample, true) => Rd::Sample(FlacSampleReader::new_seekable(src).map_err(e)?),
        (Front::Sample, false) => Rd::Sample(FlacSampleReader::new(src).map_err(e)?),
        (Front::Channel, true) => Rd::Channel(FlacChannelReader::new_seekable(src).map_err(e)?),
        (Front::Channel, false) => Rd::Channel(FlacChannelReader::new(src).map_err(e)?),
    })
}

/// Reference model: a cursor over the PCM. Units of `pos`/`len`: bytes (byte readers), interleaved samples
/// (sample reader), PCM frames (channel reader). `pos == None` ⇔ position unspecified (after a failed seek).
#[derive(Clone)]
pub struct Model<'a> {
    pub file: &'a TestFile,
    pub refbytes: &'a [u8], // serialised PCM in this front's byte order (byte readers only)
    pub pos: Option<u64>,
    pub len: u64,
    pub eof_seen: bool,
    /// the cursor was re-established from delivered data after a failed seek
    pub resynced: bool,
    /// an injected read fault has fired and no seek has succeeded since: the position is unspecified and nothing is demanded
    /// of what is delivered (the property speaks of the data after a seek)
    pub faulted: bool,
    /// the previous operation was the read/fill that met the injected fault (only a seek issued right then is checked)
    pub fresh_fault: bool,
}

#[derive(Clone)]
pub struct ReaderSys<'a, R> {
    pub rd: Rd<R>,
    pub m: Model<'a>,
    pub oplist: &'a [String],
}

pub fn model_for<'a>(front: Front, file: &'a TestFile, refbytes: &'a [u8]) -> Model<'a> {
    let len = match front {
        Front::ByteLE | Front::ByteBE => refbytes.len() as u64,
        Front::Sample => file.pcm.len() as u64,
        Front::Channel => (file.pcm.len() / file.sig.ch as usize) as u64,
    };
    Model { file, refbytes, pos: Some(0), len, eof_seen: false, resynced: false, faulted: false, fresh_fault: false }
}

type V = (String, String);

impl Model<'_> {
    fn check_bytes(&self, got: &[u8]) -> Result<(), V> {
        if let Some(p) = self.pos {
            let p = p as usize;
            let want = &self.refbytes[p.min(self.refbytes.len())..];
            if got.len() > want.len() || got != &want[..got.len()] {
                let clause = if want.is_empty() { "data-after-end" } else { "wrong-data" };
                return Err((clause.into(), format!("at reference byte {p}: got {:?}, expected prefix of {:?}", &got[..got.len().min(12)], &want[..want.len().min(12)])));
            }
            if got.is_empty() && !want.is_empty() {
                return Err(("premature-end".into(), format!("end of stream signalled at reference byte {p} of {}", self.refbytes.len())));
            }
        }
        Ok(())
    }
    fn check_samples(&self, got: &[i32]) -> Result<(), V> {
        if let Some(p) = self.pos {
            let p = p as usize;
            let want = &self.file.pcm[p.min(self.file.pcm.len())..];
            if got.len() > want.len() || got != &want[..got.len()] {
                let clause = if want.is_empty() { "data-after-end" } else { "wrong-data" };
                return Err((clause.into(), format!("at reference sample {p}: got {:?}, expected prefix of {:?}", &got[..got.len().min(8)], &want[..want.len().min(8)])));
            }
            if got.is_empty() && !want.is_empty() {
                return Err(("premature-end".into(), format!("end of stream signalled at reference sample {p} of {}", self.file.pcm.len())));
            }
        }
        Ok(())
    }
    /// per-channel slices from the channel reader, `pos` in PCM frames
    fn check_channels(&self, got: &[Vec<i32>]) -> Result<usize, V> {
        let ch = self.file.sig.ch as usize;
        if got.len() != ch {
            return Err(("channel-count".into(), format!("fill_buf returned {} channel slices for a {ch}-channel stream", got.len())));
        }
        let n = got[0].len();
        if got.iter().any(|c| c.len() != n) {
            return Err(("ragged-channels".into(), "channel slices of unequal length".into()));
        }
        if let Some(p) = self.pos {
            let p = p as usize;
            let remain = self.len as usize - p.min(self.len as usize);
            if n > remain {
                return Err(("data-after-end".into(), format!("at reference frame {p} of {}: {n} more PCM frames delivered", self.len)));
            }
            for (c, sl) in got.iter().enumerate() {
                for (i, v) in sl.iter().enumerate() {
                    let w = self.file.pcm[(p + i) * ch + c];
                    if *v != w {
                        return Err(("wrong-data".into(), format!("at reference frame {} channel {c}: got {v}, expected {w}", p + i)));
                    }
                }
            }
            if n == 0 && remain > 0 {
                return Err(("premature-end".into(), format!("end of stream signalled at reference frame {p} of {}", self.len)));
            }
        }
        Ok(n)
    }
    // ---- after a FAILED seek the position is unspecified, but the property still forbids "stale or misplaced data": whatever
    // is delivered next must be a piece of the stream, and everything after it must continue from there. The cursor is
    // re-synchronised on the first delivered chunk when that chunk occurs exactly once in the reference (if it occurs several
    // times — short chunks, low depths — the position stays unknown and nothing is demanded).
    fn resync<T: PartialEq>(&mut self, reference: &[T], got: &[T], unit: usize) -> Result<(), V> {
        if self.faulted {
            return Ok(());
        }
        if self.pos.is_some() || got.is_empty() || got.len() > reference.len() {
            if self.pos.is_none() && got.len() > reference.len() {
                return Err(("misplaced-data-after-failed-seek".into(), format!("{} units delivered after a failed seek, the whole stream has {}", got.len(), reference.len())));
            }
            return Ok(());
        }
        let mut found: Option<usize> = None;
        let mut count = 0;
        for p in (0..=reference.len() - got.len()).step_by(unit.max(1)) {
            if reference[p..p + got.len()] == *got {
                count += 1;
                found.get_or_insert(p);
            }
        }
        match count {
            0 => Err(("misplaced-data-after-failed-seek".into(), format!("the {} units delivered after a failed seek are not a piece of the stream", got.len()))),
            1 => {
                self.pos = Some((found.unwrap() / unit.max(1)) as u64);
                self.resynced = true;
                Ok(())
            }
            _ => Ok(()),
        }
    }
    fn check_bytes_mut(&mut self, got: &[u8]) -> Result<(), V> {
        let r = self.refbytes;
        self.resync(r, got, 1)?;
        self.check_bytes(got).map_err(|(c, d)| if self.resynced { (format!("{c}-after-failed-seek"), d) } else { (c, d) })
    }
    fn check_samples_mut(&mut self, got: &[i32]) -> Result<(), V> {
        let f = self.file;
        self.resync(&f.pcm, got, 1)?;
        self.check_samples(got).map_err(|(c, d)| if self.resynced { (format!("{c}-after-failed-seek"), d) } else { (c, d) })
    }
    fn check_channels_mut(&mut self, got: &[Vec<i32>]) -> Result<usize, V> {
        if self.pos.is_none() && !got.is_empty() && got.iter().all(|c| c.len() == got[0].len()) && got.len() == self.file.sig.ch as usize && !got[0].is_empty() {
            let inter = crate::codec::interleave(got);
            let f = self.file;
            self.resync(&f.pcm, &inter, got.len())?;
        }
        self.check_channels(got).map_err(|(c, d)| if self.resynced { (format!("{c}-after-failed-seek"), d) } else { (c, d) })
    }
    fn advance(&mut self, k: usize) {
        if let Some(p) = self.pos.as_mut() {
            *p += k as u64;
        }
    }
    /// target: Some(t) = in-range request; None = out-of-range request (must fail)
    fn seek_verdict(&mut self, target: Option<u64>, may_fail: bool, got: Result<Option<u64>, String>) -> Result<String, V> {
        match (target, got) {
            (Some(t), Ok(ret)) => {
                if let Some(r) = ret {
                    if r != t {
                        self.pos = None;
                        return Err(("wrong-return".into(), format!("seek returned position {r}, requested {t}")));
                    }
                }
                self.pos = Some(t);
                self.resynced = false;
                self.faulted = false;
                self.eof_seen = false;
                Ok("seek-ok".into())
            }
            (Some(t), Err(e)) => {
                self.pos = None;
                if !may_fail {
                    Err(("in-range-seek-failed".into(), format!("seek to {t} (length {}) failed: {e}", self.len)))
                } else {
                    Ok("seek-err-allowed".into())
                }
            }
            (None, Ok(r)) => {
                self.pos = None;
                Err(("beyond-end-accepted".into(), format!("out-of-range seek succeeded (returned {r:?}, length {})", self.len)))
            }
            (None, Err(_)) => {
                self.pos = None;
                Ok("seek-rejected".into())
            }
        }
    }
}

fn parse_k(s: &str) -> usize {
    if s == "all" { usize::MAX } else { s.parse().unwrap_or(1) }
}
fn ioe(e: std::io::Error) -> String {
    format!("{:?}: {e}", e.kind())
}

fn byte_step<R: Read + Seek, E: flac_codec::byteorder::Endianness>(r: &mut FlacByteReader<R, E>, m: &mut Model, op: &str) -> Result<String, V> {
    let (name, arg) = op.split_once(':').unwrap_or((op, ""));
    let len = m.len;
    match name {
        "read" => {
            let n: usize = arg.parse().unwrap_or(1);
            let mut buf = vec![0u8; n];
            match r.read(&mut buf) {
                Ok(k) => {
                    if k > n {
                        return Err(("read-overrun".into(), format!("read({n}) returned {k}")));
                    }
                    m.check_bytes_mut(&buf[..k])?;
                    m.advance(k);
                    if k == 0 {
                        m.eof_seen = true;
                    }
                    Ok(if k == 0 { "read-eof".into() } else if k < n { "read-short".into() } else { "read-full".into() })
                }
                Err(e) => {
                    if m.pos.is_some() {
                        Err(("read-error".into(), format!("read failed on a valid stream: {}", ioe(e))))
                    } else {
                        Ok("read-err-after-failed-seek".into())
                    }
                }
            }
        }
        "fill" | "fc" => match r.fill_buf() {
            Ok(b) => {
                let b = b.to_vec();
                m.check_bytes_mut(&b)?;
                if b.is_empty() {
                    m.eof_seen = true;
                }
                if name == "fc" {
                    let k = parse_k(arg).min(b.len());
                    r.consume(k);
                    m.advance(k);
                }
                Ok(if b.is_empty() { "fill-eof".into() } else { "fill-data".into() })
            }
            Err(e) => {
                if m.pos.is_some() {
                    Err(("read-error".into(), format!("fill_buf failed on a valid stream: {}", ioe(e))))
                } else {
                    Ok("fill-err-after-failed-seek".into())
                }
            }
        },
        "ss" => {
            let t: u64 = arg.parse().unwrap_or(0);
            let got = r.seek(SeekFrom::Start(t)).map(Some).map_err(ioe);
            m.seek_verdict((t <= len).then_some(t), false, got)
        }
        "sc" => {
            let d: i64 = arg.parse().unwrap_or(0);
            let got = r.seek(SeekFrom::Current(d)).map(Some).map_err(ioe);
            match m.pos {
                Some(p) => {
                    let t = p as i128 + d as i128;
                    let target = (t >= 0 && t <= len as i128).then_some(t as u64);
                    m.seek_verdict(target, false, got)
                }
                None => Ok("seek-cur-from-unknown".into()),
            }
        }
        "se" => {
            let d: i64 = arg.parse().unwrap_or(0);
            let got = r.seek(SeekFrom::End(d)).map(Some).map_err(ioe);
            let t = len as i128 + d as i128;
            let target = (d <= 0 && t >= 0).then_some(t as u64);
            // with an undeclared total the end is not knowable without a full decode: an error is tolerated
            let may_fail = !m.file.total_known;
            m.seek_verdict(target, may_fail, got)
        }
        _ => Err(("bad-op".into(), op.to_string())),
    }
}

fn sample_step<R: Read + Seek>(r: &mut FlacSampleReader<R>, m: &mut Model, op: &str) -> Result<String, V> {
    let (name, arg) = op.split_once(':').unwrap_or((op, ""));
    let ch = m.file.sig.ch as u64;
    let fe = |e: flac_codec::Error| format!("{e:?}");
    match name {
        "read" => {
            let n: usize = arg.parse().unwrap_or(1);
            let mut buf = vec![0i32; n];
            match r.read(&mut buf) {
                Ok(k) => {
                    if k > n {
                        return Err(("read-overrun".into(), format!("read({n}) returned {k}")));
                    }
                    m.check_samples_mut(&buf[..k])?;
                    m.advance(k);
                    if k == 0 {
                        m.eof_seen = true;
                    }
                    Ok(if k == 0 { "read-eof".into() } else if k < n { "read-short".into() } else { "read-full".into() })
                }
                Err(e) => {
                    if m.pos.is_some() {
                        Err(("read-error".into(), format!("read failed on a valid stream: {}", fe(e))))
                    } else {
                        Ok("read-err-after-failed-seek".into())
                    }
                }
            }
        }
        "fill" | "fc" => match r.fill_buf() {
            Ok(b) => {
                let b = b.to_vec();
                m.check_samples_mut(&b)?;
                if b.is_empty() {
                    m.eof_seen = true;
                }
                if name == "fc" {
                    let k = parse_k(arg).min(b.len());
                    r.consume(k);
                    m.advance(k);
                }
                Ok(if b.is_empty() { "fill-eof".into() } else { "fill-data".into() })
            }
            Err(e) => {
                if m.pos.is_some() {
                    Err(("read-error".into(), format!("fill_buf failed on a valid stream: {}", fe(e))))
                } else {
                    Ok("fill-err-after-failed-seek".into())
                }
            }
        },
        "seek" => {
            let s: u64 = arg.parse().unwrap_or(0);
            let total = m.len / ch;
            let got = r.seek(s).map(|_| None).map_err(fe);
            // a request for exactly the end may succeed (nothing left) or be refused; beyond the end must fail
            m.seek_verdict((s <= total).then(|| s * ch), s == total, got)
        }
        _ => Err(("bad-op".into(), op.to_string())),
    }
}

fn channel_step<R: Read + Seek>(r: &mut FlacChannelReader<R>, m: &mut Model, op: &str) -> Result<String, V> {
    let (name, arg) = op.split_once(':').unwrap_or((op, ""));
    let fe = |e: flac_codec::Error| format!("{e:?}");
    match name {
        "fill" | "fc" => match r.fill_buf() {
            Ok(b) => {
                let owned: Vec<Vec<i32>> = b.iter().map(|c| c.to_vec()).collect();
                drop(b);
                let n = m.check_channels_mut(&owned)?;
                if n == 0 {
                    m.eof_seen = true;
                }
                if name == "fc" {
                    let k = parse_k(arg).min(n);
                    r.consume(k);
                    m.advance(k);
                }
                Ok(if n == 0 { "fill-eof".into() } else { "fill-data".into() })
            }
            Err(e) => {
                if m.pos.is_some() {
                    Err(("read-error".into(), format!("fill_buf failed on a valid stream: {}", fe(e))))
                } else {
                    Ok("fill-err-after-failed-seek".into())
                }
            }
        },
        "seek" => {
            let s: u64 = arg.parse().unwrap_or(0);
            let total = m.len;
            let got = r.seek(s).map(|_| None).map_err(fe);
            m.seek_verdict((s <= total).then_some(s), s == total, got)
        }
        _ => Err(("bad-op".into(), op.to_string())),
    }
}

impl<'a, R: Read + Seek + Clone + SrcPos> Sys for ReaderSys<'a, R> {
    fn key(&self) -> Vec<i64> {
        let st = match &self.rd {
            Rd::ByteLE(r) => {
                let s = r.verif_state();
                (s.source.src_pos(), s.current_sample, s.frame_len, s.frame, s.buffered, s.consumed)
            }
            Rd::ByteBE(r) => {
                let s = r.verif_state();
                (s.source.src_pos(), s.current_sample, s.frame_len, s.frame, s.buffered, s.consumed)
            }
            Rd::Sample(r) => {
                let s = r.verif_state();
                (s.source.src_pos(), s.current_sample, s.frame_len, s.frame, s.buffered, s.consumed)
            }
            Rd::Channel(r) => {
                let s = r.verif_state();
                (s.source.src_pos(), s.current_sample, s.frame_len, s.frame, s.buffered, s.consumed)
            }
        };
        let mut k: Vec<i64> = vec![st.0 as i64, st.1 as i64, st.2 as i64, st.5 as i64, self.m.pos.map(|p| p as i64).unwrap_or(-1), self.m.eof_seen as i64 | (self.m.faulted as i64) << 1 | (self.m.fresh_fault as i64) << 2, st.3.len() as i64];
        k.extend(st.3.iter().map(|x| *x as i64));
        k.extend(st.4.iter().map(|x| *x as i64));
        k
    }
    fn ops(&self) -> Vec<String> {
        self.oplist.to_vec()
    }
    fn step(&mut self, op: &str) -> Result<String, V> {
        let fired_before = R::FAULTY && (self.key()[0] >> 62) & 1 == 1;
        let (faulted_before, fresh_before) = (self.m.faulted, self.m.fresh_fault);
        self.m.fresh_fault = false;
        let m = &mut self.m;
        let r = match &mut self.rd {
            Rd::ByteLE(r) => byte_step(r, m, op),
            Rd::ByteBE(r) => byte_step(r, m, op),
            Rd::Sample(r) => sample_step(r, m, op),
            Rd::Channel(r) => channel_step(r, m, op),
        };
        if R::FAULTY && !fired_before && (self.key()[0] >> 62) & 1 == 1 {
            // the injected read fault fired inside this operation. Reporting it is right; an operation that succeeds
            // regardless was checked against the cursor. Unless this very operation was a seek that succeeded, the position is
            // unspecified from here until the next successful seek.
            let seek_ok = matches!(&r, Ok(l) if l == "seek-ok");
            if !seek_ok {
                self.m.pos = None;
                self.m.resynced = false;
                self.m.faulted = true;
                self.m.fresh_fault = !matches!(op.split(':').next(), Some("seek" | "ss" | "sc" | "se"));
            }
            if let Err((c, _)) = &r {
                if c == "read-error" || c == "in-range-seek-failed" {
                    return Ok("injected-fault-reported".into());
                }
            }
        }
        if faulted_before && !fresh_before && !self.m.faulted {
            // a seek succeeded, but operations without a requested position came between the fault and it: the reader's own
            // notion of where it is was never re-established by the caller, so nothing is demanded for the rest of the history
            self.m.pos = None;
            self.m.faulted = true;
        }
        r
    }
}
