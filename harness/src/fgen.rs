//! Bit-level FLAC (RFC 9639) stream builder driven by an explicit specification.
//!
//! Generator half of the harness: produces VALID streams that use any syntactic alternative of the
//! frame grammar, and deliberately MALFORMED streams in which exactly the requested field is illegal
//! while all checksums stay correct. Written from the format rules only. std only, no unsafe.
//!
//! Every error string starts with "unbuildable: ".

use crate::refdec;

// ---------------------------------------------------------------------------------------------
// Specification
// ---------------------------------------------------------------------------------------------

#[derive(Clone, Debug, PartialEq)]
pub enum TotalSpec {
    Exact,
    Unknown,
    Value(u64),
}

#[derive(Clone, Debug, PartialEq)]
pub enum Md5Spec {
    Correct,
    Zero,
    Wrong,
}

#[derive(Clone, Debug, PartialEq)]
pub enum SeekSpec {
    None,
    EveryFrame,
    Placeholders(usize),
    EveryFramePlusPlaceholders(usize),
    /// one defined point whose sample and offset lie past the end
    BeyondEof,
}

#[derive(Clone, Debug, PartialEq)]
pub struct StreamSpec {
    pub channels: u8,
    pub bps: u8,
    pub rate: u32,
    pub total: TotalSpec,
    pub md5: Md5Spec,
    pub seek: SeekSpec,
    /// blocking strategy bit of every frame (coded number = first sample index when true)
    pub variable: bool,
    pub info_min_block: Option<u16>,
    pub info_max_block: Option<u16>,
    pub info_min_frame: Option<u32>,
    pub info_max_frame: Option<u32>,
    /// PADDING block of this many bytes after the other blocks
    pub padding: Option<usize>,
    pub frames: Vec<FrameSpec>,
}

#[derive(Clone, Debug, PartialEq)]
pub enum BsCoding {
    Auto,
    Bits8,
    Bits16,
}

#[derive(Clone, Debug, PartialEq)]
pub enum RateCoding {
    Auto,
    Streaminfo,
    KHz,
    Hz,
    DaHz,
}

#[derive(Clone, Debug, PartialEq)]
pub enum BpsCoding {
    Auto,
    Streaminfo,
}

#[derive(Clone, Debug, PartialEq)]
pub enum Assign {
    Independent,
    LeftSide,
    SideRight,
    MidSide,
}

#[derive(Clone, Debug, PartialEq)]
pub struct FrameSpec {
    pub pcm: Vec<Vec<i32>>,
    pub bs: BsCoding,
    pub rate: RateCoding,
    pub bps: BpsCoding,
    pub assign: Assign,
    pub number: Option<u64>,
    pub number_len: Option<usize>,
    pub subframes: Vec<SubSpec>,
    pub bad: FrameBad,
}

#[derive(Clone, Debug, PartialEq, Default)]
pub struct FrameBad {
    pub sync_flip: bool,
    pub reserved_bit: bool,
    pub bs_code: Option<u8>,
    pub bs_extra: Option<u32>,
    pub rate_code: Option<u8>,
    pub chan_code: Option<u8>,
    pub bps_code: Option<u8>,
    pub number_lead_ff: bool,
    pub number_bad_cont: bool,
    pub crc8_wrong: bool,
    pub crc16_wrong: bool,
    pub padding_ones: bool,
}

#[derive(Clone, Debug, PartialEq)]
pub enum SubKind {
    Verbatim,
    Constant,
    Fixed(u8),
    Lpc { order: u8, precision: u8, shift: u8, coefs: Vec<i32> },
}

#[derive(Clone, Debug, PartialEq)]
pub enum PartParam {
    Auto,
    Rice(u8),
    Escape(Option<u8>),
}

#[derive(Clone, Debug, PartialEq)]
pub struct ResSpec {
    pub method: u8,
    pub order: u8,
    pub params: Vec<PartParam>,
}

#[derive(Clone, Debug, PartialEq)]
pub struct SubSpec {
    pub kind: SubKind,
    pub wasted: u8,
    pub res: ResSpec,
    pub bad: SubBad,
}

#[derive(Clone, Debug, PartialEq, Default)]
pub struct SubBad {
    pub pad_bit: bool,
    pub type_code: Option<u8>,
    pub wasted_raw: Option<u32>,
    pub precision_raw: Option<u8>,
    pub shift_raw: Option<u8>,
    pub method_raw: Option<u8>,
    pub order_raw: Option<u8>,
    pub residual_force: Option<(usize, i64)>,
    /// malformed partitioning: write these partition lengths (one Rice parameter each) instead of the lengths the
    /// (valid) `res.order` implies; used together with `order_raw` to build frames that are self-consistent under a
    /// lenient reading of a partition order that does not divide the block size
    pub part_sizes: Option<Vec<usize>>,
}

#[derive(Clone, Debug, PartialEq)]
pub struct Built {
    pub bytes: Vec<u8>,
    pub first_frame_offset: usize,
    pub frame_offsets: Vec<(usize, usize)>,
    pub pcm: Vec<i32>,
    pub minimal_numbers: bool,
    pub any_bad: bool,
}

/// Longest unary run this builder is willing to emit.
pub const MAX_UNARY: u128 = 100_000;

pub fn plain_sub() -> SubSpec {
    SubSpec {
        kind: SubKind::Verbatim,
        wasted: 0,
        res: ResSpec { method: 0, order: 0, params: vec![PartParam::Auto] },
        bad: SubBad::default(),
    }
}

pub fn plain_frame(pcm: Vec<Vec<i32>>) -> FrameSpec {
    let nch = pcm.len();
    FrameSpec {
        pcm,
        bs: BsCoding::Auto,
        rate: RateCoding::Auto,
        bps: BpsCoding::Auto,
        assign: Assign::Independent,
        number: None,
        number_len: None,
        subframes: (0..nch).map(|_| plain_sub()).collect(),
        bad: FrameBad::default(),
    }
}

pub fn plain_stream(channels: u8, bps: u8, rate: u32, frames: Vec<FrameSpec>) -> StreamSpec {
    StreamSpec {
        channels,
        bps,
        rate,
        total: TotalSpec::Exact,
        md5: Md5Spec::Correct,
        seek: SeekSpec::None,
        variable: false,
        info_min_block: None,
        info_max_block: None,
        info_min_frame: None,
        info_max_frame: None,
        padding: None,
        frames,
    }
}

/// Does v fit a signed two's-complement number of `bits` bits? (0 bits holds only 0.)
pub fn fits(v: i64, bits: u32) -> bool {
    if bits == 0 {
        return v == 0;
    }
    if bits >= 64 {
        return true;
    }
    let half = 1i64 << (bits - 1);
    v >= -half && v < half
}

fn unb<T>(msg: String) -> Result<T, String> {
    Err(format!("unbuildable: {}", msg))
}

// ---------------------------------------------------------------------------------------------
// Bit writer (MSB first)
// ---------------------------------------------------------------------------------------------

struct BitW {
    buf: Vec<u8>,
    nbits: usize,
}

impl BitW {
    fn from_bytes(buf: Vec<u8>) -> BitW {
        let nbits = buf.len() * 8;
        BitW { buf, nbits }
    }

    /// Write the low n (0..=64) bits of v.
    fn put(&mut self, v: u64, n: u32) {
        let mut left = n.min(64);
        while left > 0 {
            let used = (self.nbits & 7) as u32;
            if used == 0 {
                self.buf.push(0);
            }
            let room = 8 - used;
            let take = room.min(left);
            let chunk = ((v >> (left - take)) & ((1u64 << take) - 1)) as u8;
            let last = self.buf.len() - 1;
            self.buf[last] |= chunk << (room - take);
            self.nbits += take as usize;
            left -= take;
        }
    }

    fn put_signed(&mut self, v: i64, n: u32) {
        self.put(v as u64, n);
    }

    fn zeros(&mut self, mut q: u64) {
        while q > 0 {
            let used = (self.nbits & 7) as u64;
            if used == 0 && q >= 8 {
                let nb = (q / 8) as usize;
                self.buf.resize(self.buf.len() + nb, 0);
                self.nbits += nb * 8;
                q -= nb as u64 * 8;
            } else {
                let take = (8 - used).min(q);
                self.put(0, take as u32);
                q -= take;
            }
        }
    }

    /// q zero bits then a 1 bit.
    fn unary(&mut self, q: u64) {
        self.zeros(q);
        self.put(1, 1);
    }

    fn align(&mut self, ones: bool) {
        let pad = ((8 - (self.nbits & 7)) & 7) as u32;
        if pad > 0 {
            self.put(if ones { (1u64 << pad) - 1 } else { 0 }, pad);
        }
    }
}

// ---------------------------------------------------------------------------------------------
// Header helpers
// ---------------------------------------------------------------------------------------------

/// Payload capacity (bits) of a coded number of 1..=7 bytes.
const NUM_CAP: [u32; 7] = [7, 11, 16, 21, 26, 31, 36];

/// Minimal byte length of the coded number v (v < 2^36), 1..=7.
pub fn minimal_number_len(v: u64) -> usize {
    for (i, &c) in NUM_CAP.iter().enumerate() {
        if v < (1u64 << c) {
            return i + 1;
        }
    }
    7
}

fn coded_number_bytes(v: u64, len: usize) -> Vec<u8> {
    if len <= 1 {
        return vec![(v & 0x7F) as u8];
    }
    let prefix: u8 = match len {
        2 => 0xC0,
        3 => 0xE0,
        4 => 0xF0,
        5 => 0xF8,
        6 => 0xFC,
        _ => 0xFE,
    };
    let lead_bits = 7 - len.min(7) as u32;
    let mut out = Vec::with_capacity(len);
    let top = (v >> (6 * (len as u32 - 1))) & ((1u64 << lead_bits) - 1);
    out.push(prefix | top as u8);
    for i in (0..len - 1).rev() {
        out.push(0x80 | ((v >> (6 * i as u32)) & 0x3F) as u8);
    }
    out
}

pub fn bs_fixed_code(n: u32) -> Option<u8> {
    Some(match n {
        192 => 1,
        576 => 2,
        1152 => 3,
        2304 => 4,
        4608 => 5,
        256 => 8,
        512 => 9,
        1024 => 10,
        2048 => 11,
        4096 => 12,
        8192 => 13,
        16384 => 14,
        32768 => 15,
        _ => return None,
    })
}

pub fn rate_fixed_code(rate: u32) -> Option<u8> {
    Some(match rate {
        88200 => 1,
        176400 => 2,
        192000 => 3,
        8000 => 4,
        16000 => 5,
        22050 => 6,
        24000 => 7,
        32000 => 8,
        44100 => 9,
        48000 => 10,
        96000 => 11,
        _ => return None,
    })
}

pub fn bps_fixed_code(bps: u8) -> Option<u8> {
    Some(match bps {
        8 => 1,
        12 => 2,
        16 => 4,
        20 => 5,
        24 => 6,
        32 => 7,
        _ => return None,
    })
}

fn khz_ok(rate: u32) -> bool {
    rate % 1000 == 0 && rate / 1000 <= 255
}
fn hz_ok(rate: u32) -> bool {
    rate <= 65535
}
fn dahz_ok(rate: u32) -> bool {
    rate % 10 == 0 && rate / 10 <= 65535
}

/// The rate code `RateCoding::Auto` resolves to.
pub fn rate_auto_code(rate: u32) -> u8 {
    if let Some(c) = rate_fixed_code(rate) {
        c
    } else if khz_ok(rate) {
        12
    } else if hz_ok(rate) {
        13
    } else if dahz_ok(rate) {
        14
    } else {
        0
    }
}

fn check_stream(spec: &StreamSpec) -> Result<(), String> {
    if spec.channels < 1 || spec.channels > 8 {
        return unb(format!("channels {} not in 1..=8", spec.channels));
    }
    if spec.bps < 1 || spec.bps > 32 {
        return unb(format!("bps {} not in 1..=32", spec.bps));
    }
    if spec.rate > 0xF_FFFF {
        return unb(format!("rate {} does not fit 20 bits", spec.rate));
    }
    Ok(())
}

// ---------------------------------------------------------------------------------------------
// Residual
// ---------------------------------------------------------------------------------------------

fn fold(v: i128) -> u128 {
    if v >= 0 { (v as u128) << 1 } else { (((-(v + 1)) as u128) << 1) | 1 }
}

/// Bits needed to hold v in two's complement (>= 1).
fn signed_width(v: i64) -> u32 {
    let m = if v >= 0 { v } else { !v };
    64 - m.leading_zeros() + 1
}

fn write_residual(
    w: &mut BitW,
    res: &[i64],
    forced: Option<usize>,
    n: usize,
    pred_order: usize,
    rs: &ResSpec,
    bad: &SubBad,
) -> Result<(), String> {
    if rs.method > 1 {
        return unb(format!("residual method {} (only 0 and 1 exist; use method_raw for reserved codes)", rs.method));
    }
    let (field, wide) = match bad.method_raw {
        Some(m) => (m & 3, (m & 3) != 0),
        None => (rs.method, rs.method == 1),
    };
    let (pbits, esc): (u32, u32) = if wide { (5, 31) } else { (4, 15) };
    let p = rs.order as u32;
    if p > 15 {
        return unb(format!("partition order illegal: {} > 15", p));
    }
    if n % (1usize << p) != 0 {
        return unb(format!("partition order illegal: block size {} not divisible by 2^{}", n, p));
    }
    let per = n >> p;
    if per < pred_order {
        return unb(format!("partition order illegal: partition length {} < predictor order {}", per, pred_order));
    }
    w.put(field as u64, 2);
    w.put((bad.order_raw.unwrap_or(rs.order) & 15) as u64, 4);

    let counts: Vec<usize> = match &bad.part_sizes {
        Some(v) => v.clone(),
        None => (0..(1usize << p)).map(|part| if part == 0 { per - pred_order } else { per }).collect(),
    };
    if counts.iter().sum::<usize>() != res.len() {
        return unb(format!("part_sizes sum to {} but there are {} residuals", counts.iter().sum::<usize>(), res.len()));
    }
    let mut start = 0usize;
    for (part, &count) in counts.iter().enumerate() {
        let vals = &res[start..start + count];
        let is_forced = |j: usize| forced == Some(start + j);
        let param = match rs.params.get(part) {
            Some(x) => x.clone(),
            None => rs.params.last().cloned().unwrap_or(PartParam::Auto),
        };
        let rice_k: Option<u32> = match param {
            PartParam::Auto => {
                let folded: Vec<u128> = vals.iter().map(|&v| fold(v as i128)).collect();
                let mut best: Option<(u128, u32)> = None;
                for k in 0..esc {
                    let mut bits = 0u128;
                    let mut ok = true;
                    for &u in &folded {
                        let q = u >> k;
                        if q > MAX_UNARY {
                            ok = false;
                            break;
                        }
                        bits += q + 1 + k as u128;
                    }
                    if ok && best.map_or(true, |(b, _)| bits < b) {
                        best = Some((bits, k));
                    }
                }
                match best {
                    Some((_, k)) => Some(k),
                    None => return unb(format!("partition {}: no Rice parameter below the escape code keeps the unary part <= {} bits", part, MAX_UNARY)),
                }
            }
            PartParam::Rice(k) => {
                if k as u32 >= esc {
                    return unb(format!("Rice parameter {} >= escape code {} of the method", k, esc));
                }
                Some(k as u32)
            }
            PartParam::Escape(_) => None,
        };
        if let Some(k) = rice_k {
            for &v in vals {
                if fold(v as i128) >> k > MAX_UNARY {
                    return unb(format!("partition {}: residual {} with Rice parameter {} needs a unary part > {} bits", part, v, k, MAX_UNARY));
                }
            }
            w.put(k as u64, pbits);
            for &v in vals {
                let u = fold(v as i128);
                w.unary((u >> k) as u64);
                w.put(u as u64, k);
            }
        } else if let PartParam::Escape(ew) = param {
            let width: u32 = match ew {
                Some(x) => {
                    if x > 31 {
                        return unb(format!("escape width {} > 31", x));
                    }
                    for (j, &v) in vals.iter().enumerate() {
                        if !fits(v, x as u32) && !is_forced(j) {
                            return unb(format!("partition {}: residual {} does not fit the escape width {}", part, v, x));
                        }
                    }
                    x as u32
                }
                None => {
                    let mut m = 0u32;
                    for (j, &v) in vals.iter().enumerate() {
                        if v == 0 {
                            continue;
                        }
                        let sw = signed_width(v);
                        if sw > 31 {
                            if is_forced(j) {
                                m = 31;
                                continue;
                            }
                            return unb(format!("partition {}: residual {} needs an escape width > 31", part, v));
                        }
                        m = m.max(sw);
                    }
                    m
                }
            };
            w.put(esc as u64, pbits);
            w.put(width as u64, 5);
            for &v in vals {
                w.put_signed(v, width);
            }
        }
        start += count;
    }
    Ok(())
}

// ---------------------------------------------------------------------------------------------
// Subframe
// ---------------------------------------------------------------------------------------------

const FIXED_COEFS: [&[i32]; 5] = [&[], &[1], &[2, -1], &[3, -3, 1], &[4, -6, 4, -1]];

fn write_subframe(w: &mut BitW, sub: &SubSpec, samples: &[i64], depth: u32, ch: usize) -> Result<(), String> {
    let n = samples.len();
    let bad = &sub.bad;
    w.put(bad.pad_bit as u64, 1);
    let type_code: u8 = match &sub.kind {
        SubKind::Constant => 0,
        SubKind::Verbatim => 1,
        SubKind::Fixed(o) => {
            if *o > 4 {
                return unb(format!("subframe {}: fixed predictor order {} > 4", ch, o));
            }
            8 + o
        }
        SubKind::Lpc { order, .. } => {
            if *order < 1 || *order > 32 {
                return unb(format!("subframe {}: LPC order {} not in 1..=32", ch, order));
            }
            32 + (order - 1)
        }
    };
    w.put((bad.type_code.unwrap_or(type_code) & 63) as u64, 6);

    // wasted bits
    let k = sub.wasted as u32;
    if k >= depth {
        return unb(format!("subframe {}: {} wasted bits leave an effective depth < 1 (subframe depth {})", ch, k, depth));
    }
    let eff = depth - k;
    let wasted_field = bad.wasted_raw.unwrap_or(k);
    if wasted_field as u128 > MAX_UNARY {
        return unb(format!("subframe {}: wasted_raw {} too long", ch, wasted_field));
    }
    if wasted_field == 0 {
        w.put(0, 1);
    } else {
        w.put(1, 1);
        w.unary(wasted_field as u64 - 1);
    }
    let low_mask: i64 = (1i64 << k) - 1;
    let mut s: Vec<i64> = Vec::with_capacity(n);
    for (i, &v) in samples.iter().enumerate() {
        if v & low_mask != 0 {
            return unb(format!("subframe {}: sample {} = {} has a non-zero bit among the {} wasted bits", ch, i, v, k));
        }
        let st = v >> k;
        if !fits(st, eff) {
            return unb(format!("subframe {}: stored sample {} = {} does not fit the effective depth {}", ch, i, st, eff));
        }
        s.push(st);
    }

    match &sub.kind {
        SubKind::Constant => {
            if s.iter().any(|&v| v != s[0]) {
                return unb(format!("subframe {}: Constant with a non-constant target", ch));
            }
            w.put_signed(s[0], eff);
        }
        SubKind::Verbatim => {
            for &v in &s {
                w.put_signed(v, eff);
            }
        }
        SubKind::Fixed(_) | SubKind::Lpc { .. } => {
            let (order, coefs, shift, lpc): (usize, Vec<i32>, u32, Option<(u8, u8)>) = match &sub.kind {
                SubKind::Fixed(o) => (*o as usize, FIXED_COEFS[*o as usize].to_vec(), 0, None),
                SubKind::Lpc { order, precision, shift, coefs } => {
                    if *precision < 1 || *precision > 15 {
                        return unb(format!("subframe {}: LPC precision {} not in 1..=15", ch, precision));
                    }
                    if *shift > 15 {
                        return unb(format!("subframe {}: LPC shift {} > 15 would read back negative from the 5-bit signed field (use shift_raw)", ch, shift));
                    }
                    if coefs.len() != *order as usize {
                        return unb(format!("subframe {}: {} coefficients for LPC order {}", ch, coefs.len(), order));
                    }
                    if let Some(c) = coefs.iter().find(|&&c| !fits(c as i64, *precision as u32)) {
                        return unb(format!("subframe {}: LPC coefficient {} does not fit precision {}", ch, c, precision));
                    }
                    (*order as usize, coefs.clone(), *shift as u32, Some((*precision, *shift)))
                }
                _ => (0, Vec::new(), 0, None),
            };
            if order > n {
                return unb(format!("subframe {}: predictor order {} > block size {}", ch, order, n));
            }
            for &v in &s[..order] {
                w.put_signed(v, eff);
            }
            if let Some((precision, sh)) = lpc {
                w.put((bad.precision_raw.unwrap_or(precision - 1) & 15) as u64, 4);
                w.put((bad.shift_raw.unwrap_or(sh) & 31) as u64, 5);
                for &c in &coefs {
                    w.put_signed(c as i64, precision as u32);
                }
            }
            let mut res: Vec<i64> = Vec::with_capacity(n - order);
            for i in order..n {
                let mut sum: i128 = 0;
                for (j, &c) in coefs.iter().enumerate() {
                    sum += c as i128 * s[i - 1 - j] as i128;
                }
                let pred = sum >> shift;
                let r = s[i] as i128 - pred;
                if r <= -(1i128 << 31) || r > (1i128 << 31) - 1 {
                    return unb(format!("subframe {}: residual {} at sample {} outside (-2^31, 2^31-1]", ch, r, i));
                }
                res.push(r as i64);
            }
            let mut forced = None;
            if let Some((idx, v)) = bad.residual_force {
                if idx >= res.len() {
                    return unb(format!("subframe {}: residual_force index {} >= residual count {}", ch, idx, res.len()));
                }
                res[idx] = v;
                forced = Some(idx);
            }
            write_residual(w, &res, forced, n, order, &sub.res, bad)?;
        }
    }
    Ok(())
}

// ---------------------------------------------------------------------------------------------
// Frame
// ---------------------------------------------------------------------------------------------

/// Frame bytes and the header length (incl. CRC-8).
pub fn build_frame_ex(spec: &StreamSpec, index: usize, first_sample: u64) -> Result<(Vec<u8>, usize), String> {
    check_stream(spec)?;
    let fs = match spec.frames.get(index) {
        Some(f) => f,
        None => return unb(format!("no frame {} in a spec with {} frames", index, spec.frames.len())),
    };
    let nch = spec.channels as usize;
    let bps = spec.bps as u32;
    if fs.pcm.len() != nch {
        return unb(format!("frame {}: pcm has {} channels, stream has {}", index, fs.pcm.len(), nch));
    }
    let n = fs.pcm[0].len();
    if n == 0 || n > 65535 {
        return unb(format!("frame {}: block size {} not in 1..=65535", index, n));
    }
    if fs.pcm.iter().any(|c| c.len() != n) {
        return unb(format!("frame {}: channels differ in length", index));
    }
    if fs.subframes.len() != nch {
        return unb(format!("frame {}: {} subframe specs for {} channels", index, fs.subframes.len(), nch));
    }
    for (c, chan) in fs.pcm.iter().enumerate() {
        if let Some(i) = chan.iter().position(|&v| !fits(v as i64, bps)) {
            return unb(format!("frame {}: channel {} sample {} = {} does not fit {} bits", index, c, i, chan[i], bps));
        }
    }
    let b = &fs.bad;
    let assign = if b.chan_code.is_some() { Assign::Independent } else { fs.assign.clone() };
    if assign != Assign::Independent && nch != 2 {
        return unb(format!("frame {}: {:?} needs exactly 2 channels, stream has {}", index, assign, nch));
    }

    // --- header ---
    let mut h: Vec<u8> = Vec::with_capacity(16);
    let sync15: u16 = 0b111_1111_1111_1100 ^ (b.sync_flip as u16);
    let w16 = (sync15 << 1) | spec.variable as u16;
    h.push((w16 >> 8) as u8);
    h.push(w16 as u8);

    let n32 = n as u32;
    let bs_code: u8 = match b.bs_code {
        Some(c) => c & 15,
        None => match fs.bs {
            BsCoding::Auto => bs_fixed_code(n32).unwrap_or(if n32 <= 256 { 6 } else { 7 }),
            BsCoding::Bits8 => {
                if n32 > 256 {
                    return unb(format!("frame {}: block size {} cannot be coded in 8 bits", index, n32));
                }
                6
            }
            BsCoding::Bits16 => 7,
        },
    };
    let bs_field = b.bs_extra.unwrap_or(n32 - 1);

    let rate = spec.rate;
    let rate_code: u8 = match b.rate_code {
        Some(c) => c & 15,
        None => match fs.rate {
            RateCoding::Auto => rate_auto_code(rate),
            RateCoding::Streaminfo => 0,
            RateCoding::KHz => {
                if !khz_ok(rate) {
                    return unb(format!("frame {}: rate {} cannot be coded in kHz", index, rate));
                }
                12
            }
            RateCoding::Hz => {
                if !hz_ok(rate) {
                    return unb(format!("frame {}: rate {} cannot be coded in 16-bit Hz", index, rate));
                }
                13
            }
            RateCoding::DaHz => {
                if !dahz_ok(rate) {
                    return unb(format!("frame {}: rate {} cannot be coded in 16-bit daHz", index, rate));
                }
                14
            }
        },
    };
    h.push((bs_code << 4) | rate_code);

    let chan_code: u8 = match b.chan_code {
        Some(c) => c & 15,
        None => match assign {
            Assign::Independent => spec.channels - 1,
            Assign::LeftSide => 8,
            Assign::SideRight => 9,
            Assign::MidSide => 10,
        },
    };
    let bps_code: u8 = match b.bps_code {
        Some(c) => c & 7,
        None => match fs.bps {
            BpsCoding::Auto => bps_fixed_code(spec.bps).unwrap_or(0),
            BpsCoding::Streaminfo => 0,
        },
    };
    h.push((chan_code << 4) | (bps_code << 1) | b.reserved_bit as u8);

    let number = fs.number.unwrap_or(if spec.variable { first_sample } else { index as u64 });
    if number >= (1u64 << 36) {
        return unb(format!("frame {}: coded number {} does not fit 36 bits", index, number));
    }
    let min_len = minimal_number_len(number);
    let mut num_len = match fs.number_len {
        None => min_len,
        Some(k) => {
            if !(1..=7).contains(&k) {
                return unb(format!("frame {}: number_len {} not in 1..=7", index, k));
            }
            if k < min_len {
                return unb(format!("frame {}: coded number {} does not fit {} bytes", index, number, k));
            }
            k
        }
    };
    if b.number_bad_cont && num_len < 2 {
        num_len = 2;
    }
    let mut nb = coded_number_bytes(number, num_len);
    if b.number_bad_cont {
        nb[1] |= 0xC0;
    }
    if b.number_lead_ff {
        nb[0] = 0xFF;
    }
    h.extend_from_slice(&nb);

    match bs_code {
        6 => h.push(bs_field as u8),
        7 => {
            h.push((bs_field >> 8) as u8);
            h.push(bs_field as u8);
        }
        _ => {}
    }
    match rate_code {
        12 => h.push((rate / 1000) as u8),
        13 => {
            h.push((rate >> 8) as u8);
            h.push(rate as u8);
        }
        14 => {
            let v = rate / 10;
            h.push((v >> 8) as u8);
            h.push(v as u8);
        }
        _ => {}
    }
    let mut c8 = refdec::crc8(&h);
    if b.crc8_wrong {
        c8 ^= 0xA5;
    }
    h.push(c8);
    let header_len = h.len();

    // --- channel transformation ---
    let to64 = |c: &Vec<i32>| -> Vec<i64> { c.iter().map(|&v| v as i64).collect() };
    let mut chans: Vec<(Vec<i64>, u32)> = Vec::with_capacity(nch);
    match assign {
        Assign::Independent => {
            for c in &fs.pcm {
                chans.push((to64(c), bps));
            }
        }
        _ => {
            let (l, r) = (to64(&fs.pcm[0]), to64(&fs.pcm[1]));
            let side: Vec<i64> = (0..n).map(|i| l[i] - r[i]).collect();
            match assign {
                Assign::LeftSide => {
                    chans.push((l, bps));
                    chans.push((side, bps + 1));
                }
                Assign::SideRight => {
                    chans.push((side, bps + 1));
                    chans.push((r, bps));
                }
                _ => {
                    let mid: Vec<i64> = (0..n).map(|i| (l[i] + r[i]) >> 1).collect();
                    chans.push((mid, bps));
                    chans.push((side, bps + 1));
                }
            }
        }
    }

    // --- subframes, footer ---
    let mut w = BitW::from_bytes(h);
    for (c, (samples, depth)) in chans.iter().enumerate() {
        write_subframe(&mut w, &fs.subframes[c], samples, *depth, c).map_err(|e| format!("{} (frame {})", e, index))?;
    }
    w.align(b.padding_ones);
    let mut out = w.buf;
    let mut c16 = refdec::crc16(&out);
    if b.crc16_wrong {
        c16 ^= 0x5A5A;
    }
    out.extend_from_slice(&c16.to_be_bytes());
    Ok((out, header_len))
}

pub fn build_frame(spec: &StreamSpec, index: usize, first_sample: u64) -> Result<Vec<u8>, String> {
    build_frame_ex(spec, index, first_sample).map(|(b, _)| b)
}

// ---------------------------------------------------------------------------------------------
// Stream
// ---------------------------------------------------------------------------------------------

fn frame_has_bad(fs: &FrameSpec) -> bool {
    fs.bad != FrameBad::default() || fs.subframes.iter().any(|s| s.bad != SubBad::default())
}

pub fn build(spec: &StreamSpec) -> Result<Built, String> {
    check_stream(spec)?;
    if spec.frames.is_empty() {
        return unb("no frames".to_string());
    }
    let nch = spec.channels as usize;

    // frames first (seek table offsets are relative to the first frame)
    let mut frame_bytes: Vec<Vec<u8>> = Vec::with_capacity(spec.frames.len());
    let mut starts: Vec<u64> = Vec::with_capacity(spec.frames.len());
    let mut sizes: Vec<u32> = Vec::with_capacity(spec.frames.len());
    let mut pcm: Vec<i32> = Vec::new();
    let mut running = 0u64;
    let mut minimal_numbers = true;
    let mut any_bad = spec.bps < 4;
    for (i, fs) in spec.frames.iter().enumerate() {
        let fb = build_frame(spec, i, running)?;
        let n = fs.pcm[0].len();
        for s in 0..n {
            for c in 0..nch {
                pcm.push(fs.pcm[c][s]);
            }
        }
        let correct = if spec.variable { running } else { i as u64 };
        let number = fs.number.unwrap_or(correct);
        if number != correct {
            any_bad = true;
        }
        if fs.bad.number_lead_ff || fs.bad.number_bad_cont {
            minimal_numbers = false;
        }
        if let Some(k) = fs.number_len {
            if k != minimal_number_len(number) {
                minimal_numbers = false;
            }
        }
        if frame_has_bad(fs) {
            any_bad = true;
        }
        starts.push(running);
        sizes.push(n as u32);
        running += n as u64;
        frame_bytes.push(fb);
    }
    let total_samples = running;
    let frames_len: usize = frame_bytes.iter().map(|f| f.len()).sum();

    // --- STREAMINFO ---
    let (true_min_block, true_max_block): (u32, u32) = if spec.variable {
        let body = if sizes.len() > 1 { &sizes[..sizes.len() - 1] } else { &sizes[..] };
        (*body.iter().min().unwrap_or(&sizes[0]), *sizes.iter().max().unwrap_or(&sizes[0]))
    } else {
        (sizes[0], sizes[0])
    };
    let true_min_frame = frame_bytes.iter().map(|f| f.len()).min().unwrap_or(0);
    let true_max_frame = frame_bytes.iter().map(|f| f.len()).max().unwrap_or(0);
    if true_max_frame > 0xFF_FFFF {
        return unb(format!("frame of {} bytes does not fit the 24-bit STREAMINFO field", true_max_frame));
    }
    let min_block = spec.info_min_block.unwrap_or(true_min_block as u16);
    let max_block = spec.info_max_block.unwrap_or(true_max_block as u16);
    let min_frame = spec.info_min_frame.unwrap_or(true_min_frame as u32) & 0xFF_FFFF;
    let max_frame = spec.info_max_frame.unwrap_or(true_max_frame as u32) & 0xFF_FFFF;
    if min_block as u32 != true_min_block
        || max_block as u32 != true_max_block
        || min_frame as usize != true_min_frame
        || max_frame as usize != true_max_frame
    {
        any_bad = true;
    }
    let total_field: u64 = match spec.total {
        TotalSpec::Exact => {
            if total_samples >= (1u64 << 36) {
                return unb("total sample count does not fit 36 bits".to_string());
            }
            total_samples
        }
        TotalSpec::Unknown => 0,
        TotalSpec::Value(v) => {
            let v = v & ((1u64 << 36) - 1);
            if v != total_samples {
                any_bad = true;
            }
            v
        }
    };
    let md5: [u8; 16] = match spec.md5 {
        Md5Spec::Correct => refdec::pcm_md5(&pcm, spec.bps),
        Md5Spec::Zero => [0u8; 16],
        Md5Spec::Wrong => {
            any_bad = true;
            let mut m = refdec::pcm_md5(&pcm, spec.bps);
            m[0] ^= 0xFF;
            if m == [0u8; 16] {
                m[15] = 1;
            }
            m
        }
    };
    let mut si: Vec<u8> = Vec::with_capacity(34);
    si.extend_from_slice(&min_block.to_be_bytes());
    si.extend_from_slice(&max_block.to_be_bytes());
    si.extend_from_slice(&min_frame.to_be_bytes()[1..]);
    si.extend_from_slice(&max_frame.to_be_bytes()[1..]);
    let packed: u64 = ((spec.rate as u64) << 44) | (((spec.channels - 1) as u64) << 41) | (((spec.bps - 1) as u64) << 36) | total_field;
    si.extend_from_slice(&packed.to_be_bytes());
    si.extend_from_slice(&md5);

    let mut blocks: Vec<(u8, Vec<u8>)> = vec![(0, si)];

    // --- SEEKTABLE ---
    let point = |sample: u64, offset: u64, cnt: u16| -> Vec<u8> {
        let mut p = Vec::with_capacity(18);
        p.extend_from_slice(&sample.to_be_bytes());
        p.extend_from_slice(&offset.to_be_bytes());
        p.extend_from_slice(&cnt.to_be_bytes());
        p
    };
    let frame_points = || -> Vec<u8> {
        let mut body = Vec::new();
        let mut off = 0u64;
        for (i, fb) in frame_bytes.iter().enumerate() {
            body.extend_from_slice(&point(starts[i], off, sizes[i] as u16));
            off += fb.len() as u64;
        }
        body
    };
    let placeholders = |k: usize| -> Result<Vec<u8>, String> {
        if k > 0xFF_FFFF / 18 {
            return unb(format!("{} seek points do not fit a metadata block", k));
        }
        let mut body = Vec::with_capacity(k * 18);
        for _ in 0..k {
            body.extend_from_slice(&point(u64::MAX, 0, 0));
        }
        Ok(body)
    };
    let seek_body: Option<Vec<u8>> = match spec.seek {
        SeekSpec::None => None,
        SeekSpec::EveryFrame => Some(frame_points()),
        SeekSpec::Placeholders(k) => Some(placeholders(k)?),
        SeekSpec::EveryFramePlusPlaceholders(k) => {
            let mut b = frame_points();
            b.extend_from_slice(&placeholders(k)?);
            Some(b)
        }
        SeekSpec::BeyondEof => {
            any_bad = true;
            Some(point(total_samples + sizes[0] as u64, frames_len as u64 + 4096, sizes[0] as u16))
        }
    };
    if let Some(b) = seek_body {
        if b.len() > 0xFF_FFFF {
            return unb(format!("seek table of {} bytes does not fit a metadata block", b.len()));
        }
        blocks.push((3, b));
    }
    if let Some(k) = spec.padding {
        if k > 0xFF_FFFF {
            return unb(format!("padding of {} bytes does not fit a metadata block", k));
        }
        blocks.push((1, vec![0u8; k]));
    }

    // --- assemble ---
    let mut bytes: Vec<u8> = b"fLaC".to_vec();
    let nblocks = blocks.len();
    for (i, (t, body)) in blocks.iter().enumerate() {
        bytes.push(if i + 1 == nblocks { 0x80 | t } else { *t });
        bytes.extend_from_slice(&(body.len() as u32).to_be_bytes()[1..]);
        bytes.extend_from_slice(body);
    }
    let first_frame_offset = bytes.len();
    let mut frame_offsets = Vec::with_capacity(frame_bytes.len());
    for fb in &frame_bytes {
        frame_offsets.push((bytes.len(), fb.len()));
        bytes.extend_from_slice(fb);
    }
    Ok(Built { bytes, first_frame_offset, frame_offsets, pcm, minimal_numbers, any_bad })
}

// ---------------------------------------------------------------------------------------------
// Tests
// ---------------------------------------------------------------------------------------------

#[cfg(test)]
mod tests {
    use super::*;
    use std::collections::BTreeMap;

    // ---- helpers -------------------------------------------------------------------------

    fn lcg(seed: &mut u64) -> u64 {
        *seed = seed.wrapping_mul(6364136223846793005).wrapping_add(1442695040888963407);
        *seed >> 24
    }

    /// n samples fitting `bits` (1..=32) bits, then shifted left by z (bits + z <= 32).
    /// kinds: 0 zero, 1 max, 2 min, 3 alternating max/min, 4 ramp, 5 full noise, 6 small noise, 7 small constant.
    fn signal(kind: u32, n: usize, bits: u32, z: u32, seed: &mut u64) -> Vec<i32> {
        let max: i64 = (1i64 << (bits - 1)) - 1;
        let min: i64 = -(1i64 << (bits - 1));
        (0..n)
            .map(|i| {
                let v: i64 = match kind {
                    0 => 0,
                    1 => max,
                    2 => min,
                    3 => if i % 2 == 0 { max } else { min },
                    4 => min + ((max - min) * i as i64) / (n.max(2) - 1) as i64,
                    5 => min + (lcg(seed) % ((max - min + 1) as u64)) as i64,
                    6 => ((lcg(seed) % 15) as i64 - 7).clamp(min, max),
                    _ => 5i64.clamp(min, max),
                };
                (v << z) as i32
            })
            .collect()
    }
    const CONST_SIGS: [u32; 4] = [0, 1, 2, 7];

    fn sub(kind: SubKind, wasted: u8, method: u8, order: u8, param: PartParam) -> SubSpec {
        SubSpec { kind, wasted, res: ResSpec { method, order, params: vec![param] }, bad: SubBad::default() }
    }

    fn lpc_kind(order: u8, precision: u8, shift: u8, set: u32) -> SubKind {
        let o = order as usize;
        let mut coefs = vec![0i32; o];
        match set {
            0 => coefs[0] = 1,
            1 => {
                if o >= 2 && precision >= 3 {
                    coefs[0] = 2;
                    coefs[1] = -1;
                } else if o >= 2 {
                    coefs[0] = 1;
                    coefs[1] = -1;
                } else {
                    coefs[0] = 1;
                }
            }
            _ => {
                let m = (1i32 << (precision - 1)) - 1;
                for (j, c) in coefs.iter_mut().enumerate() {
                    *c = if j % 2 == 0 { m } else { -m };
                }
            }
        }
        SubKind::Lpc { order, precision, shift, coefs }
    }

    fn expected_chan_code(spec: &StreamSpec, fs: &FrameSpec) -> u8 {
        match fs.assign {
            Assign::Independent => spec.channels - 1,
            Assign::LeftSide => 8,
            Assign::SideRight => 9,
            Assign::MidSide => 10,
        }
    }

    /// A VALID build must decode in refdec to the target, and refdec must see exactly the requested structure.
    fn verify_valid(spec: &StreamSpec, b: &Built) {
        let st = match refdec::decode(&b.bytes) {
            Ok(s) => s,
            Err(r) => panic!("refdec rejected a valid build: {:?}\nspec: {:?}", r, spec),
        };
        assert!(st.pcm == b.pcm, "pcm mismatch\nspec: {:?}", spec);
        assert_eq!(st.first_frame_offset, b.first_frame_offset);
        assert_eq!(st.frames.len(), spec.frames.len(), "frame count; spec: {:?}", spec);
        assert_eq!(st.end_offset, b.bytes.len());
        let mut running = 0u64;
        for (i, (f, fs)) in st.frames.iter().zip(spec.frames.iter()).enumerate() {
            let ctx = || format!("frame {} spec {:?}", i, spec);
            assert_eq!((f.offset, f.len), b.frame_offsets[i], "{}", ctx());
            assert_eq!(f.variable, spec.variable, "{}", ctx());
            assert!(f.padding_zero, "{}", ctx());
            assert_eq!(f.chan_code, expected_chan_code(spec, fs), "{}", ctx());
            let n = fs.pcm[0].len() as u32;
            assert_eq!(f.block_size, n, "{}", ctx());
            let exp_bs = match fs.bs {
                BsCoding::Auto => bs_fixed_code(n).unwrap_or(if n <= 256 { 6 } else { 7 }),
                BsCoding::Bits8 => 6,
                BsCoding::Bits16 => 7,
            };
            assert_eq!(f.bs_code, exp_bs, "{}", ctx());
            let exp_rate = match fs.rate {
                RateCoding::Auto => rate_auto_code(spec.rate),
                RateCoding::Streaminfo => 0,
                RateCoding::KHz => 12,
                RateCoding::Hz => 13,
                RateCoding::DaHz => 14,
            };
            assert_eq!(f.rate_code, exp_rate, "{}", ctx());
            assert_eq!(f.rate, spec.rate, "{}", ctx());
            let exp_bps = match fs.bps {
                BpsCoding::Auto => bps_fixed_code(spec.bps).unwrap_or(0),
                BpsCoding::Streaminfo => 0,
            };
            assert_eq!(f.bps_code, exp_bps, "{}", ctx());
            let correct = if spec.variable { running } else { i as u64 };
            let number = fs.number.unwrap_or(correct);
            assert_eq!(f.coded_number, number, "{}", ctx());
            assert_eq!(f.coded_number_len, fs.number_len.unwrap_or(minimal_number_len(number)), "{}", ctx());
            for (c, (sf, ss)) in f.subframes.iter().zip(fs.subframes.iter()).enumerate() {
                let sctx = || format!("subframe {} {}", c, ctx());
                let exp_kind = match &ss.kind {
                    SubKind::Verbatim => refdec::SubKind::Verbatim,
                    SubKind::Constant => refdec::SubKind::Constant,
                    SubKind::Fixed(o) => refdec::SubKind::Fixed(*o),
                    SubKind::Lpc { order, .. } => refdec::SubKind::Lpc(*order),
                };
                assert_eq!(sf.kind, exp_kind, "{}", sctx());
                assert_eq!(sf.wasted, ss.wasted, "{}", sctx());
                if let SubKind::Lpc { precision, shift, coefs, .. } = &ss.kind {
                    assert_eq!(sf.precision, *precision, "{}", sctx());
                    assert_eq!(sf.shift, *shift as i8, "{}", sctx());
                    assert_eq!(&sf.coefs, coefs, "{}", sctx());
                }
                if matches!(ss.kind, SubKind::Fixed(_) | SubKind::Lpc { .. }) {
                    assert_eq!(sf.method, Some(ss.res.method), "{}", sctx());
                    assert_eq!(sf.partition_order, Some(ss.res.order), "{}", sctx());
                    assert_eq!(sf.partitions.len(), 1usize << ss.res.order, "{}", sctx());
                    for (pi, p) in sf.partitions.iter().enumerate() {
                        let pp = ss.res.params.get(pi).or(ss.res.params.last()).cloned().unwrap_or(PartParam::Auto);
                        match pp {
                            PartParam::Auto => assert!(!p.escaped, "{}", sctx()),
                            PartParam::Rice(k) => assert!(!p.escaped && p.param == k, "{}", sctx()),
                            PartParam::Escape(Some(w)) => assert!(p.escaped && p.param == w, "{}", sctx()),
                            PartParam::Escape(None) => assert!(p.escaped, "{}", sctx()),
                        }
                    }
                } else {
                    assert_eq!(sf.method, None, "{}", sctx());
                }
            }
            running += n as u64;
        }
    }

    /// Build; Err must be "unbuildable: ..."; Ok must verify. Returns whether it was built.
    fn try_valid(spec: &StreamSpec) -> bool {
        match build(spec) {
            Err(e) => {
                assert!(e.starts_with("unbuildable: "), "{}", e);
                false
            }
            Ok(b) => {
                assert!(!b.any_bad);
                verify_valid(spec, &b);
                true
            }
        }
    }

    fn check_crcs(spec: &StreamSpec, b: &Built) {
        let mut running = 0u64;
        for (i, &(off, len)) in b.frame_offsets.iter().enumerate() {
            let fr = &b.bytes[off..off + len];
            let (fb, hl) = build_frame_ex(spec, i, running).unwrap();
            assert_eq!(fr, &fb[..]);
            let bad = &spec.frames[i].bad;
            let c8 = refdec::crc8(&fr[..hl - 1]);
            assert_eq!(fr[hl - 1] == c8, !bad.crc8_wrong, "crc8 frame {}", i);
            let c16 = refdec::crc16(&fr[..len - 2]);
            let stored = u16::from_be_bytes([fr[len - 2], fr[len - 1]]);
            assert_eq!(stored == c16, !bad.crc16_wrong, "crc16 frame {}", i);
            running += spec.frames[i].pcm[0].len() as u64;
        }
    }

    // ---- unit checks ---------------------------------------------------------------------

    #[test]
    fn fgen_bitwriter_and_numbers() {
        let mut w = BitW::from_bytes(Vec::new());
        w.put(0b101, 3);
        w.unary(12);
        w.put_signed(-1, 4);
        w.put_signed(-1, 33);
        w.put(0, 0);
        w.align(true);
        assert_eq!(w.nbits % 8, 0);
        assert_eq!(w.buf[0], 0b1010_0000);
        assert_eq!(w.buf[1], 0b0000_0001);
        assert_eq!(w.buf[2], 0xFF);
        let mut w = BitW::from_bytes(Vec::new());
        w.put(u64::MAX, 64);
        w.put(0xA5, 8);
        assert_eq!(w.buf, vec![0xFF, 0xFF, 0xFF, 0xFF, 0xFF, 0xFF, 0xFF, 0xFF, 0xA5]);
        let mut w = BitW::from_bytes(Vec::new());
        w.put(1, 1);
        w.unary(100_000);
        assert_eq!(w.nbits, 100_002);
        assert_eq!(w.buf.iter().filter(|&&b| b != 0).count(), 2);

        assert_eq!(coded_number_bytes(0, 1), vec![0]);
        assert_eq!(coded_number_bytes(127, 1), vec![0x7F]);
        assert_eq!(coded_number_bytes(128, 2), vec![0xC2, 0x80]);
        assert_eq!(coded_number_bytes(0, 2), vec![0xC0, 0x80]);
        assert_eq!(coded_number_bytes(0x800, 3), vec![0xE0, 0xA0, 0x80]);
        assert_eq!(coded_number_bytes((1 << 36) - 1, 7), vec![0xFE, 0xBF, 0xBF, 0xBF, 0xBF, 0xBF, 0xBF]);
        assert_eq!(coded_number_bytes((1 << 31) - 1, 6), vec![0xFD, 0xBF, 0xBF, 0xBF, 0xBF, 0xBF]);
        assert_eq!(minimal_number_len(127), 1);
        assert_eq!(minimal_number_len(128), 2);
        assert_eq!(minimal_number_len((1 << 31) - 1), 6);
        assert_eq!(minimal_number_len(1 << 31), 7);
        assert!(fits(-1, 1) && fits(0, 1) && !fits(1, 1) && fits(0, 0) && !fits(-1, 0));
        assert!(fits(-(1 << 32), 33) && !fits(1 << 32, 33) && fits(i64::MIN, 64));
        assert_eq!(fold(0), 0);
        assert_eq!(fold(-1), 1);
        assert_eq!(fold(1), 2);
        assert_eq!(fold(-2147483648), (1u128 << 32) - 1);
        assert_eq!(signed_width(0), 1);
        assert_eq!(signed_width(-1), 1);
        assert_eq!(signed_width(1), 2);
        assert_eq!(signed_width(-2), 2);
        assert_eq!(signed_width((1 << 30) - 1), 31);
        assert_eq!(signed_width(1 << 30), 32);
    }

    // ---- test 2: plain streams are strictly conformant -------------------------------------

    #[test]
    fn fgen_plain_streams_validate_clean() {
        let mut seed = 7u64;
        let mut count = 0usize;
        for &bps in &[4u8, 8, 12, 16, 20, 24, 32] {
            for &ch in &[1u8, 2, 3, 8] {
                for &(n, last) in &[(16usize, 16usize), (17, 5), (192, 191), (256, 1), (4096, 1000), (1000, 1000)] {
                    for kindsel in 0..5u32 {
                        for &rate in &[44100u32, 48000, 8000, 12345, 1000, 655350, 700001] {
                            if (kindsel + rate + n as u32 + bps as u32 + ch as u32) % 3 != 0 && n > 256 {
                                continue; // thin out the big ones
                            }
                            let sizes = [n, n, last];
                            let mut frames = Vec::new();
                            for &sz in &sizes {
                                let sig = if kindsel == 4 { 6 } else { 4 + (lcg(&mut seed) % 3) as u32 };
                                let pcm: Vec<Vec<i32>> = (0..ch).map(|_| signal(sig, sz, bps as u32, 0, &mut seed)).collect();
                                let mut f = plain_frame(pcm);
                                for s in f.subframes.iter_mut() {
                                    s.kind = match kindsel {
                                        0 => SubKind::Verbatim,
                                        1 => SubKind::Fixed(0),
                                        2 => SubKind::Fixed(if sz > 2 { 2 } else { 0 }),
                                        3 => SubKind::Fixed(if sz > 4 { 4 } else { 0 }),
                                        _ => if sz > 8 { lpc_kind(8, 12, 9, 1) } else { SubKind::Verbatim },
                                    };
                                    if bps == 32 && kindsel != 0 && kindsel != 4 {
                                        s.kind = SubKind::Verbatim; // full-scale 32-bit residuals do not fit
                                    }
                                }
                                frames.push(f);
                            }
                            let mut spec = plain_stream(ch, bps, rate, frames);
                            match count % 4 {
                                1 => spec.seek = SeekSpec::EveryFrame,
                                2 => spec.seek = SeekSpec::EveryFramePlusPlaceholders(3),
                                3 => {
                                    spec.seek = SeekSpec::Placeholders(2);
                                    spec.padding = Some(17);
                                }
                                _ => {}
                            }
                            let b = build(&spec).unwrap_or_else(|e| panic!("{} for bps {} ch {} n {} kind {}", e, bps, ch, n, kindsel));
                            assert!(!b.any_bad && b.minimal_numbers);
                            verify_valid(&spec, &b);
                            check_crcs(&spec, &b);
                            let (st, v) = refdec::validate(&b.bytes);
                            assert!(st.is_some());
                            assert!(v.is_empty(), "violations {:?} for bps {} ch {} n {} kind {} rate {}", v, bps, ch, n, kindsel, rate);
                            count += 1;
                        }
                    }
                }
            }
        }
        println!("fgen test2: {} plain streams validated clean", count);
        assert!(count > 1000);

        // variable blocking with true sample numbers and varying sizes is clean too
        let sizes = [4096usize, 16, 1152, 100, 3];
        let frames: Vec<FrameSpec> = sizes.iter().map(|&sz| plain_frame(vec![signal(5, sz, 16, 0, &mut seed), signal(4, sz, 16, 0, &mut seed)])).collect();
        let mut spec = plain_stream(2, 16, 44100, frames);
        spec.variable = true;
        spec.seek = SeekSpec::EveryFrame;
        let b = build(&spec).unwrap();
        verify_valid(&spec, &b);
        let (_, v) = refdec::validate(&b.bytes);
        assert!(v.is_empty(), "{:?}", v);
        let st = refdec::decode(&b.bytes).unwrap();
        assert_eq!((st.info.min_block, st.info.max_block), (16, 4096));
    }

    // ---- stream-level deviations ------------------------------------------------------------

    #[test]
    fn fgen_stream_level_specs() {
        let mut seed = 99u64;
        let mk = |seed: &mut u64| {
            let frames: Vec<FrameSpec> = [64usize, 64, 10].iter().map(|&sz| plain_frame(vec![signal(5, sz, 16, 0, seed)])).collect();
            plain_stream(1, 16, 44100, frames)
        };
        let has = |v: &Vec<String>, needle: &str| v.iter().any(|s| s.contains(needle));

        let mut s = mk(&mut seed);
        s.total = TotalSpec::Unknown;
        let b = build(&s).unwrap();
        assert!(!b.any_bad);
        verify_valid(&s, &b);
        assert!(has(&refdec::validate(&b.bytes).1, "total-unknown"));

        let mut s = mk(&mut seed);
        s.total = TotalSpec::Value(138);
        let b = build(&s).unwrap();
        assert!(!b.any_bad);
        s.total = TotalSpec::Value(139);
        let b = build(&s).unwrap();
        assert!(b.any_bad);
        assert!(refdec::decode(&b.bytes).is_err());
        s.total = TotalSpec::Value(128);
        let b = build(&s).unwrap();
        assert!(b.any_bad);
        assert!(has(&refdec::validate(&b.bytes).1, "trailing-bytes"));

        let mut s = mk(&mut seed);
        s.md5 = Md5Spec::Zero;
        let b = build(&s).unwrap();
        assert!(!b.any_bad);
        assert!(has(&refdec::validate(&b.bytes).1, "md5-unknown"));
        s.md5 = Md5Spec::Wrong;
        let b = build(&s).unwrap();
        assert!(b.any_bad);
        verify_valid(&s, &b);
        assert!(has(&refdec::validate(&b.bytes).1, "md5-mismatch"));

        let mut s = mk(&mut seed);
        s.seek = SeekSpec::BeyondEof;
        let b = build(&s).unwrap();
        assert!(b.any_bad);
        verify_valid(&s, &b);
        assert!(has(&refdec::validate(&b.bytes).1, "seekpoint-target"));

        let mut s = mk(&mut seed);
        s.info_min_frame = Some(0);
        s.info_max_frame = Some(0);
        let b = build(&s).unwrap();
        assert!(b.any_bad);
        verify_valid(&s, &b);
        assert!(has(&refdec::validate(&b.bytes).1, "frame-size-unknown"));

        let mut s = mk(&mut seed);
        s.info_max_block = Some(63);
        let b = build(&s).unwrap();
        assert!(b.any_bad);
        assert_eq!(refdec::decode(&b.bytes).unwrap_err().code, "block>max");

        let mut s = mk(&mut seed);
        s.frames[1].number = Some(5);
        let b = build(&s).unwrap();
        assert!(b.any_bad && b.minimal_numbers);
        assert!(has(&refdec::validate(&b.bytes).1, "frame-number"));

        let mut s = mk(&mut seed);
        s.padding = Some(0);
        let b = build(&s).unwrap();
        verify_valid(&s, &b);
        assert!(refdec::validate(&b.bytes).1.is_empty());
        assert_eq!(b.first_frame_offset, 4 + 4 + 34 + 4);

        // build_frame agrees with build
        let s = mk(&mut seed);
        let b = build(&s).unwrap();
        let f1 = build_frame(&s, 1, 64).unwrap();
        assert_eq!(&b.bytes[b.frame_offsets[1].0..b.frame_offsets[1].0 + b.frame_offsets[1].1], &f1[..]);
    }

    // ---- test 4: odd specs never panic -------------------------------------------------------

    #[test]
    fn fgen_odd_specs_are_errors() {
        let e = |s: &StreamSpec| {
            let r = build(s);
            assert!(matches!(&r, Err(m) if m.starts_with("unbuildable: ")), "{:?}", r.map(|b| b.bytes.len()));
        };
        e(&plain_stream(1, 16, 44100, vec![]));
        e(&plain_stream(1, 16, 44100, vec![plain_frame(vec![vec![]])]));
        e(&plain_stream(1, 16, 44100, vec![plain_frame(vec![])]));
        e(&plain_stream(2, 16, 44100, vec![plain_frame(vec![vec![0; 16]])]));
        e(&plain_stream(2, 16, 44100, vec![plain_frame(vec![vec![0; 16], vec![0; 15]])]));
        e(&plain_stream(0, 16, 44100, vec![plain_frame(vec![])]));
        e(&plain_stream(9, 16, 44100, vec![plain_frame(vec![vec![0; 4]; 9])]));
        e(&plain_stream(1, 0, 44100, vec![plain_frame(vec![vec![0; 16]])]));
        e(&plain_stream(1, 33, 44100, vec![plain_frame(vec![vec![0; 16]])]));
        e(&plain_stream(1, 16, 1 << 20, vec![plain_frame(vec![vec![0; 16]])]));
        e(&plain_stream(1, 16, 44100, vec![plain_frame(vec![vec![0; 65536]])]));
        e(&plain_stream(1, 16, 44100, vec![plain_frame(vec![vec![40000; 16]])]));
        assert!(build_frame(&plain_stream(1, 16, 44100, vec![]), 0, 0).is_err());
        let mut f = plain_frame(vec![vec![0; 16]]);
        f.subframes.clear();
        e(&plain_stream(1, 16, 44100, vec![f]));
        let mut f = plain_frame(vec![vec![0; 16]]);
        f.subframes.push(plain_sub());
        e(&plain_stream(1, 16, 44100, vec![f]));
        for a in [Assign::LeftSide, Assign::SideRight, Assign::MidSide] {
            let mut f = plain_frame(vec![vec![0; 16]]);
            f.assign = a.clone();
            e(&plain_stream(1, 16, 44100, vec![f]));
            let mut f = plain_frame(vec![vec![0; 16]; 3]);
            f.assign = a;
            e(&plain_stream(3, 16, 44100, vec![f]));
        }
        let with = |m: &dyn Fn(&mut FrameSpec)| {
            let mut f = plain_frame(vec![(0..16).collect()]);
            m(&mut f);
            plain_stream(1, 16, 44100, vec![f])
        };
        e(&with(&|f| f.subframes[0].kind = SubKind::Constant));
        e(&with(&|f| f.subframes[0].wasted = 1));
        e(&with(&|f| f.subframes[0].wasted = 16));
        e(&with(&|f| f.subframes[0].wasted = 200));
        e(&with(&|f| f.subframes[0].kind = SubKind::Fixed(5)));
        e(&with(&|f| f.subframes[0].kind = SubKind::Lpc { order: 0, precision: 4, shift: 0, coefs: vec![] }));
        e(&with(&|f| f.subframes[0].kind = SubKind::Lpc { order: 33, precision: 4, shift: 0, coefs: vec![0; 33] }));
        e(&with(&|f| f.subframes[0].kind = SubKind::Lpc { order: 17, precision: 4, shift: 0, coefs: vec![0; 17] }));
        e(&with(&|f| f.subframes[0].kind = SubKind::Lpc { order: 2, precision: 4, shift: 0, coefs: vec![1] }));
        e(&with(&|f| f.subframes[0].kind = SubKind::Lpc { order: 1, precision: 4, shift: 0, coefs: vec![8] }));
        e(&with(&|f| f.subframes[0].kind = SubKind::Lpc { order: 1, precision: 16, shift: 0, coefs: vec![1] }));
        e(&with(&|f| f.subframes[0].kind = SubKind::Lpc { order: 1, precision: 0, shift: 0, coefs: vec![0] }));
        e(&with(&|f| f.subframes[0].kind = SubKind::Lpc { order: 1, precision: 4, shift: 16, coefs: vec![1] }));
        let fx = |m: &dyn Fn(&mut SubSpec)| {
            let mut f = plain_frame(vec![(0..16).map(|i| i * 1000).collect()]);
            f.subframes[0].kind = SubKind::Fixed(1);
            m(&mut f.subframes[0]);
            plain_stream(1, 16, 44100, vec![f])
        };
        assert!(build(&fx(&|_| {})).is_ok());
        e(&fx(&|s| s.res.method = 2));
        e(&fx(&|s| s.res.order = 5));
        e(&fx(&|s| s.res.order = 16));
        e(&fx(&|s| s.res.order = 255));
        e(&fx(&|s| s.res.params = vec![PartParam::Rice(15)]));
        e(&fx(&|s| { s.res.method = 1; s.res.params = vec![PartParam::Rice(31)]; }));
        e(&fx(&|s| s.res.params = vec![PartParam::Escape(Some(32))]));
        e(&fx(&|s| s.res.params = vec![PartParam::Escape(Some(5))]));
        e(&fx(&|s| s.bad.residual_force = Some((15, 0))));
        e(&fx(&|s| s.bad.wasted_raw = Some(u32::MAX)));
        assert!(build(&fx(&|s| s.res.params = vec![])).is_ok());
        // Rice(0) on a huge residual: unary too long
        let mut f = plain_frame(vec![vec![0, 1 << 20, 0, 0]]);
        f.subframes[0].kind = SubKind::Fixed(0);
        f.subframes[0].res.params = vec![PartParam::Rice(0)];
        e(&plain_stream(1, 24, 44100, vec![f]));
        // residual out of range at 32 bits
        let mut f = plain_frame(vec![vec![i32::MIN; 4]]);
        f.subframes[0].kind = SubKind::Fixed(0);
        e(&plain_stream(1, 32, 44100, vec![f]));
        let mut f = plain_frame(vec![vec![i32::MAX, i32::MIN, i32::MAX, i32::MIN]]);
        f.subframes[0].kind = SubKind::Fixed(1);
        e(&plain_stream(1, 32, 44100, vec![f]));
        // header codings
        e(&with(&|f| f.rate = RateCoding::KHz));
        e(&with(&|f| f.number_len = Some(0)));
        e(&with(&|f| f.number_len = Some(8)));
        e(&with(&|f| f.number = Some(1 << 36)));
        e(&with(&|f| { f.number = Some(128); f.number_len = Some(1); }));
        let mut f = plain_frame(vec![vec![0; 257]]);
        f.bs = BsCoding::Bits8;
        e(&plain_stream(1, 16, 44100, vec![f]));
        let mut f = plain_frame(vec![vec![0; 16]]);
        f.rate = RateCoding::Hz;
        e(&plain_stream(1, 16, 65536, vec![f.clone()]));
        f.rate = RateCoding::DaHz;
        e(&plain_stream(1, 16, 65535, vec![f.clone()]));
        e(&plain_stream(1, 16, 655360, vec![f]));
        let mut s = plain_stream(1, 16, 44100, vec![plain_frame(vec![vec![0; 16]])]);
        s.seek = SeekSpec::Placeholders(1 << 24);
        e(&s);
        s.seek = SeekSpec::None;
        s.padding = Some(1 << 24);
        e(&s);
    }

    // ---- test 3: each bad knob alone ---------------------------------------------------------

    /// Base: 2-frame mono 16-bit stream, 16 samples per frame. `fixed` selects Fixed(1) subframes
    /// (needed for the residual knobs), `lpc` selects LPC order 1; otherwise Verbatim.
    fn knob_base(sel: u32) -> StreamSpec {
        let mut seed = 4242u64;
        let frames: Vec<FrameSpec> = (0..2)
            .map(|_| {
                let mut f = plain_frame(vec![signal(6, 16, 16, 0, &mut seed)]);
                match sel {
                    1 => f.subframes[0].kind = SubKind::Fixed(1),
                    2 => f.subframes[0].kind = lpc_kind(1, 5, 0, 0),
                    _ => {}
                }
                f
            })
            .collect();
        plain_stream(1, 16, 44100, frames)
    }

    #[test]
    fn fgen_bad_knobs_table() {
        type Mutator = Box<dyn Fn(&mut FrameSpec)>;
        // (name, base selector, mutator, expected refdec reject code)
        let knobs: Vec<(&str, u32, Mutator, &str)> = vec![
            ("sync_flip", 0, Box::new(|f| f.bad.sync_flip = true), "bad-sync"),
            ("reserved_bit", 0, Box::new(|f| f.bad.reserved_bit = true), "reserved-bit"),
            ("bs_code=0", 0, Box::new(|f| f.bad.bs_code = Some(0)), "bs-code-0"),
            ("bs_extra=0xFFFF (Bits16)", 0, Box::new(|f| { f.bs = BsCoding::Bits16; f.bad.bs_extra = Some(0xFFFF); }), "bs-65536"),
            ("rate_code=15", 0, Box::new(|f| f.bad.rate_code = Some(15)), "rate-code-15"),
            ("chan_code=11", 0, Box::new(|f| f.bad.chan_code = Some(11)), "chan-code"),
            ("chan_code=15", 0, Box::new(|f| f.bad.chan_code = Some(15)), "chan-code"),
            ("bps_code=3", 0, Box::new(|f| f.bad.bps_code = Some(3)), "bps-code-3"),
            ("number_lead_ff", 0, Box::new(|f| f.bad.number_lead_ff = true), "coded-number"),
            ("number_bad_cont", 0, Box::new(|f| f.bad.number_bad_cont = true), "coded-number"),
            ("crc8_wrong", 0, Box::new(|f| f.bad.crc8_wrong = true), "crc8"),
            ("crc16_wrong", 0, Box::new(|f| f.bad.crc16_wrong = true), "crc16"),
            ("sub.pad_bit", 0, Box::new(|f| f.subframes[0].bad.pad_bit = true), "subframe-pad"),
            ("sub.type_code=2", 0, Box::new(|f| f.subframes[0].bad.type_code = Some(2)), "subframe-type"),
            ("sub.type_code=7", 0, Box::new(|f| f.subframes[0].bad.type_code = Some(7)), "subframe-type"),
            ("sub.type_code=13", 0, Box::new(|f| f.subframes[0].bad.type_code = Some(13)), "subframe-type"),
            ("sub.type_code=31", 0, Box::new(|f| f.subframes[0].bad.type_code = Some(31)), "subframe-type"),
            ("sub.wasted_raw=16", 0, Box::new(|f| f.subframes[0].bad.wasted_raw = Some(16)), "wasted>=bps"),
            ("sub.wasted_raw=40", 0, Box::new(|f| f.subframes[0].bad.wasted_raw = Some(40)), "wasted>=bps"),
            ("sub.precision_raw=15", 2, Box::new(|f| f.subframes[0].bad.precision_raw = Some(15)), "precision-15"),
            ("sub.shift_raw=31", 2, Box::new(|f| f.subframes[0].bad.shift_raw = Some(31)), "neg-shift"),
            ("sub.shift_raw=16", 2, Box::new(|f| f.subframes[0].bad.shift_raw = Some(16)), "neg-shift"),
            ("sub.method_raw=2", 1, Box::new(|f| f.subframes[0].bad.method_raw = Some(2)), "method"),
            ("sub.method_raw=3", 1, Box::new(|f| f.subframes[0].bad.method_raw = Some(3)), "method"),
            ("sub.order_raw=5 (n=16,order 1)", 1, Box::new(|f| f.subframes[0].bad.order_raw = Some(5)), "partition-order"),
            ("sub.order_raw=15", 1, Box::new(|f| f.subframes[0].bad.order_raw = Some(15)), "partition-order"),
            ("sub.residual_force=(3,-2^31) method 1 Auto", 1, Box::new(|f| { f.subframes[0].res.method = 1; f.subframes[0].bad.residual_force = Some((3, -2147483648)); }), "residual-min"),
            ("sub.residual_force=(0,-2^31) method 1 Rice(30)", 1, Box::new(|f| { f.subframes[0].res.method = 1; f.subframes[0].res.params = vec![PartParam::Rice(30)]; f.subframes[0].bad.residual_force = Some((0, -2147483648)); }), "residual-min"),
            ("sub.residual_force=(0,2^31) method 1 Auto", 1, Box::new(|f| { f.subframes[0].res.method = 1; f.subframes[0].bad.residual_force = Some((0, 2147483648)); }), "residual-range"),
        ];
        let mut table: Vec<String> = Vec::new();
        for (name, sel, mutate, expect) in &knobs {
            let mut codes = Vec::new();
            for which in 0..2usize {
                let mut spec = knob_base(*sel);
                assert!(try_valid(&spec), "base must be valid");
                assert!(refdec::validate(&build(&spec).unwrap().bytes).1.is_empty());
                mutate(&mut spec.frames[which]);
                let b = build(&spec).unwrap_or_else(|e| panic!("knob {} did not build: {}", name, e));
                assert!(b.any_bad, "{}", name);
                check_crcs(&spec, &b);
                let r = refdec::decode(&b.bytes).expect_err(name);
                assert_eq!(r.frame, Some(which), "{}", name);
                codes.push(r.code);
            }
            assert_eq!(codes[0], codes[1], "{}", name);
            assert_eq!(codes[0], *expect, "{}", name);
            table.push(format!("{:<50} -> {}", name, codes[0]));
        }

        // padding_ones: decodes, validator flags it
        for sel in [1u32, 0] {
            let mut spec = knob_base(sel);
            spec.frames[1].bad.padding_ones = true;
            let b = build(&spec).unwrap();
            assert!(b.any_bad);
            check_crcs(&spec, &b);
            let st = refdec::decode(&b.bytes).expect("padding_ones must still decode");
            assert_eq!(st.pcm, b.pcm);
            let v = refdec::validate(&b.bytes).1;
            let flagged = v.iter().any(|s| s.contains("padding-nonzero"));
            if sel == 1 {
                // Fixed(1) on this signal leaves the subframe off the byte boundary
                assert!(!st.frames[1].padding_zero && flagged, "{:?}", v);
                assert_eq!(v.len(), 1, "{:?}", v);
                table.push(format!("{:<50} -> decode Ok, validate: {}", "padding_ones (Fixed(1), unaligned)", v[0]));
            } else {
                // verbatim 16-bit mono is byte aligned: no padding bits, no effect
                assert!(st.frames[1].padding_zero && v.is_empty(), "{:?}", v);
                table.push(format!("{:<50} -> decode Ok, no padding bits so no effect", "padding_ones (Verbatim, aligned)"));
            }
        }

        // over-long coded numbers: legal-but-unusual, decode Ok, validator flags non-minimal
        for k in 2..=7usize {
            let mut spec = knob_base(0);
            spec.frames[1].number_len = Some(k);
            let b = build(&spec).unwrap();
            assert!(!b.any_bad && !b.minimal_numbers);
            check_crcs(&spec, &b);
            verify_valid(&spec, &b);
            let v = refdec::validate(&b.bytes).1;
            assert!(v.iter().any(|s| s.contains("coded-number-nonminimal")), "{:?}", v);
            table.push(format!("{:<50} -> decode Ok, validate: {}", format!("number_len=Some({})", k), v.join(" | ")));
        }
        println!("fgen test3 table:");
        for l in &table {
            println!("  {}", l);
        }
    }

    // ---- test 1: round trip of every syntactic alternative -------------------------------------

    struct Cover {
        built: usize,
        tried: usize,
        axes: BTreeMap<String, usize>,
    }
    impl Cover {
        fn new() -> Cover {
            Cover { built: 0, tried: 0, axes: BTreeMap::new() }
        }
        fn note(&mut self, spec: &StreamSpec) {
            let mut keys: Vec<String> = vec![
                format!("bps:{}", spec.bps),
                format!("ch:{}", spec.channels),
                format!("variable:{}", spec.variable),
                format!("nframes:{}", spec.frames.len().min(3)),
            ];
            for f in &spec.frames {
                let n = f.pcm[0].len();
                keys.push(format!("n:{}", n));
                keys.push(format!("bs:{:?}", f.bs));
                keys.push(format!("rate:{:?}", f.rate));
                keys.push(format!("ratecode:{}", match f.rate { RateCoding::Auto => rate_auto_code(spec.rate), RateCoding::Streaminfo => 0, RateCoding::KHz => 12, RateCoding::Hz => 13, RateCoding::DaHz => 14 }));
                keys.push(format!("bpscoding:{:?}", f.bps));
                keys.push(format!("assign:{:?}", f.assign));
                keys.push(format!("assign:{:?}/bps{}", f.assign, spec.bps));
                keys.push(format!("numlen:{}", f.number_len.unwrap_or(0)));
                for s in &f.subframes {
                    let (k, resid) = match &s.kind {
                        SubKind::Verbatim => ("Verbatim".to_string(), false),
                        SubKind::Constant => ("Constant".to_string(), false),
                        SubKind::Fixed(o) => (format!("Fixed{}", o), true),
                        SubKind::Lpc { order, precision, shift, .. } => {
                            keys.push(format!("lpc-order:{}", order));
                            keys.push(format!("lpc-precision:{}", precision));
                            keys.push(format!("lpc-shift:{}", shift));
                            keys.push(format!("lpc:{}/{}/{}", order, precision, shift));
                            ("Lpc".to_string(), true)
                        }
                    };
                    keys.push(format!("kind:{}", k));
                    keys.push(format!("kind:{}/bps{}", k, spec.bps));
                    keys.push(format!("wasted:{}", s.wasted));
                    keys.push(format!("wasted:{}/kind:{}", s.wasted, k));
                    if resid {
                        let p = match s.res.params.first() {
                            Some(PartParam::Auto) | None => "Auto".to_string(),
                            Some(PartParam::Rice(k)) => format!("Rice{}", k),
                            Some(PartParam::Escape(None)) => "EscapeNone".to_string(),
                            Some(PartParam::Escape(Some(_))) => "EscapeSome".to_string(),
                        };
                        keys.push(format!("method:{}", s.res.method));
                        keys.push(format!("porder:{}", s.res.order));
                        keys.push(format!("param:{}", p));
                        keys.push(format!("method:{}/porder:{}/param:{}", s.res.method, s.res.order, p));
                        keys.push(format!("kind:{}/param:{}", k, p));
                    }
                }
            }
            keys.sort();
            keys.dedup();
            for k in keys {
                *self.axes.entry(k).or_insert(0) += 1;
            }
        }
        fn run(&mut self, spec: &StreamSpec) -> bool {
            self.tried += 1;
            let ok = try_valid(spec);
            if ok {
                self.built += 1;
                self.note(spec);
            }
            ok
        }
        fn need(&self, key: &str) {
            assert!(self.axes.get(key).copied().unwrap_or(0) > 0, "no built combination covers {}", key);
        }
    }

    const BPS_LIST: [u8; 7] = [4, 8, 12, 16, 20, 24, 32];
    const ASSIGNS: [Assign; 4] = [Assign::Independent, Assign::LeftSide, Assign::SideRight, Assign::MidSide];

    fn params_for(depth: u32) -> [PartParam; 5] {
        [
            PartParam::Auto,
            PartParam::Rice(0),
            PartParam::Rice(7),
            PartParam::Escape(None),
            PartParam::Escape(Some((depth + 5).min(31) as u8)),
        ]
    }

    /// Frame of `n` samples whose channels all use `subspec`; signal kinds picked so that the
    /// combination has a chance to be representable.
    fn mk_frame(nch: u8, bps: u8, n: usize, assign: &Assign, subspec: &SubSpec, pick: u64, seed: &mut u64) -> FrameSpec {
        let k = subspec.wasted as u32;
        let z = if pick % 3 == 2 && (bps as u32) > k + 1 { k + 1 } else { k };
        let bits = (bps as u32).saturating_sub(z).max(1);
        let z = z.min(bps as u32 - bits);
        let sig = |j: u64| -> u32 {
            if subspec.kind == SubKind::Constant {
                CONST_SIGS[((pick / 3 + j) % 4) as usize]
            } else {
                ((pick / 3 + 3 * j) % 8) as u32
            }
        };
        let pcm: Vec<Vec<i32>> = (0..nch as u64).map(|c| signal(sig(c), n, bits, z, seed)).collect();
        let mut f = plain_frame(pcm);
        f.assign = assign.clone();
        for s in f.subframes.iter_mut() {
            *s = subspec.clone();
        }
        f
    }

    #[test]
    fn fgen_roundtrip_subframe_product() {
        let mut cov = Cover::new();
        let mut seed = 1u64;
        let ns = [16usize, 17, 192, 256, 64, 32];
        let mut kinds: Vec<SubKind> = vec![SubKind::Verbatim, SubKind::Constant];
        for o in 0..=4u8 {
            kinds.push(SubKind::Fixed(o));
        }
        for &(o, p, s, set) in &[(1u8, 2u8, 0u8, 0u32), (2, 12, 5, 1), (8, 15, 14, 2), (32, 12, 14, 2), (2, 2, 0, 1), (8, 12, 0, 0)] {
            kinds.push(lpc_kind(o, p, s, set));
        }
        let mut idx = 0u64;
        // full product of the core kinds with all residual axes
        for &bps in &BPS_LIST {
            for chv in 0..5usize {
                let (nch, assign) = if chv == 0 { (1u8, Assign::Independent) } else { (2u8, ASSIGNS[chv - 1].clone()) };
                for kind in &kinds {
                    let has_res = matches!(kind, SubKind::Fixed(_) | SubKind::Lpc { .. });
                    for method in 0..2u8 {
                        for porder in 0..4u8 {
                            for (pi, param) in params_for(bps as u32).iter().enumerate() {
                                if !has_res && (method, porder, pi) != (0, 0, 0) {
                                    continue;
                                }
                                for &wasted in &[0u8, 1, 3] {
                                    idx += 1;
                                    let n = ns[(idx % ns.len() as u64) as usize];
                                    let ss = sub(kind.clone(), wasted, method, porder, param.clone());
                                    let frames: Vec<FrameSpec> = (0..2).map(|j| mk_frame(nch, bps, n, &assign, &ss, idx / 6 + j, &mut seed)).collect();
                                    cov.run(&plain_stream(nch, bps, 44100, frames));
                                }
                            }
                        }
                    }
                }
            }
        }
        let core_built = cov.built;
        // every LPC order x precision x shift x coefficient set, other axes rotating
        for &order in &[1u8, 2, 8, 32] {
            for &precision in &[2u8, 12, 15] {
                for &shift in &[0u8, 5, 14] {
                    for set in 0..3u32 {
                        for &bps in &BPS_LIST {
                            for chv in 0..5usize {
                                for rep in 0..3u64 {
                                    let (nch, assign) = if chv == 0 { (1u8, Assign::Independent) } else { (2u8, ASSIGNS[chv - 1].clone()) };
                                    let r = lcg(&mut seed);
                                    let n = [32usize, 64, 192, 256, 33][(r % 5) as usize];
                                    let wasted = [0u8, 1, 3][((r >> 8) % 3) as usize];
                                    let ss = sub(
                                        lpc_kind(order, precision, shift, set),
                                        wasted,
                                        ((r >> 12) % 2) as u8,
                                        ((r >> 16) % 4) as u8,
                                        params_for(bps as u32)[((r >> 20) % 5) as usize].clone(),
                                    );
                                    // small signals (6: small noise, 0: zero, 7: const) keep big-coefficient residuals in range
                                    let pick = [6u64 * 3, 0, 4 * 3, 7 * 3, 5 * 3][((rep + (r >> 24)) % 5) as usize];
                                    let frames: Vec<FrameSpec> = (0..2).map(|_| mk_frame(nch, bps, n, &assign, &ss, pick, &mut seed)).collect();
                                    cov.run(&plain_stream(nch, bps, 48000, frames));
                                }
                            }
                        }
                    }
                }
            }
        }
        println!("fgen test1/subframe-product: built {} of {} tried (core product built {})", cov.built, cov.tried, core_built);
        assert!(cov.built > 5000, "{}", cov.built);
        for &bps in &BPS_LIST {
            cov.need(&format!("bps:{}", bps));
            for k in ["Verbatim", "Constant", "Fixed0", "Fixed1", "Fixed2", "Fixed3", "Fixed4", "Lpc"] {
                cov.need(&format!("kind:{}/bps{}", k, bps));
            }
            for a in &ASSIGNS {
                cov.need(&format!("assign:{:?}/bps{}", a, bps));
            }
        }
        for k in ["Verbatim", "Constant", "Fixed0", "Fixed1", "Fixed2", "Fixed3", "Fixed4", "Lpc"] {
            for w in [0, 1, 3] {
                cov.need(&format!("wasted:{}/kind:{}", w, k));
            }
        }
        for k in ["Fixed0", "Fixed1", "Fixed2", "Fixed3", "Fixed4", "Lpc"] {
            for p in ["Auto", "Rice0", "Rice7", "EscapeNone", "EscapeSome"] {
                cov.need(&format!("kind:{}/param:{}", k, p));
            }
        }
        for m in 0..2 {
            for po in 0..4 {
                for p in ["Auto", "Rice0", "Rice7", "EscapeNone", "EscapeSome"] {
                    cov.need(&format!("method:{}/porder:{}/param:{}", m, po, p));
                }
            }
        }
        for o in [1, 2, 8, 32] {
            for p in [2, 12, 15] {
                for s in [0, 5, 14] {
                    cov.need(&format!("lpc:{}/{}/{}", o, p, s));
                }
            }
        }
    }

    #[test]
    fn fgen_roundtrip_header_product() {
        let mut cov = Cover::new();
        let mut seed = 2u64;
        let rates = [8000u32, 44100, 48000, 96000, 1000, 255000, 12345, 65535, 655350, 700001, 0, 1048575];
        let bss = [BsCoding::Auto, BsCoding::Bits8, BsCoding::Bits16];
        let rcs = [RateCoding::Auto, RateCoding::Streaminfo, RateCoding::KHz, RateCoding::Hz, RateCoding::DaHz];
        let bpcs = [BpsCoding::Auto, BpsCoding::Streaminfo];
        let mut idx = 0u64;
        for &n in &[1usize, 2, 15, 16, 17, 192, 256, 257, 576, 1152, 4096, 4608, 32768, 65535] {
            for bs in &bss {
                for rc in &rcs {
                    for &rate in &rates {
                        for bpc in &bpcs {
                            for variable in [false, true] {
                                for numsel in 0..4u32 {
                                    idx += 1;
                                    let big = n > 600;
                                    if big && idx % 37 != 0 {
                                        continue; // a small count of the big block sizes
                                    }
                                    let bps = BPS_LIST[(idx % 7) as usize];
                                    let nch = if big { 1 } else { 1 + (idx % 2) as u8 };
                                    // sizes: body frames of n, last one shorter; a block < 16 can only be last
                                    let sizes: Vec<usize> = if n < 16 {
                                        if idx % 2 == 0 { vec![n] } else { vec![16, n] }
                                    } else if big {
                                        vec![n, n / 3]
                                    } else {
                                        vec![n, n, (n / 2).max(1)]
                                    };
                                    let mut frames = Vec::new();
                                    let mut first = 0u64;
                                    for (fi, &sz) in sizes.iter().enumerate() {
                                        let pcm: Vec<Vec<i32>> = (0..nch).map(|_| signal(((idx + fi as u64) % 8) as u32, sz, bps as u32, 0, &mut seed)).collect();
                                        let mut f = plain_frame(pcm);
                                        f.bs = bs.clone();
                                        f.rate = rc.clone();
                                        f.bps = bpc.clone();
                                        if idx % 3 == 0 && sz > 4 && bps < 32 {
                                            for s in f.subframes.iter_mut() {
                                                s.kind = SubKind::Fixed(2);
                                                s.res.method = 1;
                                            }
                                        }
                                        let correct = if variable { first } else { fi as u64 };
                                        let minlen = minimal_number_len(correct);
                                        match numsel {
                                            1 => f.number_len = Some((minlen + 1).min(7)),
                                            2 => f.number_len = Some(7),
                                            3 => {
                                                // large coded numbers of every byte length (refdec::decode ignores the value)
                                                let len = 1 + ((idx + fi as u64) % 7) as usize;
                                                f.number = Some((1u64 << NUM_CAP[len - 1]) - 1 - (idx % 5));
                                                f.number_len = if (idx / 4) % 2 == 0 { None } else { Some(len) };
                                            }
                                            _ => {}
                                        }
                                        first += sz as u64;
                                        frames.push(f);
                                    }
                                    let mut spec = plain_stream(nch, bps, rate, frames);
                                    spec.variable = variable;
                                    match idx % 5 {
                                        1 => spec.total = TotalSpec::Unknown,
                                        2 => spec.md5 = Md5Spec::Zero,
                                        3 => spec.seek = SeekSpec::EveryFramePlusPlaceholders(2),
                                        4 => spec.padding = Some((idx % 100) as usize),
                                        _ => {}
                                    }
                                    // numsel 3 deliberately writes wrong numbers: any_bad is expected there
                                    if numsel == 3 {
                                        cov.tried += 1;
                                        if let Ok(b) = build(&spec) {
                                            verify_valid(&spec, &b);
                                            cov.built += 1;
                                            cov.note(&spec);
                                        }
                                    } else {
                                        cov.run(&spec);
                                    }
                                }
                            }
                        }
                    }
                }
            }
        }
        println!("fgen test1/header-product: built {} of {} tried", cov.built, cov.tried);
        assert!(cov.built > 3000, "{}", cov.built);
        for n in [1, 2, 15, 16, 17, 192, 256, 257, 576, 1152, 4096, 4608, 32768, 65535] {
            cov.need(&format!("n:{}", n));
        }
        for k in ["bs:Auto", "bs:Bits8", "bs:Bits16", "rate:Auto", "rate:Streaminfo", "rate:KHz", "rate:Hz", "rate:DaHz", "bpscoding:Auto", "bpscoding:Streaminfo", "variable:true", "variable:false"] {
            cov.need(k);
        }
        for c in [0, 4, 9, 10, 11, 12, 13, 14] {
            cov.need(&format!("ratecode:{}", c));
        }
        for l in 0..=7 {
            cov.need(&format!("numlen:{}", l));
        }
    }

    #[test]
    fn fgen_roundtrip_side_extremes() {
        // 33-bit side channel at 32 bps (and depth+1 at every other depth), all verbatim/fixed kinds that can hold it
        let mut built = 0;
        for &bps in &BPS_LIST {
            let max = ((1i64 << (bps - 1)) - 1) as i32;
            let min = (-(1i64 << (bps - 1))) as i32;
            for (l, r) in [(max, min), (min, max), (max, max), (min, min), (0, min), (-1, max)] {
                for a in &ASSIGNS {
                    for n in [1usize, 2, 16, 17] {
                        for kind in [SubKind::Verbatim, SubKind::Constant, SubKind::Fixed(0), SubKind::Fixed(1)] {
                            let mut f = plain_frame(vec![vec![l; n], vec![r; n]]);
                            f.assign = a.clone();
                            for s in f.subframes.iter_mut() {
                                s.kind = if n == 1 && kind == SubKind::Fixed(1) { SubKind::Verbatim } else { kind.clone() };
                                s.res.method = 1;
                            }
                            let spec = plain_stream(2, bps, 96000, vec![f]);
                            match build(&spec) {
                                Ok(b) => {
                                    verify_valid(&spec, &b);
                                    built += 1;
                                    if *a != Assign::Independent && (l, r) == (max, min) {
                                        let st = refdec::decode(&b.bytes).unwrap();
                                        let side = if *a == Assign::SideRight { &st.frames[0].subframes[0] } else { &st.frames[0].subframes[1] };
                                        assert_eq!(side.bps, bps + 1);
                                        assert_eq!(side.raw[0], (1i64 << bps) - 1);
                                    }
                                }
                                Err(e) => {
                                    // only Fixed(0) can fail here: the residual equals the sample and must stay in (-2^31, 2^31-1]
                                    assert!(kind == SubKind::Fixed(0) && bps == 32 && e.contains("residual"), "{} ({:?} {:?} bps {})", e, kind, a, bps);
                                }
                            }
                        }
                    }
                }
            }
        }
        println!("fgen test1/side-extremes: built {}", built);
        assert!(built > 2000);
    }

    fn rand_sub(bps: u8, n: usize, seed: &mut u64) -> SubSpec {
        let r = lcg(seed);
        let kind = match r % 10 {
            0 => SubKind::Verbatim,
            1 => SubKind::Constant,
            2..=6 => SubKind::Fixed(((r >> 4) % 5) as u8),
            _ => {
                let order = [1u8, 2, 8, 32, 3, 12][((r >> 4) % 6) as usize];
                let precision = [2u8, 12, 15, 1, 7][((r >> 8) % 5) as usize];
                let shift = [0u8, 5, 14, 15, 1][((r >> 12) % 5) as usize];
                if precision == 1 {
                    SubKind::Lpc { order, precision, shift, coefs: (0..order).map(|j| -((j as i32 + (r >> 40) as i32) & 1)).collect() }
                } else {
                    lpc_kind(order, precision, shift, ((r >> 16) % 3) as u32)
                }
            }
        };
        let wasted = [0u8, 0, 1, 3, 2][((r >> 20) % 5) as usize];
        let porder = ((r >> 24) % 5) as u8;
        let all = params_for(bps as u32);
        let mut params = Vec::new();
        let np = 1 + (lcg(seed) % (1u64 << porder)) as usize;
        for _ in 0..np {
            let q = lcg(seed);
            params.push(match q % 8 {
                5 => PartParam::Rice(((q >> 8) % 15) as u8),
                6 => PartParam::Rice(((q >> 8) % 31) as u8),
                7 => PartParam::Escape(Some(((q >> 8) % 32) as u8)),
                i => all[(i % 5) as usize].clone(),
            });
        }
        let _ = n;
        SubSpec { kind, wasted, res: ResSpec { method: ((r >> 28) % 2) as u8, order: porder, params }, bad: SubBad::default() }
    }

    #[test]
    fn fgen_roundtrip_random_space() {
        let mut cov = Cover::new();
        let mut seed = 3u64;
        let rates = [8000u32, 44100, 48000, 96000, 1000, 12345, 655350, 700001, 192000, 22050];
        for _ in 0..30000 {
            let r = lcg(&mut seed);
            let bps = BPS_LIST[(r % 7) as usize];
            let nch = [1u8, 2, 2, 2, 3, 8][((r >> 4) % 6) as usize];
            let variable = (r >> 8) % 2 == 1;
            let n = [1usize, 2, 16, 17, 192, 256, 32, 64, 4096][((r >> 12) % 9) as usize];
            if n == 4096 && (r >> 36) % 8 != 0 {
                continue;
            }
            let nframes = 1 + ((r >> 16) % 3) as usize;
            let mut sizes: Vec<usize> = Vec::new();
            for i in 0..nframes {
                let last = i + 1 == nframes;
                let sz = if last {
                    if (r >> 20) % 2 == 0 { n } else { (n / 2).max(1) }
                } else if variable && (r >> 21) % 2 == 0 {
                    [16usize, 48, 192, 100][(lcg(&mut seed) % 4) as usize]
                } else {
                    n.max(16)
                };
                sizes.push(sz);
            }
            if !variable {
                // fixed blocking: STREAMINFO max = first frame's size
                let first = sizes[0];
                for s in sizes.iter_mut() {
                    *s = (*s).min(first);
                }
                let k = sizes.len();
                for s in sizes[..k - 1].iter_mut() {
                    *s = first;
                }
            }
            let rate = rates[((r >> 24) % rates.len() as u64) as usize];
            let mut frames = Vec::new();
            for &sz in &sizes {
                let q = lcg(&mut seed);
                let assign = if nch == 2 { ASSIGNS[(q % 4) as usize].clone() } else { Assign::Independent };
                let subs: Vec<SubSpec> = (0..nch).map(|_| rand_sub(bps, sz, &mut seed)).collect();
                let maxw = subs.iter().map(|s| s.wasted as u32).max().unwrap_or(0);
                let z = maxw + if assign == Assign::MidSide && maxw > 0 { 1 } else { 0 };
                let z = z.min(bps as u32 - 1);
                let bits = bps as u32 - z;
                let any_const = subs.iter().any(|s| s.kind == SubKind::Constant);
                let pcm: Vec<Vec<i32>> = (0..nch)
                    .map(|c| {
                        let kind = if (any_const && assign != Assign::Independent) || subs[c as usize].kind == SubKind::Constant {
                            CONST_SIGS[(lcg(&mut seed) % 4) as usize]
                        } else {
                            [0u32, 3, 4, 5, 6, 6, 6, 4][(lcg(&mut seed) % 8) as usize]
                        };
                        signal(kind, sz, bits, z, &mut seed)
                    })
                    .collect();
                let mut f = plain_frame(pcm);
                f.assign = assign;
                f.subframes = subs;
                f.bs = [BsCoding::Auto, BsCoding::Auto, BsCoding::Bits8, BsCoding::Bits16][((q >> 8) % 4) as usize].clone();
                f.rate = [RateCoding::Auto, RateCoding::Auto, RateCoding::Streaminfo, RateCoding::KHz, RateCoding::Hz, RateCoding::DaHz][((q >> 12) % 6) as usize].clone();
                f.bps = [BpsCoding::Auto, BpsCoding::Streaminfo][((q >> 16) % 2) as usize].clone();
                if (q >> 20) % 4 == 0 {
                    f.number_len = Some(3 + ((q >> 24) % 5) as usize);
                }
                frames.push(f);
            }
            let mut spec = plain_stream(nch, bps, rate, frames);
            spec.variable = variable;
            match (r >> 40) % 6 {
                1 => spec.total = TotalSpec::Unknown,
                2 => spec.md5 = Md5Spec::Zero,
                3 => spec.seek = SeekSpec::EveryFrame,
                4 => {
                    spec.seek = SeekSpec::Placeholders(4);
                    spec.padding = Some(9);
                }
                _ => {}
            }
            cov.run(&spec);
        }
        println!("fgen test1/random-space: built {} of {} tried", cov.built, cov.tried);
        assert!(cov.built > 3000, "{}", cov.built);
        for k in ["ch:1", "ch:2", "ch:3", "ch:8", "variable:true", "variable:false", "nframes:1", "nframes:2", "nframes:3", "n:1", "n:2", "n:17", "n:4096"] {
            cov.need(k);
        }
        for k in ["Verbatim", "Constant", "Fixed0", "Fixed4", "Lpc"] {
            cov.need(&format!("kind:{}", k));
        }
        for a in &ASSIGNS {
            cov.need(&format!("assign:{:?}/bps32", a));
            cov.need(&format!("assign:{:?}/bps4", a));
        }
        for o in [1, 2, 3, 8, 12, 32] {
            cov.need(&format!("lpc-order:{}", o));
        }
        for p in [1, 2, 7, 12, 15] {
            cov.need(&format!("lpc-precision:{}", p));
        }
        for s in [0, 1, 5, 14, 15] {
            cov.need(&format!("lpc-shift:{}", s));
        }
        for po in 0..5 {
            cov.need(&format!("porder:{}", po));
        }
    }
}
