//! Thin, total wrappers around the crate's writer / reader front-ends. Every wrapper catches panics
//! and returns a plain `Result<_, String>` where the error string starts with `panic:` for panics.

use crate::core::{guarded, obj};
use flac_codec::byteorder::{BigEndian, LittleEndian};
use flac_codec::decode::{FlacByteReader, FlacChannelReader, FlacSampleReader};
use flac_codec::encode::{FlacByteWriter, FlacChannelWriter, FlacSampleWriter, Options, Window};
use flac_codec::metadata::Metadata;
use serde_json::{json, Value};
use std::io::{Cursor, Read, Write};

#[derive(Clone, Copy, Debug, PartialEq)]
pub enum Win {
    Tukey(f32),
    Rect,
    Hann,
}
#[derive(Clone, Copy, Debug, PartialEq)]
pub enum Seek {
    Default,
    Off,
    Frames(usize),
    Seconds(u8),
}
#[derive(Clone, Copy, Debug, PartialEq)]
pub enum Pad {
    Default,
    None,
    Size(u32),
}

/// Encoder option vector (the "configuration" part of a case).
#[derive(Clone, Copy, Debug, PartialEq)]
pub struct Opt {
    pub block: u16,
    pub lpc: Option<u8>,
    pub part: u32,
    pub mid_side: bool,
    pub fast: bool,
    pub win: Win,
    pub seek: Seek,
    pub pad: Pad,
    pub declared: bool,
    /// 0 = build from `Options::default()` with the fields above; 1 = `Options::fast()`, 2 = `Options::best()` taken whole
    /// (block/lpc/part/mid_side/fast/win then only MIRROR the preset for bookkeeping; seek/pad/declared still apply)
    pub preset: u8,
}

impl Opt {
    /// `Options::default()` with the block size forced to 16 and undeclared length.
    pub const fn base16() -> Opt {
        Opt { block: 16, lpc: Some(8), part: 5, mid_side: true, fast: false, win: Win::Tukey(0.5), seek: Seek::Default, pad: Pad::Default, declared: true, preset: 0 }
    }
    pub const fn fast_preset() -> Opt {
        Opt { block: 1152, lpc: None, part: 3, mid_side: false, fast: true, preset: 1, ..Opt::base16() }
    }
    pub const fn best_preset() -> Opt {
        Opt { block: 4096, lpc: Some(12), part: 6, mid_side: true, fast: false, preset: 2, ..Opt::base16() }
    }
    pub fn to_options(&self) -> Result<Options, String> {
        let mut o = if self.preset == 1 {
            Options::fast()
        } else if self.preset == 2 {
            Options::best()
        } else {
            Options::default()
            .block_size(self.block)
            .map_err(|e| format!("opt:{e:?}"))?
            .max_lpc_order(self.lpc)
            .map_err(|e| format!("opt:{e:?}"))?
            .max_partition_order(self.part)
            .map_err(|e| format!("opt:{e:?}"))?
            .mid_side(self.mid_side)
            .fast_channel_correlation(self.fast)
            .window(match self.win {
                Win::Tukey(p) => Window::Tukey(p),
                Win::Rect => Window::Rectangle,
                Win::Hann => Window::Hann,
            })
        };
        o = match self.seek {
            Seek::Default => o,
            Seek::Off => o.no_seektable(),
            Seek::Frames(n) => o.seektable_frames(n),
            Seek::Seconds(n) => o.seektable_seconds(n),
        };
        o = match self.pad {
            Pad::Default => o,
            Pad::None => o.no_padding(),
            Pad::Size(n) => o.padding(n).map_err(|e| format!("opt:{e:?}"))?,
        };
        Ok(o)
    }
    pub fn to_json(&self) -> Value {
        json!({
            "block": self.block, "lpc": self.lpc, "part": self.part, "mid_side": self.mid_side, "fast": self.fast,
            "win": match self.win { Win::Tukey(p) => format!("tukey:{}", p), Win::Rect => "rect".into(), Win::Hann => "hann".into() },
            "seek": match self.seek { Seek::Default => "default".to_string(), Seek::Off => "off".into(), Seek::Frames(n) => format!("frames:{n}"), Seek::Seconds(n) => format!("seconds:{n}") },
            "pad": match self.pad { Pad::Default => "default".to_string(), Pad::None => "none".into(), Pad::Size(n) => format!("size:{n}") },
            "declared": self.declared, "preset": self.preset,
        })
    }
    pub fn from_json(v: &Value) -> Opt {
        let s = |k: &str| v[k].as_str().unwrap_or("").to_string();
        let win = s("win");
        let seek = s("seek");
        let pad = s("pad");
        Opt {
            block: v["block"].as_u64().unwrap_or(16) as u16,
            lpc: v["lpc"].as_u64().map(|x| x as u8),
            part: v["part"].as_u64().unwrap_or(5) as u32,
            mid_side: v["mid_side"].as_bool().unwrap_or(true),
            fast: v["fast"].as_bool().unwrap_or(false),
            win: if win == "rect" { Win::Rect } else if win == "hann" { Win::Hann } else { Win::Tukey(win.strip_prefix("tukey:").and_then(|p| p.parse().ok()).unwrap_or(0.5)) },
            seek: if seek == "off" { Seek::Off } else if let Some(n) = seek.strip_prefix("frames:") { Seek::Frames(n.parse().unwrap_or(1)) } else if let Some(n) = seek.strip_prefix("seconds:") { Seek::Seconds(n.parse().unwrap_or(1)) } else { Seek::Default },
            pad: if pad == "none" { Pad::None } else if let Some(n) = pad.strip_prefix("size:") { Pad::Size(n.parse().unwrap_or(0)) } else { Pad::Default },
            declared: v["declared"].as_bool().unwrap_or(true),
            preset: v["preset"].as_u64().unwrap_or(0) as u8,
        }
    }
}

/// The option menu of DESIGN §4 (entry 0 of each axis is the default).
pub struct OptMenu;
impl OptMenu {
    pub const BLOCK: &'static [u16] = &[16, 17, 31, 32, 192, 4096, 65535];
    pub const LPC: &'static [Option<u8>] = &[Some(8), None, Some(1), Some(2), Some(12), Some(32)];
    pub const PART: &'static [u32] = &[5, 0, 1, 15];
    pub const MID: &'static [bool] = &[true, false];
    pub const FAST: &'static [bool] = &[false, true];
    pub const WIN: &'static [Win] = &[Win::Tukey(0.5), Win::Rect, Win::Hann, Win::Tukey(1e-9), Win::Tukey(1.0), Win::Tukey(f32::NAN)];
    pub const SEEK: &'static [Seek] = &[Seek::Default, Seek::Off, Seek::Frames(1), Seek::Frames(2), Seek::Frames(3), Seek::Seconds(1)];
    pub const PAD: &'static [Pad] = &[Pad::Default, Pad::None, Pad::Size(20)];
    pub const DECL: &'static [bool] = &[true, false];
    pub fn menus() -> Vec<usize> {
        vec![Self::BLOCK.len(), Self::LPC.len(), Self::PART.len(), Self::MID.len(), Self::FAST.len(), Self::WIN.len(), Self::SEEK.len(), Self::PAD.len(), Self::DECL.len()]
    }
    pub fn pick(v: &[usize]) -> Opt {
        Opt { block: Self::BLOCK[v[0]], lpc: Self::LPC[v[1]], part: Self::PART[v[2]], mid_side: Self::MID[v[3]], fast: Self::FAST[v[4]], win: Self::WIN[v[5]], seek: Self::SEEK[v[6]], pad: Self::PAD[v[7]], declared: Self::DECL[v[8]], preset: 0 }
    }
}

#[derive(Clone, Copy, Debug, PartialEq, Eq)]
pub enum WriterKind {
    ByteLE,
    ByteBE,
    Sample,
    Channel,
}
pub const WRITERS: [WriterKind; 4] = [WriterKind::Sample, WriterKind::ByteLE, WriterKind::ByteBE, WriterKind::Channel];

#[derive(Clone, Copy, Debug, PartialEq, Eq)]
pub enum ReaderKind {
    SampleFill,
    SampleRead,
    SampleIter,
    ByteLE,
    ByteBE,
    ByteFillLE,
    Channel,
    FrameIter,
    /// per-channel reader consuming each returned buffer in two pieces (ceil(n/2), then the rest)
    ChannelPart,
    /// `FlacSampleReader::read` into a buffer larger than any stream of the explored spaces' small files (4099 samples)
    SampleReadBig,
}
pub const READERS: [ReaderKind; 10] = [ReaderKind::SampleFill, ReaderKind::SampleRead, ReaderKind::SampleIter, ReaderKind::ByteLE, ReaderKind::ByteBE, ReaderKind::ByteFillLE, ReaderKind::Channel, ReaderKind::FrameIter, ReaderKind::ChannelPart, ReaderKind::SampleReadBig];

pub fn bytes_per_sample(bps: u32) -> usize {
    bps.div_ceil(8) as usize
}

/// Serialise interleaved samples at ceil(bps/8) bytes, sign-extended.
pub fn pcm_bytes(pcm: &[i32], bps: u32, big: bool) -> Vec<u8> {
    let w = bytes_per_sample(bps);
    let mut out = Vec::with_capacity(pcm.len() * w);
    for s in pcm {
        let le = s.to_le_bytes();
        if big {
            for i in (0..w).rev() {
                out.push(le[i]);
            }
        } else {
            out.extend_from_slice(&le[..w]);
        }
    }
    out
}
pub fn bytes_pcm(b: &[u8], bps: u32, big: bool) -> Vec<i32> {
    let w = bytes_per_sample(bps);
    b.chunks_exact(w)
        .map(|c| {
            let mut v: i32 = 0;
            for i in 0..w {
                let byte = if big { c[w - 1 - i] } else { c[i] } as i32;
                v |= byte << (8 * i);
            }
            let sh = 32 - 8 * w as u32;
            (v << sh) >> sh
        })
        .collect()
}
pub fn deinterleave(pcm: &[i32], ch: usize) -> Vec<Vec<i32>> {
    (0..ch).map(|c| pcm.iter().skip(c).step_by(ch).copied().collect()).collect()
}
pub fn interleave(chs: &[Vec<i32>]) -> Vec<i32> {
    if chs.is_empty() {
        return vec![];
    }
    let n = chs[0].len();
    let mut out = Vec::with_capacity(n * chs.len());
    for i in 0..n {
        for c in chs {
            out.push(c[i]);
        }
    }
    out
}

#[derive(Clone, Debug)]
pub struct Sig {
    pub rate: u32,
    pub bps: u32,
    pub ch: u8,
}

/// Encode `pcm` (interleaved) in one write call through the chosen writer and finalize.
pub fn encode(w: WriterKind, opt: &Opt, sig: &Sig, pcm: &[i32]) -> Result<Vec<u8>, String> {
    encode_calls(w, opt, sig, pcm, None)
}

/// Encode with the input split across write calls at `cuts` (indices in the writer's native unit:
/// bytes for byte writers, samples for the sample writer, PCM frames for the channel writer).
pub fn encode_calls(w: WriterKind, opt: &Opt, sig: &Sig, pcm: &[i32], cuts: Option<&[usize]>) -> Result<Vec<u8>, String> {
    encode_hist(w, opt, sig, pcm, cuts, false, false)
}

/// `encode_calls` with two more history dimensions: `flush` = the byte writers' `io::Write::flush` is called after
/// every write call (the other writers have no flush); `drop_it` = the writer is dropped instead of finalized.
pub fn encode_hist(w: WriterKind, opt: &Opt, sig: &Sig, pcm: &[i32], cuts: Option<&[usize]>, flush: bool, drop_it: bool) -> Result<Vec<u8>, String> {
    encode_sink(w, opt, sig, pcm, cuts, flush, drop_it, 0)
}

/// `encode_hist` over a sink that accepts at most `max_write` bytes per write call (0 = whole buffers): a legal short-writing
/// `io::Write`; the finished file must not depend on it.
#[allow(clippy::too_many_arguments)]
pub fn encode_sink(w: WriterKind, opt: &Opt, sig: &Sig, pcm: &[i32], cuts: Option<&[usize]>, flush: bool, drop_it: bool, max_write: usize) -> Result<Vec<u8>, String> {
    let options = opt.to_options()?;
    let r = guarded(|| -> Result<Vec<u8>, String> {
        let mut out = crate::devices::MemDevice::new(Vec::new(), 0);
        out.max_write = max_write;
        out.quiet = true;
        let ch = sig.ch as usize;
        let frames = if ch > 0 { pcm.len() / ch } else { 0 };
        let e = |x: flac_codec::Error| format!("err:{x:?}");
        let pieces = |len: usize| -> Vec<(usize, usize)> {
            let mut v = Vec::new();
            let mut p = 0;
            for &c in cuts.unwrap_or(&[]) {
                v.push((p, c));
                p = c;
            }
            v.push((p, len));
            v
        };
        match w {
            WriterKind::Sample => {
                let total = opt.declared.then_some(pcm.len() as u64);
                let mut wr = FlacSampleWriter::new(&mut out, options, sig.rate, sig.bps, sig.ch, total).map_err(e)?;
                for (a, b) in pieces(pcm.len()) {
                    wr.write(&pcm[a..b]).map_err(e)?;
                }
                if drop_it { drop(wr) } else { wr.finalize().map_err(e)? }
            }
            WriterKind::ByteLE | WriterKind::ByteBE => {
                let big = w == WriterKind::ByteBE;
                let bytes = pcm_bytes(pcm, sig.bps, big);
                let total = opt.declared.then_some(bytes.len() as u64);
                let ioe = |x: std::io::Error| format!("err:io:{:?}:{}", x.kind(), x);
                if big {
                    let mut wr = FlacByteWriter::endian(&mut out, BigEndian, options, sig.rate, sig.bps, sig.ch, total).map_err(e)?;
                    for (a, b) in pieces(bytes.len()) {
                        wr.write_all(&bytes[a..b]).map_err(ioe)?;
                        if flush {
                            wr.flush().map_err(ioe)?;
                        }
                    }
                    if drop_it { drop(wr) } else { wr.finalize().map_err(e)? }
                } else {
                    let mut wr = FlacByteWriter::endian(&mut out, LittleEndian, options, sig.rate, sig.bps, sig.ch, total).map_err(e)?;
                    for (a, b) in pieces(bytes.len()) {
                        wr.write_all(&bytes[a..b]).map_err(ioe)?;
                        if flush {
                            wr.flush().map_err(ioe)?;
                        }
                    }
                    if drop_it { drop(wr) } else { wr.finalize().map_err(e)? }
                }
            }
            WriterKind::Channel => {
                let chans = deinterleave(pcm, ch);
                let total = opt.declared.then_some(frames as u64);
                let mut wr = FlacChannelWriter::new(&mut out, options, sig.rate, sig.bps, sig.ch, total).map_err(e)?;
                for (a, b) in pieces(frames) {
                    let part: Vec<&[i32]> = chans.iter().map(|c| &c[a..b]).collect();
                    wr.write(&part).map_err(e)?;
                }
                if drop_it { drop(wr) } else { wr.finalize().map_err(e)? }
            }
        }
        Ok(out.data)
    });
    match r {
        Ok(x) => x,
        Err(p) => Err(format!("panic:{p}")),
    }
}

#[derive(Clone, Debug, PartialEq)]
pub struct Decoded {
    pub pcm: Vec<i32>,
    pub ch: u8,
    pub rate: u32,
    pub bps: u32,
}

/// Full decode through one reader front-end. `Err` carries what was delivered before the error.
pub fn decode(r: ReaderKind, bytes: &[u8]) -> Result<Decoded, (String, Vec<i32>)> {
    let mut got: Vec<i32> = Vec::new();
    let res = guarded(|| -> Result<Decoded, String> {
        let e = |x: flac_codec::Error| format!("err:{x:?}");
        let ioe = |x: std::io::Error| format!("err:io:{:?}:{}", x.kind(), x);
        let src = Cursor::new(bytes);
        match r {
            ReaderKind::SampleFill => {
                let mut rd = FlacSampleReader::new(src).map_err(e)?;
                let (ch, rate, bps) = (rd.channel_count(), rd.sample_rate(), rd.bits_per_sample());
                loop {
                    let b = rd.fill_buf().map_err(e)?;
                    if b.is_empty() {
                        break;
                    }
                    let n = b.len();
                    got.extend_from_slice(b);
                    rd.consume(n);
                }
                Ok(Decoded { pcm: vec![], ch, rate, bps })
            }
            ReaderKind::SampleRead | ReaderKind::SampleReadBig => {
                let mut rd = FlacSampleReader::new(src).map_err(e)?;
                let (ch, rate, bps) = (rd.channel_count(), rd.sample_rate(), rd.bits_per_sample());
                let mut buf = vec![0i32; if r == ReaderKind::SampleRead { 7 } else { 4099 }];
                loop {
                    let n = rd.read(&mut buf).map_err(e)?;
                    if n == 0 {
                        break;
                    }
                    got.extend_from_slice(&buf[..n]);
                }
                Ok(Decoded { pcm: vec![], ch, rate, bps })
            }
            ReaderKind::SampleIter => {
                let rd = FlacSampleReader::new(src).map_err(e)?;
                let (ch, rate, bps) = (rd.channel_count(), rd.sample_rate(), rd.bits_per_sample());
                for s in rd {
                    got.push(s.map_err(e)?);
                }
                Ok(Decoded { pcm: vec![], ch, rate, bps })
            }
            ReaderKind::ByteLE | ReaderKind::ByteBE | ReaderKind::ByteFillLE => {
                let big = r == ReaderKind::ByteBE;
                let mut raw = Vec::new();
                let (ch, rate, bps);
                let res: Result<(), String>;
                if big {
                    let mut rd = FlacByteReader::endian(src, BigEndian).map_err(e)?;
                    (ch, rate, bps) = (rd.channel_count(), rd.sample_rate(), rd.bits_per_sample());
                    let mut buf = [0u8; 5];
                    res = loop {
                        match rd.read(&mut buf) {
                            Ok(0) => break Ok(()),
                            Ok(n) => raw.extend_from_slice(&buf[..n]),
                            Err(x) => break Err(ioe(x)),
                        }
                    };
                } else if r == ReaderKind::ByteLE {
                    let mut rd = FlacByteReader::endian(src, LittleEndian).map_err(e)?;
                    (ch, rate, bps) = (rd.channel_count(), rd.sample_rate(), rd.bits_per_sample());
                    let mut buf = [0u8; 5];
                    res = loop {
                        match rd.read(&mut buf) {
                            Ok(0) => break Ok(()),
                            Ok(n) => raw.extend_from_slice(&buf[..n]),
                            Err(x) => break Err(ioe(x)),
                        }
                    };
                } else {
                    use std::io::BufRead;
                    let mut rd = FlacByteReader::endian(src, LittleEndian).map_err(e)?;
                    (ch, rate, bps) = (rd.channel_count(), rd.sample_rate(), rd.bits_per_sample());
                    res = loop {
                        match rd.fill_buf() {
                            Ok([]) => break Ok(()),
                            Ok(b) => {
                                let n = b.len();
                                raw.extend_from_slice(b);
                                rd.consume(n);
                            }
                            Err(x) => break Err(ioe(x)),
                        }
                    };
                }
                got.extend(bytes_pcm(&raw, bps, big));
                res?;
                Ok(Decoded { pcm: vec![], ch, rate, bps })
            }
            ReaderKind::Channel | ReaderKind::ChannelPart => {
                let mut rd = FlacChannelReader::new(src).map_err(e)?;
                let (ch, rate, bps) = (rd.channel_count(), rd.sample_rate(), rd.bits_per_sample());
                loop {
                    let b = rd.fill_buf().map_err(e)?;
                    let n = b.first().map(|c| c.len()).unwrap_or(0);
                    if n == 0 {
                        break;
                    }
                    let n = if r == ReaderKind::ChannelPart { n.div_ceil(2) } else { n };
                    for i in 0..n {
                        for c in &b {
                            got.push(c[i]);
                        }
                    }
                    drop(b);
                    rd.consume(n);
                }
                Ok(Decoded { pcm: vec![], ch, rate, bps })
            }
            ReaderKind::FrameIter => {
                use flac_codec::stream::{ChannelAssignment, FrameIterator, SubframeWidth};
                let it = FrameIterator::new(src).map_err(e)?;
                let (ch, rate, bps) = (it.channel_count(), it.sample_rate(), it.bits_per_sample());
                for fr in it {
                    let (frame, _off) = fr.map_err(e)?;
                    let subs: Vec<Vec<i64>> = frame
                        .subframes
                        .iter()
                        .map(|s| match s {
                            SubframeWidth::Common(s) => s.decode().map(i64::from).collect(),
                            SubframeWidth::Wide(s) => s.decode().collect(),
                        })
                        .collect();
                    let n = subs.first().map(|s| s.len()).unwrap_or(0);
                    if subs.iter().any(|s| s.len() != n) {
                        return Err("err:structural-subframe-length-mismatch".into());
                    }
                    let chans: Vec<Vec<i64>> = match frame.header.channel_assignment {
                        ChannelAssignment::Independent(_) => subs,
                        ChannelAssignment::LeftSide => {
                            let r: Vec<i64> = subs[0].iter().zip(&subs[1]).map(|(l, s)| l - s).collect();
                            vec![subs[0].clone(), r]
                        }
                        ChannelAssignment::SideRight => {
                            let l: Vec<i64> = subs[0].iter().zip(&subs[1]).map(|(s, r)| s + r).collect();
                            vec![l, subs[1].clone()]
                        }
                        ChannelAssignment::MidSide => {
                            let mut l = Vec::new();
                            let mut rr = Vec::new();
                            for (m, s) in subs[0].iter().zip(&subs[1]) {
                                let mm = 2 * m + s.rem_euclid(2);
                                l.push((mm + s) >> 1);
                                rr.push((mm - s) >> 1);
                            }
                            vec![l, rr]
                        }
                    };
                    for i in 0..n {
                        for c in &chans {
                            got.push(c[i] as i32);
                        }
                    }
                }
                Ok(Decoded { pcm: vec![], ch, rate, bps })
            }
        }
    });
    match res {
        Ok(Ok(mut d)) => {
            d.pcm = got;
            Ok(d)
        }
        Ok(Err(s)) => Err((s, got)),
        Err(p) => Err((format!("panic:{p}"), got)),
    }
}

pub fn case_json(kind: &str, w: WriterKind, opt: &Opt, sig: &Sig, pcm: &[i32]) -> Value {
    obj(vec![
        ("kind", json!(kind)),
        ("writer", json!(format!("{w:?}"))),
        ("opt", opt.to_json()),
        ("rate", json!(sig.rate)),
        ("bps", json!(sig.bps)),
        ("ch", json!(sig.ch)),
        ("pcm", json!(pcm)),
    ])
}
pub fn writer_from(s: &str) -> WriterKind {
    match s {
        "ByteLE" => WriterKind::ByteLE,
        "ByteBE" => WriterKind::ByteBE,
        "Channel" => WriterKind::Channel,
        _ => WriterKind::Sample,
    }
}
pub fn reader_from(s: &str) -> ReaderKind {
    for r in READERS {
        if format!("{r:?}") == s {
            return r;
        }
    }
    ReaderKind::SampleFill
}
pub fn sig_from(v: &Value) -> Sig {
    Sig { rate: v["rate"].as_u64().unwrap_or(44100) as u32, bps: v["bps"].as_u64().unwrap_or(16) as u32, ch: v["ch"].as_u64().unwrap_or(1) as u8 }
}

/// Normalise an error string to a short class usable in signatures ("panic:<loc>" or "err:<Variant>").
pub fn err_class(e: &str) -> String {
    if let Some(p) = e.strip_prefix("panic:") {
        format!("panic@{}", crate::core::panic_loc(p))
    } else {
        let s = e.strip_prefix("err:").unwrap_or(e);
        let end = s.find(|c: char| !(c.is_alphanumeric() || c == ':' || c == '_')).unwrap_or(s.len());
        format!("err:{}", &s[..end])
    }
}
