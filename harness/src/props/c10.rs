//! C10 — metadata updates never disturb the audio and are size-neutral when in place.
//! Shape H: BFS over edit histories applied through the real `update_file`; state = the file bytes (exact,
//! de-duplicated by content). Edits are parameterised by the *current* padding so that size deltas sweep
//! −8..+8 around an exact fit.
use crate::codec::{encode, Opt, Pad, Seek, Sig, WriterKind};
use crate::core::{fnv64, guarded, hex, unhex, Acc, Ctx};
use crate::corpus::ident_pcm;
use crate::devices::MemDevice;
use flac_codec::metadata::{update_file, write_blocks, Application, BlockList, Padding, Picture, PictureType, VorbisComment};
use serde_json::{json, Value};
use std::collections::{HashSet, VecDeque};
use vph::refdec;

pub const RULE: &str = "initial files: stereo 16-bit, 40 PCM frames, with {no, one 0-byte, one 1-byte, one 20-byte, one 100-byte, two (20+7)} padding blocks × {no comment, comment} × {no, one application block} × {seek table, none}; edit alphabet applied through update_file: grow/shrink the comment so that (new metadata size − old) = first padding size + d for every d ∈ −8..+8, shrink the comment by 1..8 bytes, remove the comment, add application blocks of 0/1/100 bytes, remove applications, add a second padding, resize the first padding to 0/1/20, remove all padding, move padding first / reverse block order, no-op, callback returning Err, and invalid lists (two 32×32 icons, two general icons, a 2^24-byte application block, padding pushed past 2^24−1 by shrinking a 16 MiB neighbour); BFS over ALL edit sequences to depth 2 (thorough 3) from every initial file with content de-duplication; per transition: audio bytes from the first frame on are identical and still decode to the same PCM; Ok(false) ⇒ file length unchanged and the blocks read back equal the edited list apart from the first padding's size; Ok(true) ⇒ rebuilt sink == write_blocks(edited list) ++ identical frames and the original is untouched; Err ⇒ original byte-for-byte untouched and nothing written to the sink; plus path-like updates where the `rebuilt` closure truncates the very file being read (what metadata::update(path) does with File::create): 3 file sizes (40 PCM frames, 9 KB and 40 KB of incompressible audio, i.e. beyond any 8 KiB I/O buffer) × {no padding, 100-byte padding} × 8 edits, same oracle on the single aliased file, and the same cases once more on a real scratch file through the path-based metadata::update; plus streams embedded behind a 7- / 300-byte foreign prefix with the handle positioned at the stream (12 initial files × 10 edits): the prefix survives and the stream behind it is the edited stream";
pub const ASSUMPTIONS: &[&str] = &["edits replace the block list with a pre-computed edited list inside the callback (equivalent to in-place mutation since BlockList is plain data)", "write_blocks/BlockList::read themselves are C11's business"];
pub fn bounds(quick: bool) -> Value {
    json!({"depth": if quick { 2 } else { 3 }, "size_delta": "-8..+8 around exact fit", "initial_files": 48})
}

fn ser(b: &BlockList) -> Result<Vec<u8>, String> {
    let mut v = Vec::new();
    write_blocks(&mut v, b.blocks()).map_err(|e| format!("{e:?}"))?;
    Ok(v)
}

/// (type, body) list of a metadata section (own 4-byte header walk)
fn blocks_of(bytes: &[u8]) -> Vec<(u8, Vec<u8>)> {
    let mut v = Vec::new();
    let mut p = 4;
    while p + 4 <= bytes.len() {
        let last = bytes[p] & 0x80 != 0;
        let t = bytes[p] & 0x7F;
        let l = ((bytes[p + 1] as usize) << 16) | ((bytes[p + 2] as usize) << 8) | bytes[p + 3] as usize;
        if p + 4 + l > bytes.len() {
            break;
        }
        v.push((t, bytes[p + 4..p + 4 + l].to_vec()));
        p += 4 + l;
        if last {
            break;
        }
    }
    v
}

fn first_padding(b: &BlockList) -> Option<u32> {
    b.get::<Padding>().map(|p| u32::from(p.size))
}

pub const EDITS: &[&str] = &[
    "fit:-8", "fit:-7", "fit:-6", "fit:-5", "fit:-4", "fit:-3", "fit:-2", "fit:-1", "fit:0", "fit:1", "fit:2", "fit:3", "fit:4", "fit:5", "fit:6", "fit:7", "fit:8",
    "shrink:1", "shrink:2", "shrink:3", "shrink:4", "shrink:8", "shrink:100", "rm-comment", "app:0", "app:1", "app:100", "rm-app", "pad2", "pad=:0", "pad=:1", "pad=:20", "rm-pad", "pad-first", "reverse", "noop",
    "cb-err", "two-png-icons", "two-general-icons", "app-16M", "pad-overflow",
];

/// The edited list for `edit` on `cur` (None = not applicable in this state).
fn edited(edit: &str, cur: &BlockList) -> Option<BlockList> {
    let (name, arg) = edit.split_once(':').unwrap_or((edit, ""));
    let mut b = cur.clone();
    let title_len = |b: &BlockList| b.get::<VorbisComment>().and_then(|v| v.get("TITLE").map(|s| s.len()));
    match name {
        "fit" => {
            let d: i64 = arg.parse().ok()?;
            let p = first_padding(cur)? as i64;
            let s0 = ser(cur).ok()?.len() as i64;
            b.update::<VorbisComment>(|v| v.set("TITLE", ""));
            let base = ser(&b).ok()?.len() as i64;
            let l = s0 + p + d - base;
            if !(0..=5000).contains(&l) {
                return None;
            }
            b.update::<VorbisComment>(|v| v.set("TITLE", "x".repeat(l as usize)));
        }
        "shrink" => {
            let d: usize = arg.parse().ok()?;
            let l = title_len(cur)?;
            if l < d {
                return None;
            }
            b.update::<VorbisComment>(|v| v.set("TITLE", "y".repeat(l - d)));
        }
        "rm-comment" => {
            cur.get::<VorbisComment>()?;
            b.remove::<VorbisComment>();
        }
        "app" => {
            let n: usize = arg.parse().ok()?;
            if cur.get_all::<Application>().count() >= 3 {
                return None;
            }
            b.insert(Application { id: 0x74657374, data: vec![0xAB; n] });
        }
        "rm-app" => {
            cur.get::<Application>()?;
            b.remove::<Application>();
        }
        "pad2" => {
            if cur.get_all::<Padding>().count() >= 3 {
                return None;
            }
            b.insert(Padding { size: 5u8.into() });
        }
        "pad=" => {
            let n: u32 = arg.parse().ok()?;
            cur.get::<Padding>()?;
            b.get_mut::<Padding>().unwrap().size = n.try_into().ok()?;
        }
        "rm-pad" => {
            cur.get::<Padding>()?;
            b.remove::<Padding>();
        }
        "pad-first" => b.sort_by(|t| match t { flac_codec::metadata::OptionalBlockType::Padding => 0, _ => 1 }),
        "reverse" => b.sort_by(|t| match t { flac_codec::metadata::OptionalBlockType::Padding => 0, flac_codec::metadata::OptionalBlockType::Application => 1, flac_codec::metadata::OptionalBlockType::SeekTable => 2, _ => 3 }),
        "noop" | "cb-err" => {}
        "two-png-icons" | "two-general-icons" => {
            let t = if name == "two-png-icons" { PictureType::Png32x32 } else { PictureType::GeneralFileIcon };
            for _ in 0..2 {
                b.insert(Picture { picture_type: t, media_type: "image/png".into(), description: String::new(), width: 32, height: 32, color_depth: 24, colors_used: None, data: vec![1, 2, 3] });
            }
        }
        "app-16M" => {
            b.insert(Application { id: 1, data: vec![0; 1 << 24] });
        }
        "pad-overflow" => {
            // a 16 MiB-class neighbour shrinks: the freed bytes cannot all go into the first padding (24-bit size limit)
            return None; // handled by the dedicated big-file scenario below
        }
        _ => return None,
    }
    Some(b)
}

#[derive(Debug)]
pub struct StepOut {
    pub next: Option<Vec<u8>>, // new file contents (None when the call failed)
    pub label: String,
}

/// One transition on the real update_file + full oracle. Err((clause, detail)) = violation.
pub fn step(file: &[u8], edit: &str) -> Result<Option<StepOut>, (String, String)> {
    let cur = match BlockList::read(file) {
        Ok(b) => b,
        Err(e) => return Err(("state-unreadable".into(), format!("BlockList::read fails on a file produced by a successful update: {e:?}"))),
    };
    let new_list = match edited(edit, &cur) {
        Some(b) => b,
        None => return Ok(None),
    };
    let st0 = refdec::decode(file).map_err(|r| ("machinery-state-undecodable".to_string(), format!("{} {}", r.code, r.msg)))?;
    let f0 = st0.first_frame_offset;
    let mut dev = MemDevice::new(file.to_vec(), 0);
    let mut sink = MemDevice::new(vec![], 0);
    let nl = new_list.clone();
    let cb_err = edit == "cb-err";
    let res = guarded(|| {
        let sink_ref = &mut sink;
        update_file::<_, _, flac_codec::Error>(&mut dev, move || Ok(sink_ref), move |b: &mut BlockList| {
            if cb_err {
                return Err(flac_codec::Error::InvalidSeek);
            }
            *b = nl;
            Ok(())
        })
    });
    let res = match res {
        Ok(r) => r,
        Err(p) => return Err((format!("panic@{}", crate::core::panic_loc(&p)), format!("update_file panics: {p}"))),
    };
    let audio0 = &file[f0..];
    match res {
        Err(e) => {
            if dev.data != file {
                return Err(("failed-update-modified-original".into(), format!("update_file returned Err({e:?}) but the original file changed")));
            }
            if !sink.data.is_empty() {
                return Err(("failed-update-wrote-to-sink".into(), format!("update_file returned Err({e:?}) but {} bytes were written to the rebuilt sink", sink.data.len())));
            }
            let expected_invalid = cb_err || ser(&new_list).is_err();
            // (refusing an edit that looks valid is not forbidden by the property as long as nothing was touched)
            Ok(Some(StepOut { next: None, label: format!("Err{}:{}", if expected_invalid { "" } else { "-on-valid-edit" }, format!("{e:?}").split('(').next().unwrap()) }))
        }
        Ok(rebuilt) => {
            if cb_err {
                return Err(("callback-error-swallowed".into(), "the callback returned Err but update_file returned Ok".into()));
            }
            let want_meta = match ser(&new_list) {
                Ok(m) => m,
                Err(e) => return Err(("invalid-list-accepted".into(), format!("update_file returned Ok although write_blocks refuses the edited list: {e}"))),
            };
            let newfile: Vec<u8> = if rebuilt {
                if dev.data != file {
                    return Err(("rebuild-modified-original".into(), "update reported as rebuilt but the original was modified as well".into()));
                }
                let mut want = want_meta.clone();
                want.extend_from_slice(audio0);
                if sink.data != want {
                    return Err(("rebuilt-file-wrong".into(), format!("rebuilt sink has {} bytes, expected edited blocks ({}) + frames ({}); first difference at {:?}", sink.data.len(), want_meta.len(), audio0.len(), sink.data.iter().zip(&want).position(|(a, b)| a != b))));
                }
                sink.data.clone()
            } else {
                if !sink.data.is_empty() {
                    return Err(("in-place-wrote-to-sink".into(), "update reported as in place but the rebuilt sink received data".into()));
                }
                if dev.data.len() != file.len() {
                    return Err(("in-place-changed-length".into(), format!("file length {} → {}", file.len(), dev.data.len())));
                }
                // blocks read back == edited list apart from the first padding's size
                let got = blocks_of(&dev.data);
                let want = blocks_of(&want_meta);
                let mut seen_pad = false;
                let same = got.len() == want.len()
                    && got.iter().zip(&want).all(|(g, w)| {
                        if g.0 == 1 && w.0 == 1 && !seen_pad {
                            seen_pad = true;
                            true
                        } else {
                            g == w
                        }
                    });
                if !same {
                    return Err(("in-place-blocks-differ".into(), format!("blocks read back {:?} differ from the edited list {:?}", got.iter().map(|x| (x.0, x.1.len())).collect::<Vec<_>>(), want.iter().map(|x| (x.0, x.1.len())).collect::<Vec<_>>())));
                }
                dev.data.clone()
            };
            // audio untouched
            let st1 = match refdec::decode(&newfile) {
                Ok(s) => s,
                Err(r) => return Err(("updated-file-undecodable".into(), format!("independent decoder rejects the updated file: {} {}", r.code, r.msg))),
            };
            if &newfile[st1.first_frame_offset..] != audio0 {
                return Err(("audio-bytes-changed".into(), format!("bytes from the first frame on differ (first frame now at {}, was {f0})", st1.first_frame_offset)));
            }
            if st1.pcm != st0.pcm {
                return Err(("pcm-changed".into(), "the updated file decodes to different PCM".into()));
            }
            Ok(Some(StepOut { next: Some(newfile), label: if rebuilt { "rebuilt".into() } else { "in-place".into() } }))
        }
    }
}

pub fn initial_files() -> Vec<(String, Vec<u8>)> {
    let sig = Sig { rate: 44100, bps: 16, ch: 2 };
    let pcm = ident_pcm(2, 16, 40);
    let mut v = Vec::new();
    for (pn, pads) in [("nopad", vec![]), ("pad0", vec![0u32]), ("pad1", vec![1]), ("pad20", vec![20]), ("pad100", vec![100]), ("pad20+7", vec![20, 7])] {
        for comment in [false, true] {
            for app in [false, true] {
                for seek in [Seek::Off, Seek::Frames(1)] {
                    let opt = Opt { seek, pad: Pad::None, ..Opt::base16() };
                    let base = encode(WriterKind::Sample, &opt, &sig, &pcm).expect("c10 corpus");
                    let mut b = BlockList::read(&base[..]).unwrap();
                    let mlen = ser(&b).unwrap().len();
                    if comment {
                        let mut vc = VorbisComment::default();
                        vc.insert("TITLE", "abcdefghijkl");
                        b.insert(vc);
                    }
                    if app {
                        b.insert(Application { id: 0x61707031, data: vec![9; 10] });
                    }
                    for p in &pads {
                        b.insert(Padding { size: (*p).try_into().unwrap() });
                    }
                    let mut out = ser(&b).unwrap();
                    out.extend_from_slice(&base[mlen..]);
                    v.push((format!("{pn}-{}-{}-{}", if comment { "comment" } else { "nocomment" }, if app { "app" } else { "noapp" }, if seek == Seek::Off { "noseek" } else { "seek" }), out));
                }
            }
        }
    }
    v
}

/// dedicated scenario: first padding next to the 24-bit limit, a large neighbour shrinks
fn big_scenarios() -> Vec<(String, Vec<u8>, BlockList)> {
    let sig = Sig { rate: 44100, bps: 16, ch: 1 };
    let base = encode(WriterKind::Sample, &Opt { seek: Seek::Off, pad: Pad::None, ..Opt::base16() }, &sig, &ident_pcm(1, 16, 20)).expect("c10 corpus");
    let mut v = Vec::new();
    for padsize in [(1u32 << 24) - 1, (1 << 24) - 5] {
        let mut b = BlockList::read(&base[..]).unwrap();
        let mlen = ser(&b).unwrap().len();
        b.insert(Application { id: 7, data: vec![3; 1000] });
        b.insert(Padding { size: padsize.try_into().unwrap() });
        let mut file = ser(&b).unwrap();
        file.extend_from_slice(&base[mlen..]);
        // edit: shrink the application block by 100 bytes → padding would have to grow past 2^24-1
        let mut nb = b.clone();
        nb.get_mut::<Application>().unwrap().data.truncate(900);
        v.push((format!("pad-overflow-{padsize}"), file, nb));
    }
    v
}


// ---------- path-like updates: the `rebuilt` closure re-creates (truncates) the very file that is being read, which is
// what the path-based `metadata::update` does with `File::create(path)`; files larger than any I/O buffer included
#[derive(Clone)]
struct SharedFile(std::rc::Rc<std::cell::RefCell<Vec<u8>>>);
struct Handle {
    f: SharedFile,
    pos: usize,
}
impl std::io::Read for Handle {
    fn read(&mut self, buf: &mut [u8]) -> std::io::Result<usize> {
        let d = self.f.0.borrow();
        let off = self.pos.min(d.len());
        let n = buf.len().min(d.len() - off);
        buf[..n].copy_from_slice(&d[off..off + n]);
        self.pos += n;
        Ok(n)
    }
}
impl std::io::Write for Handle {
    fn write(&mut self, buf: &[u8]) -> std::io::Result<usize> {
        let mut d = self.f.0.borrow_mut();
        if d.len() < self.pos + buf.len() {
            d.resize(self.pos + buf.len(), 0);
        }
        d[self.pos..self.pos + buf.len()].copy_from_slice(buf);
        self.pos += buf.len();
        Ok(buf.len())
    }
    fn flush(&mut self) -> std::io::Result<()> {
        Ok(())
    }
}
impl std::io::Seek for Handle {
    fn seek(&mut self, p: std::io::SeekFrom) -> std::io::Result<u64> {
        let np: i128 = match p {
            std::io::SeekFrom::Start(x) => x as i128,
            std::io::SeekFrom::Current(d) => self.pos as i128 + d as i128,
            std::io::SeekFrom::End(d) => self.f.0.borrow().len() as i128 + d as i128,
        };
        if np < 0 {
            return Err(std::io::Error::new(std::io::ErrorKind::InvalidInput, "negative seek"));
        }
        self.pos = np as usize;
        Ok(self.pos as u64)
    }
}

fn alias_files() -> Vec<(String, Vec<u8>)> {
    let sig = Sig { rate: 44100, bps: 16, ch: 2 };
    let mut v = Vec::new();
    for (sz, frames) in [("small", 40usize), ("9k", 2100), ("40k", 9000)] {
        // position-identifying noise: the frames are incompressible, so the audio is far larger than an 8 KiB buffer
        let mut g = crate::core::Lcg(0x5eed_c10a);
        let pcm: Vec<i32> = (0..frames * 2).map(|_| (g.next() % 65536) as i32 - 32768).collect();
        for pad in [None, Some(100u32)] {
            let base = encode(WriterKind::Sample, &Opt { seek: Seek::Off, pad: Pad::None, block: 256, ..Opt::base16() }, &sig, &pcm).expect("c10 corpus");
            let mut b = BlockList::read(&base[..]).unwrap();
            let mlen = ser(&b).unwrap().len();
            let mut vc = VorbisComment::default();
            vc.insert("TITLE", "abcdefghijkl");
            b.insert(vc);
            if let Some(p) = pad {
                b.insert(Padding { size: p.try_into().unwrap() });
            }
            let mut out = ser(&b).unwrap();
            out.extend_from_slice(&base[mlen..]);
            assert!(frames < 100 || out.len() > 4 * frames * 9 / 10, "alias corpus file is not incompressible");
            v.push((format!("alias-{sz}-{}", if pad.is_some() { "pad100" } else { "nopad" }), out));
        }
    }
    v
}
const ALIAS_EDITS: &[&str] = &["fit:8", "fit:0", "shrink:3", "app:100", "rm-comment", "noop", "pad2", "rm-pad"];

fn alias_step(file: &[u8], edit: &str, on_disk: bool) -> Result<Option<String>, (String, String)> {
    let cur = BlockList::read(file).map_err(|e| ("machinery".to_string(), format!("{e:?}")))?;
    let new_list = match edited(edit, &cur) {
        Some(b) => b,
        None => return Ok(None),
    };
    let st0 = refdec::decode(file).map_err(|r| ("machinery-state-undecodable".to_string(), format!("{} {}", r.code, r.msg)))?;
    let audio0 = &file[st0.first_frame_offset..];
    if on_disk {
        return disk_step(file, &new_list, audio0);
    }
    let shared = SharedFile(std::rc::Rc::new(std::cell::RefCell::new(file.to_vec())));
    let (s1, s2) = (shared.clone(), shared.clone());
    let nl = new_list.clone();
    let res = guarded(move || {
        update_file::<_, _, flac_codec::Error>(
            Handle { f: s1, pos: 0 },
            move || {
                s2.0.borrow_mut().clear(); // File::create(path) truncates the file that is still open for reading
                Ok(Handle { f: s2.clone(), pos: 0 })
            },
            move |b: &mut BlockList| {
                *b = nl;
                Ok(())
            },
        )
    })
    .map_err(|p| (format!("panic@{}", crate::core::panic_loc(&p)), format!("update_file panics: {p}")))?;
    let after = shared.0.borrow().clone();
    judge_update(file, &after, res, &new_list, audio0, "through a handle that aliases the file")
}

/// update_file on a handle in which the stream does not start at offset 0 (a foreign prefix precedes it and the handle is
/// positioned at the stream's first byte): the prefix must survive and the stream behind it must be the edited stream
fn embedded_step(file: &[u8], edit: &str, prefix: usize) -> Result<Option<String>, (String, String)> {
    let cur = BlockList::read(file).map_err(|e| ("machinery".to_string(), format!("{e:?}")))?;
    let new_list = match edited(edit, &cur) {
        Some(b) => b,
        None => return Ok(None),
    };
    let st0 = refdec::decode(file).map_err(|r| ("machinery-state-undecodable".to_string(), format!("{} {}", r.code, r.msg)))?;
    let audio0 = &file[st0.first_frame_offset..];
    let junk: Vec<u8> = (0..prefix).map(|i| 0x30 + (i % 40) as u8).collect();
    let mut initial = junk.clone();
    initial.extend_from_slice(file);
    let mut dev = MemDevice::new(initial.clone(), prefix as u64);
    let mut sink = MemDevice::new(vec![], 0);
    let nl = new_list.clone();
    let res = guarded(|| {
        let s = &mut sink;
        update_file::<_, _, flac_codec::Error>(&mut dev, move || Ok(s), move |b: &mut BlockList| {
            *b = nl;
            Ok(())
        })
    })
    .map_err(|p| (format!("panic@{}", crate::core::panic_loc(&p)), format!("update_file panics: {p}")))?;
    if dev.data.len() < prefix || dev.data[..prefix] != junk[..] {
        return Err(("bytes-before-the-stream-overwritten".into(), format!("the {prefix} bytes in front of the stream were modified by an update that returned {res:?}")));
    }
    match &res {
        Ok(true) => {
            if dev.data != initial {
                return Err(("rebuild-modified-original".into(), "update reported as rebuilt but the original was modified as well".into()));
            }
            judge_update(file, &sink.data, res, &new_list, audio0, "behind a foreign prefix (rebuilt into the sink)")
        }
        _ => {
            if !sink.data.is_empty() {
                return Err(("in-place-wrote-to-sink".into(), "update not reported as rebuilt but the sink received data".into()));
            }
            judge_update(file, &dev.data[prefix..], res, &new_list, audio0, "behind a foreign prefix")
        }
    }
}

/// the real path-based `metadata::update` on a scratch file below /verif/target/tmp
fn disk_step(file: &[u8], new_list: &BlockList, audio0: &[u8]) -> Result<Option<String>, (String, String)> {
    let dir = std::path::Path::new("/verif/target/tmp").join(format!("c10-path-{}", std::process::id()));
    std::fs::create_dir_all(&dir).map_err(|e| ("machinery".to_string(), format!("{e}")))?;
    let path = dir.join("f.flac");
    std::fs::write(&path, file).map_err(|e| ("machinery".to_string(), format!("{e}")))?;
    let nl = new_list.clone();
    let p2 = path.clone();
    let res = guarded(move || {
        flac_codec::metadata::update::<_, flac_codec::Error>(&p2, move |b: &mut BlockList| {
            *b = nl;
            Ok(())
        })
    });
    let after = std::fs::read(&path).map_err(|e| ("machinery".to_string(), format!("{e}")));
    let _ = std::fs::remove_dir_all(&dir);
    let res = res.map_err(|p| (format!("panic@{}", crate::core::panic_loc(&p)), format!("metadata::update panics: {p}")))?;
    judge_update(file, &after?, res, new_list, audio0, "by metadata::update(path)")
}

fn judge_update(file: &[u8], after: &[u8], res: Result<bool, flac_codec::Error>, new_list: &BlockList, audio0: &[u8], how: &str) -> Result<Option<String>, (String, String)> {
    match res {
        Err(e) => {
            if after != file {
                return Err(("failed-update-modified-file".into(), format!("update returned Err({e:?}) but the file changed ({} → {} bytes)", file.len(), after.len())));
            }
            Ok(Some("refused".into()))
        }
        Ok(rebuilt) => {
            let want_meta = ser(new_list).map_err(|e| ("invalid-list-accepted".to_string(), e))?;
            let st1 = refdec::decode(&after).map_err(|r| ("updated-file-undecodable".to_string(), format!("after a {} update {how}, the independent decoder rejects it: {} {} (file {} → {} bytes)", if rebuilt { "rebuilding" } else { "in-place" }, r.code, r.msg, file.len(), after.len())))?;
            if &after[st1.first_frame_offset..] != audio0 {
                return Err(("audio-bytes-changed".into(), format!("frames differ after the update: {} audio bytes before, {} after", audio0.len(), after.len() - st1.first_frame_offset)));
            }
            if rebuilt {
                if after[..st1.first_frame_offset] != want_meta[..] {
                    return Err(("rebuilt-file-wrong".into(), "rebuilt metadata is not the edited list".into()));
                }
            } else if after.len() != file.len() {
                return Err(("in-place-changed-length".into(), format!("{} → {}", file.len(), after.len())));
            }
            Ok(Some(if rebuilt { "rebuilt".into() } else { "in-place".into() }))
        }
    }
}

pub fn run(ctx: &Ctx, acc: &mut Acc) {
    let depth = if ctx.quick { 2 } else { 3 };
    for (name, file) in initial_files() {
        if !ctx.mine() {
            continue;
        }
        // BFS with content de-duplication
        let mut seen: HashSet<u64> = HashSet::new();
        let mut frontier: VecDeque<(Vec<u8>, Vec<String>)> = VecDeque::new();
        seen.insert(fnv64(&file));
        frontier.push_back((file.clone(), vec![]));
        acc.states += 1;
        while let Some((cur, hist)) = frontier.pop_front() {
            for edit in EDITS {
                let r = step(&cur, edit);
                match r {
                    Ok(None) => {}
                    Ok(Some(out)) => {
                        acc.transitions += 1;
                        acc.executions += 1;
                        acc.outcome(format!("{}:{}", edit.split(':').next().unwrap(), out.label));
                        if let Some(nf) = out.next {
                            if hist.len() + 1 < depth && seen.insert(fnv64(&nf)) {
                                acc.states += 1;
                                let mut h = hist.clone();
                                h.push(edit.to_string());
                                frontier.push_back((nf, h));
                            }
                        }
                    }
                    Err((clause, detail)) => {
                        acc.transitions += 1;
                        acc.executions += 1;
                        acc.outcome(format!("{}:VIOLATION", edit.split(':').next().unwrap()));
                        let mut h = hist.clone();
                        h.push(edit.to_string());
                        acc.violation(format!("C10|{}|{clause}", edit.split(':').next().unwrap()), format!("file {name}, edit history {h:?}: {detail}"), json!({"kind":"edit-history","initial":name,"edits":h}));
                    }
                }
            }
        }
        if acc.samples.len() < 3 {
            acc.sample(json!({"initial": name, "edits": ["fit:0", "shrink:3"], "states_from_this_file": seen.len()}));
        }
    }
    for (name, file) in alias_files() {
        for edit in ALIAS_EDITS {
            if !ctx.mine() {
                continue;
            }
            for on_disk in [false, true] {
            match alias_step(&file, edit, on_disk) {
                Ok(None) => {}
                Ok(Some(l)) => {
                    acc.states += 1;
                    acc.executions += 1;
                    acc.transitions += 1;
                    acc.outcome(format!("alias:{}:{l}", edit.split(':').next().unwrap()));
                }
                Err((c, d)) if c == "machinery" => acc.notes.push(format!("machinery: {name} {edit} on_disk={on_disk}: {d}")),
                Err((c, d)) => {
                    acc.executions += 1;
                    acc.violation(format!("C10|alias{}|{c}", if on_disk { "-disk" } else { "" }), format!("{name}, edit {edit}, {}: {d}", if on_disk { "real file updated with metadata::update(path)" } else { "update through handles that alias one file (as metadata::update(path) does)" }), json!({"kind":"edit-alias","name":name,"edit":edit,"on_disk":on_disk}));
                }
            }
            }
        }
    }
    // streams embedded behind a foreign prefix (shorter and longer than the metadata)
    for (name, file) in initial_files() {
        if !(name.ends_with("-noseek") && (name.starts_with("pad20-") || name.starts_with("nopad-") || name.starts_with("pad100-"))) {
            continue;
        }
        for prefix in [7usize, 300] {
            for edit in ["fit:0", "fit:-3", "fit:5", "shrink:3", "shrink:100", "app:1", "rm-comment", "noop", "pad2", "rm-pad"] {
                if !ctx.mine() {
                    continue;
                }
                match embedded_step(&file, edit, prefix) {
                    Ok(None) => {}
                    Ok(Some(l)) => {
                        acc.states += 1;
                        acc.executions += 1;
                        acc.transitions += 1;
                        acc.outcome(format!("embedded:{}:{l}", edit.split(':').next().unwrap()));
                    }
                    Err((c, d)) if c == "machinery" => acc.notes.push(format!("machinery: {name} {edit} prefix {prefix}: {d}")),
                    Err((c, d)) => {
                        acc.executions += 1;
                        acc.violation(format!("C10|embedded|{c}"), format!("{name}, edit {edit}, stream behind a {prefix}-byte foreign prefix: {d}"), json!({"kind":"edit-embedded","name":name,"edit":edit,"prefix":prefix}));
                    }
                }
            }
        }
    }
    for (name, file, nb) in big_scenarios() {
        if !ctx.mine() {
            continue;
        }
        acc.states += 1;
        acc.executions += 1;
        acc.transitions += 1;
        let r = big_step(&file, &nb);
        match r {
            Ok(l) => acc.outcome(format!("big:{l}")),
            Err((c, d)) => acc.violation(format!("C10|pad-overflow|{c}"), format!("{name}: {d}"), json!({"kind":"edit-big","name":name})),
        }
    }
}

fn big_step(file: &[u8], nb: &BlockList) -> Result<String, (String, String)> {
    let mut dev = MemDevice::new(file.to_vec(), 0);
    let mut sink = MemDevice::new(vec![], 0);
    let nl = nb.clone();
    let res = guarded(|| {
        let s = &mut sink;
        update_file::<_, _, flac_codec::Error>(&mut dev, move || Ok(s), move |b: &mut BlockList| {
            *b = nl;
            Ok(())
        })
    })
    .map_err(|p| (format!("panic@{}", crate::core::panic_loc(&p)), p))?;
    let f0 = refdec::decode(file).map_err(|r| ("machinery".to_string(), r.msg))?.first_frame_offset;
    match res {
        Ok(false) => {
            if dev.data.len() != file.len() || dev.data[f0..] != file[f0..] {
                return Err(("in-place-changed-length-or-audio".into(), format!("length {} → {}", file.len(), dev.data.len())));
            }
            BlockList::read(&dev.data[..]).map_err(|e| ("in-place-result-unreadable".to_string(), format!("{e:?}")))?;
            Ok("in-place".into())
        }
        Ok(true) => {
            let mut want = ser(nb).map_err(|e| ("machinery".to_string(), e))?;
            want.extend_from_slice(&file[f0..]);
            if sink.data != want {
                return Err(("rebuilt-file-wrong".into(), format!("sink {} bytes, expected {}", sink.data.len(), want.len())));
            }
            Ok("rebuilt".into())
        }
        Err(e) => {
            if dev.data != file || !sink.data.is_empty() {
                return Err(("failed-update-modified-file".into(), format!("{e:?}")));
            }
            Ok(format!("refused:{}", format!("{e:?}").split('(').next().unwrap()))
        }
    }
}

pub fn replay(v: &Value) -> Option<(bool, String)> {
    match v["kind"].as_str()? {
        "edit-history" => {
            let name = v["initial"].as_str()?;
            let mut cur = initial_files().into_iter().find(|f| f.0 == name)?.1;
            let edits: Vec<String> = v["edits"].as_array()?.iter().map(|e| e.as_str().unwrap_or("").to_string()).collect();
            let mut log = Vec::new();
            for e in &edits {
                match step(&cur, e) {
                    Ok(None) => log.push(format!("{e}: n/a")),
                    Ok(Some(o)) => {
                        log.push(format!("{e}: {}", o.label));
                        if let Some(n) = o.next {
                            cur = n;
                        }
                    }
                    Err((c, d)) => {
                        log.push(format!("{e}: VIOLATION {c}: {d}"));
                        return Some((true, log.join("\n")));
                    }
                }
            }
            Some((false, log.join("\n")))
        }
        "edit-embedded" => {
            let name = v["name"].as_str()?;
            let file = initial_files().into_iter().find(|f| f.0 == name)?.1;
            let r = embedded_step(&file, v["edit"].as_str()?, v["prefix"].as_u64()? as usize);
            Some((r.is_err(), format!("{r:?}")))
        }
        "edit-alias" => {
            let name = v["name"].as_str()?;
            let file = alias_files().into_iter().find(|f| f.0 == name)?.1;
            let r = alias_step(&file, v["edit"].as_str()?, v["on_disk"].as_bool().unwrap_or(false));
            Some((r.is_err(), format!("{r:?}")))
        }
        "edit-big" => {
            let name = v["name"].as_str()?;
            let (_, file, nb) = big_scenarios().into_iter().find(|s| s.0 == name)?;
            let r = big_step(&file, &nb);
            Some((r.is_err(), format!("{r:?}")))
        }
        _ => None,
    }
}
#[allow(dead_code)]
fn _u() {
    let _ = (hex(&[]), unhex(""));
}
