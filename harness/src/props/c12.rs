//! C12 — metadata and auxiliary parsers are total on arbitrary input (shape G; oracle: totality).
//! Parts: (a) metadata sections + accessors and (c) image sniffers in c12_meta, (b) cue-sheet text in c12_cue.
use crate::core::{Acc, Ctx};
use serde_json::{json, Value};
pub const RULE: &str = "(a) ~20 valid metadata sections (one per block-type combination) × every single-byte substitution × every truncation, size fields forced to {0,1,actual±1,2^24-1}; on everything that parses every accessor is called; (b) all cue-sheet line sequences up to depth 5 (T: 6) over a ~40-template line alphabet × total-sample values; (c) minimal PNG/JPEG/GIF headers × every single-byte substitution × every truncation + all ≤2-byte strings after each magic; both build profiles; oracle: returns (value or error), no panic, bounded allocation, terminates";
pub const ASSUMPTIONS: &[&str] = &["byte-level damage is limited to one substitution (two inside headers/length prefixes in the thorough tier) per base input"];
pub fn bounds(quick: bool) -> Value {
    json!({"cue_depth": if quick {5} else {6}, "byte_substitutions": if quick { "1 per input" } else { "1 per input, 2 inside headers/length prefixes" }})
}
pub fn run(ctx: &Ctx, acc: &mut Acc) {
    super::c12_meta::run(ctx, acc);
    super::c12_cue::run(ctx, acc);
}
pub fn replay(v: &Value) -> Option<(bool, String)> {
    super::c12_meta::replay(v).or_else(|| super::c12_cue::replay(v))
}
