//! C17 — parsed frame structures re-serialise identically and agree with the decoder.
//! Shape G over frames from (1) the crate's own output over the C01 space, (2) the valid fgen space of C03,
//! (3) the malformed fgen space of C04(a). Each frame is isolated into a one-frame stream with unknown total
//! so that no stream-level rule interferes.
use crate::codec::{decode, encode, err_class, ReaderKind};
use crate::core::{for_each_deviation, guarded, hex, unhex, Acc, Ctx};
use crate::encspace::{enumerate, EncCase};
use crate::gspace::{bad_knobs, make_spec, menus};
use flac_codec::stream::{ChannelAssignment, Frame, SubframeWidth};
use serde_json::{json, Value};
use vph::fgen;
use vph::refdec;

pub const RULE: &str = "every frame of (1) the crate's encoder output over C01 sets (b),(d),(g),(h),(i),(j),(k),(l) (thorough: + (a),(e)), (2) every valid fgen stream within 3 (thorough 4) deviations and every stream of the header code-table sweep (all block-size / sample-rate / depth / channel-assignment codes) frames with every partition order 0..15 on blocks up to 32768 samples, and single frames carrying coded frame / sample numbers at every length boundary (0x7F/0x80 … 0x7FFFFFFF fixed, … 0xFFFFFFFFF variable), (3) every fgen stream with one malformation (valid checksums) on the plain stream and its single deviations, is cut out and wrapped into a one-frame stream whose STREAMINFO leaves the total unknown; Frame::read and the streaming decoder must both accept or both reject it; for accepted frames every subframe expands to exactly block-size samples, inverse decorrelation of those samples equals the streaming decoder's output, and Frame::write reproduces the original bytes whenever the independent decoder reports a minimal-length coded number and zero padding bits";
pub const ASSUMPTIONS: &[&str] = &["frames are judged individually under the original STREAMINFO with total/MD5 cleared; stream-level rules (numbering, totals, short-block placement) are C05's business"];
pub fn bounds(quick: bool) -> Value {
    json!({"crate_output_sets": if quick { "b,d,g,h,i" } else { "a,b,d,e,g,h,i" }, "valid_deviations": if quick { 3 } else { 4 }, "malformed": "1 malformation × ≤1 valid deviation"})
}

/// fLaC + STREAMINFO (copied from `file`, total and MD5 cleared, marked last) + one frame
fn one_frame_stream(file: &[u8], frame: &[u8]) -> Vec<u8> {
    let mut h = file[..42].to_vec();
    h[4] = 0x80; // last block, type 0
    // STREAMINFO body starts at 8; total samples = low 4 bits of body[13] + body[14..18]; md5 = body[18..34]
    h[8 + 13] &= 0xF0;
    for b in &mut h[8 + 14..8 + 34] {
        *b = 0;
    }
    h.extend_from_slice(frame);
    h
}

fn structural_samples(f: &Frame) -> Result<Vec<i32>, String> {
    let n = u16::from(f.header.block_size) as usize;
    let subs: Vec<Vec<i64>> = f
        .subframes
        .iter()
        .map(|s| match s {
            SubframeWidth::Common(s) => s.decode().map(i64::from).collect(),
            SubframeWidth::Wide(s) => s.decode().collect(),
        })
        .collect();
    for (i, s) in subs.iter().enumerate() {
        if s.len() != n {
            return Err(format!("subframe {i} expands to {} samples, block size is {n}", s.len()));
        }
    }
    let chans: Vec<Vec<i64>> = match f.header.channel_assignment {
        ChannelAssignment::Independent(_) => subs,
        ChannelAssignment::LeftSide => vec![subs[0].clone(), subs[0].iter().zip(&subs[1]).map(|(l, s)| l.wrapping_sub(*s)).collect()],
        ChannelAssignment::SideRight => vec![subs[0].iter().zip(&subs[1]).map(|(s, r)| s.wrapping_add(*r)).collect(), subs[1].clone()],
        ChannelAssignment::MidSide => {
            let (mut l, mut r) = (Vec::new(), Vec::new());
            for (m, s) in subs[0].iter().zip(&subs[1]) {
                let mm = m.wrapping_mul(2).wrapping_add(s & 1);
                l.push(mm.wrapping_add(*s) >> 1);
                r.push(mm.wrapping_sub(*s) >> 1);
            }
            vec![l, r]
        }
    };
    Ok((0..n).flat_map(|i| chans.iter().map(move |c| c[i] as i32)).collect())
}

/// None = property holds on this frame; Some((clause, detail)).
pub fn judge(file: &[u8], frame: &[u8]) -> (String, Option<(String, String)>) {
    let one = one_frame_stream(file, frame);
    let info = match guarded(|| flac_codec::metadata::read_info(&one[..])) {
        Ok(Ok(i)) => i,
        _ => return ("no-streaminfo".into(), None),
    };
    let a = match guarded(|| Frame::read(&mut &frame[..], &info)) {
        Ok(r) => r,
        Err(p) => return ("panic".into(), Some((format!("Frame::read|panic@{}", crate::core::panic_loc(&p)), p))),
    };
    let b = decode(ReaderKind::SampleFill, &one);
    if let Err((e, _)) = &b {
        if e.starts_with("panic:") {
            return ("panic".into(), Some((format!("decoder|{}", err_class(e)), e.clone())));
        }
    }
    match (&a, &b) {
        (Ok(_), Err((e, _))) => return ("disagree".into(), Some((format!("parser-accepts-decoder-rejects|{}", err_class(e)), format!("Frame::read accepts a frame the streaming decoder rejects with {e}")))),
        (Err(e), Ok(_)) => return ("disagree".into(), Some((format!("decoder-accepts-parser-rejects|{e:?}").split('(').next().unwrap().to_string(), format!("the streaming decoder accepts a frame Frame::read rejects with {e:?}")))),
        (Err(_), Err(_)) => return ("both-reject".into(), None),
        _ => {}
    }
    let (fr, dec) = (a.unwrap(), b.unwrap());
    let ss = match guarded(|| structural_samples(&fr)) {
        Ok(Ok(s)) => s,
        Ok(Err(m)) => return ("expand".into(), Some(("subframe-length".into(), m))),
        Err(p) => return ("panic".into(), Some((format!("Subframe::decode|panic@{}", crate::core::panic_loc(&p)), p))),
    };
    if ss != dec.pcm {
        let at = ss.iter().zip(&dec.pcm).position(|(x, y)| x != y);
        return ("samples-differ".into(), Some(("structural-samples-differ-from-decoder".into(), format!("structural expansion differs from the streaming decoder at {at:?} ({} vs {} samples)", ss.len(), dec.pcm.len()))));
    }
    // re-serialisation
    let mut out = Vec::new();
    match guarded(|| fr.write(&info, &mut out)) {
        Ok(Ok(())) => {}
        Ok(Err(e)) => return ("write-fails".into(), Some((format!("write-fails|{e:?}").split('(').next().unwrap().to_string(), format!("Frame::write fails on a frame Frame::read accepted: {e:?}")))),
        Err(p) => return ("panic".into(), Some((format!("Frame::write|panic@{}", crate::core::panic_loc(&p)), p))),
    }
    let rinfo = refdec::StreamInfo { min_block: info.minimum_block_size, max_block: info.maximum_block_size, min_frame: 0, max_frame: 0, rate: info.sample_rate, channels: info.channels.get(), bps: u32::from(info.bits_per_sample) as u8, total: 0, md5: [0; 16] };
    match guarded(|| refdec::decode_frame(frame, 0, Some(&rinfo))) {
        Ok(Ok(fi)) if fi.coded_number_minimal && fi.padding_zero && fi.len == frame.len() => {
            if out != frame {
                let at = out.iter().zip(frame).position(|(x, y)| x != y);
                return ("reserialise-differs".into(), Some(("reserialised-bytes-differ".into(), format!("Frame::write gives {} bytes, original {} (first difference at {at:?})", out.len(), frame.len()))));
            }
            ("ok-identical".into(), None)
        }
        Ok(Ok(_)) => ("ok-nonminimal".into(), None),
        _ => ("ok-reference-rejects".into(), None),
    }
}

fn run_stream(acc: &mut Acc, class: &str, bytes: &[u8], frames: &[(usize, usize)], origin: Value) {
    for (i, (o, l)) in frames.iter().enumerate() {
        if o + l > bytes.len() || bytes.len() < 42 {
            continue;
        }
        acc.states += 1;
        acc.executions += 1;
        acc.transitions += 4;
        let (out, v) = judge(bytes, &bytes[*o..o + l]);
        acc.outcome(format!("{class}:{out}"));
        if let Some((clause, detail)) = v {
            acc.violation(format!("C17|{clause}"), format!("frame {i}: {detail} [{origin}]"), json!({"kind":"frame","file":hex(&bytes[..42]),"frame":hex(&bytes[*o..o + l]),"origin":origin}));
        }
    }
}

pub fn run(ctx: &Ctx, acc: &mut Acc) {
    // (1) crate output
    enumerate(ctx, if ctx.quick { "bdghijkl" } else { "abdeghijkl" }, &mut |c: &EncCase| {
        if let Ok(bytes) = encode(c.w, &c.opt, &c.sig, c.pcm) {
            if let Ok(Ok(st)) = guarded(|| refdec::decode(&bytes)) {
                let frames: Vec<(usize, usize)> = st.frames.iter().map(|f| (f.offset, f.len)).collect();
                run_stream(acc, "crate", &bytes, &frames, json!({"set":c.set,"bps":c.sig.bps,"ch":c.sig.ch,"opt":c.opt.to_json(),"pcm_len":c.pcm.len()}));
            }
        }
    });
    // (2) valid grammar space
    let m = menus();
    for_each_deviation(&m, if ctx.quick { 3 } else { 4 }, |k| {
        if !ctx.mine() {
            return;
        }
        if let Ok(spec) = make_spec(k) {
            if let Ok(b) = fgen::build(&spec) {
                run_stream(acc, "valid", &b.bytes, &b.frame_offsets, json!({"vector":k}));
            }
        }
    });
    // (2b) every frame-header code table entry (gspace::header_table_specs)
    for (spec, origin, _subset) in crate::gspace::header_table_specs() {
        if !ctx.mine() {
            continue;
        }
        if let Ok(b) = fgen::build(&spec) {
            run_stream(acc, "valid-header-tables", &b.bytes, &b.frame_offsets, origin);
        }
    }
    // (2b') partition orders up to 15
    for (spec, origin) in crate::gspace::partition_high_specs() {
        if !ctx.mine() {
            continue;
        }
        if let Ok(b) = fgen::build(&spec) {
            run_stream(acc, "valid-partition-high", &b.bytes, &b.frame_offsets, origin);
        }
    }
    // (2c) coded frame / sample numbers at every UTF-8-style length boundary (1..7 bytes), fixed and variable blocking;
    //      frames are judged one by one, so the numbers need not be consecutive
    for variable in [false, true] {
        for number in [0u64, 1, 0x7F, 0x80, 0x7FF, 0x800, 0xFFFF, 0x1_0000, 0x1F_FFFF, 0x20_0000, 0x3FF_FFFF, 0x400_0000, 0x7FFF_FFFF, 0x8000_0000, 0xF_FFFF_FFFF] {
            if (!variable && number > 0x7FFF_FFFF) || !ctx.mine() {
                continue;
            }
            for ch in [1u8, 2] {
                let pcm: Vec<Vec<i32>> = (0..ch as usize).map(|c| crate::gspace::target(0, 16, c, 16, 0, 0)).collect();
                let mut f = fgen::plain_frame(pcm);
                f.number = Some(number);
                let mut spec = fgen::plain_stream(ch, 16, 44100, vec![f]);
                spec.variable = variable;
                spec.total = fgen::TotalSpec::Unknown;
                if let Ok(b) = fgen::build(&spec) {
                    run_stream(acc, "valid-coded-number", &b.bytes, &b.frame_offsets, json!({"coded_number": number, "variable": variable, "ch": ch}));
                }
            }
        }
    }
    // (3) malformed grammar space
    let knobs = bad_knobs();
    for_each_deviation(&m, 1, |k| {
        let base = match make_spec(k) {
            Ok(s) => s,
            Err(_) => return,
        };
        for (ki, knob) in knobs.iter().enumerate() {
            for fi in [0, base.frames.len() - 1] {
                if !ctx.mine() {
                    continue;
                }
                let mut spec = base.clone();
                (knob.apply)(&mut spec, fi);
                if let Ok(b) = fgen::build(&spec) {
                    run_stream(acc, "malformed", &b.bytes, &b.frame_offsets, json!({"vector":k,"malformation":knob.name,"knob":ki,"frame":fi}));
                }
            }
        }
    });
    acc.sample(json!({"kind":"frame","origin":{"vector":[0,0,0,0,0,0,0,0,0,0,0,0,0,0,0,0,9,0,0,1,2,3,0]}}));
}

pub fn replay(v: &Value) -> Option<(bool, String)> {
    if v["kind"] != "frame" {
        return None;
    }
    let file = unhex(v["file"].as_str()?);
    let frame = unhex(v["frame"].as_str()?);
    let (out, viol) = judge(&file, &frame);
    Some((viol.is_some(), format!("{out} {viol:?}")))
}
