//! C19 — no expansion beyond verbatim + fixed overhead. Shape G; oracle: arithmetic bound per frame,
//! frame sizes and shapes measured by the independent decoder.
use crate::codec::{case_json, encode, err_class, Opt};
use crate::core::{guarded, Acc, Ctx};
use crate::encspace::{enumerate, EncCase};
use serde_json::{json, Value};
use vph::refdec;

pub const RULE: &str = "every case of the C01 sets (a),(b),(d),(e),(h), the adversarial-signal × option-lattice set (i) the channel-heterogeneous set (j) the preset set (k) and the steep low-pass set (l) is encoded by the real crate; for every frame (sizes from the independent decoder): bytes ≤ ceil(Σ_ch n·b_ch / 8) + 32 + 6·channels with b_ch = depth (+1 for one channel when a stereo decorrelation mode is used), and a frame whose input block is constant in every channel costs ≤ 32 + 12·channels bytes; a 'state' is one measured frame; distinct outcomes = (set, subframe-kind mix, verdict)";
pub const ASSUMPTIONS: &[&str] = &["the allowance 32 + 6·channels bytes covers header ≤ 16 B, CRC-16, byte padding and ≤ 8+depth header bits per verbatim subframe"];
pub fn bounds(quick: bool) -> Value {
    super::c01::bounds(quick)
}

pub fn judge(bytes: &[u8], c_pcm: &[i32], ch: usize, bps: u32) -> (Vec<String>, Option<(String, String)>, u64) {
    let st = match guarded(|| refdec::decode(bytes)) {
        Ok(Ok(s)) => s,
        Ok(Err(r)) => return (vec!["undecodable".into()], Some(("C19|undecodable".into(), format!("independent decoder rejects the file: {}", r.msg))), 0),
        Err(p) => return (vec!["refdec-panic".into()], Some(("C19|machinery|refdec-panic".into(), p)), 0),
    };
    let mut outs = Vec::new();
    let mut pos = 0usize; // PCM frame index
    for (fi, f) in st.frames.iter().enumerate() {
        let n = f.block_size as usize;
        let stereo_mode = f.chan_code >= 8;
        let bits: usize = n * bps as usize * ch + if stereo_mode { n } else { 0 };
        let bound = bits.div_ceil(8) + 32 + 6 * ch;
        let block = &c_pcm[(pos * ch).min(c_pcm.len())..((pos + n) * ch).min(c_pcm.len())];
        let constant = n > 0 && block.len() == n * ch && (0..ch).all(|c| (0..n).all(|i| block[i * ch + c] == block[c]));
        let kinds: String = f.subframes.iter().map(|s| match s.kind { refdec::SubKind::Constant => 'C', refdec::SubKind::Verbatim => 'V', refdec::SubKind::Fixed(_) => 'F', refdec::SubKind::Lpc(_) => 'L' }).collect();
        outs.push(format!("{}{}", kinds, if constant { ":const" } else { "" }));
        if f.len > bound {
            return (outs, Some(("C19|frame-exceeds-verbatim-bound".into(), format!("frame {fi}: {} bytes for {n} samples × {ch} ch × {bps} bit (bound {bound}); subframes {kinds}", f.len))), st.frames.len() as u64);
        }
        if constant && f.len > 32 + 12 * ch {
            return (outs, Some(("C19|constant-block-too-large".into(), format!("frame {fi}: constant block of {n} samples × {ch} ch costs {} bytes (bound {}); subframes {kinds}", f.len, 32 + 12 * ch))), st.frames.len() as u64);
        }
        pos += n;
    }
    (outs, None, st.frames.len() as u64)
}

pub fn run(ctx: &Ctx, acc: &mut Acc) {
    enumerate(ctx, "abdehijkl", &mut |c: &EncCase| {
        acc.executions += 1;
        acc.transitions += 1;
        acc.dim(&format!("set_{}", c.set), 1);
        let (outs, v, frames) = match encode(c.w, &c.opt, &c.sig, c.pcm) {
            Ok(bytes) => judge(&bytes, c.pcm, c.sig.ch as usize, c.sig.bps),
            Err(e) => (vec![format!("encode-{}", err_class(&e))], None, 0), // encode failures are C01's business
        };
        acc.states += frames.max(1);
        for o in outs {
            acc.outcome(format!("{}:{}:{}", c.set, o, if v.is_some() { "OVER" } else { "ok" }));
        }
        if acc.executions % 40_000 == 1 {
            acc.sample(case_json("enc-size", c.w, &c.opt, &c.sig, &c.pcm[..c.pcm.len().min(48)]));
        }
        if let Some((sig, what)) = v {
            acc.violation(sig, what, case_json("enc-size", c.w, &c.opt, &c.sig, c.pcm));
        }
    });
}

pub fn replay(v: &Value) -> Option<(bool, String)> {
    if v["kind"] != "enc-size" {
        return None;
    }
    let pcm = crate::core::ivec(&v["pcm"]);
    let sig = crate::codec::sig_from(v);
    let opt = Opt::from_json(&v["opt"]);
    let w = crate::codec::writer_from(v["writer"].as_str().unwrap_or(""));
    match encode(w, &opt, &sig, &pcm) {
        Ok(bytes) => {
            let (o, viol, _) = judge(&bytes, &pcm, sig.ch as usize, sig.bps);
            Some((viol.is_some(), format!("{o:?} {}", viol.map(|x| x.1).unwrap_or_default())))
        }
        Err(e) => Some((false, format!("encode failed: {e}"))),
    }
}
#[allow(dead_code)]
fn _unused() -> Value {
    json!(null)
}
