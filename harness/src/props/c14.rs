//! C14 — an interrupted encode leaves a file whose complete frames are all decodable.
//! Shape E (crash points): the writer is driven without finalize over a logging device (and leaked so that
//! Drop cannot rewrite the header); the pre-finalize log is append-only, so the crash images are exactly the
//! byte prefixes of the emitted stream: EVERY prefix is decoded with the byte, sample and channel readers.
use crate::codec::{decode, pcm_bytes, Opt, Pad, ReaderKind, Seek, Sig, WriterKind};
use crate::core::{guarded, Acc, Ctx};
use crate::corpus::ident_pcm;
use crate::devices::{Call, MemDevice};
use flac_codec::byteorder::LittleEndian;
use flac_codec::encode::{FlacByteWriter, FlacChannelWriter, FlacSampleWriter};
use serde_json::{json, Value};
use std::io::Write;
use vph::refdec;

pub const RULE: &str = "for each writer front-end × declared/undeclared total × seek policy {off, every frame, seconds} × padding {default 4096, none, 20} × channels/depth {1×16, 2×8, 2×24} × sink {whole-buffer writes, at most 1 byte per write call, at most 7} (+ STREAMINFO-referenced parameters: 10-bit, 17-bit at rate 0, 100001 Hz): 3.5 blocks of 16 PCM frames are written without finalize, plus declared totals of 2^32, 2^32+100, 2^32+23, 2^33, 2^34+1000 and 2^36−1 PCM frames (56 supplied), plus histories where the caller supplies more or fewer PCM frames than it declared ((supplied, declared) ∈ {(56,40),(48,40),(56,33),(40,17),(33,32),(56,100)}) and stops at the first error; for EVERY byte prefix of the emitted stream (a superset of every write-call boundary) each of 9 reader front-ends (byte LE/BE read + fill_buf, sample fill_buf / read(7) / read(4099) / iterator, channel whole and half-buffer consumption) must deliver exactly the PCM of the frames that lie completely inside the prefix (frame extents from the independent decoder run on a copy whose provisional total is cleared, i.e. without trusting STREAMINFO), in order, and then report end of data or an error; the seekable sample and byte readers are additionally rewound with seek(0) after their first pass and must deliver the same frames again; a prefix ending inside the metadata yields no samples";
pub const ASSUMPTIONS: &[&str] = &["the pre-finalize write log is verified to be append-only at run time (otherwise prefixes would not be the crash images and the check reports a machinery note)", "torn writes inside one write call are covered because every byte prefix is explored; reordering of writes by the OS is out of scope (no syncs exist to order against)"];
pub fn bounds(_quick: bool) -> Value {
    json!({"prefixes": "every byte prefix", "blocks": "3 complete frames emitted + half a block buffered", "formats": if _quick { "3 (1×16, 2×8, 2×24)" } else { "18 (channels 1..8, depths 8..32)" }, "sinks": if _quick { "whole buffers, 1, 7 bytes per call" } else { "whole buffers, 1, 2, 3, 5, 7, 13, 64 bytes per call" }})
}

fn emit(w: WriterKind, opt: &Opt, sig: &Sig, pcm: &[i32], declared_frames: Option<usize>, max_write: usize) -> Result<MemDevice, String> {
    let o = opt.to_options()?;
    guarded(|| -> Result<MemDevice, String> {
        let mut dev = MemDevice::new(vec![], 0);
        dev.max_write = max_write;
        let e = |x: flac_codec::Error| format!("err:{x:?}");
        let frames = pcm.len() / sig.ch as usize;
        // split into two calls at an odd place so frames are emitted by different calls
        let cut = 21.min(frames);
        match w {
            WriterKind::Sample => {
                let mut wr = FlacSampleWriter::new(&mut dev, o, sig.rate, sig.bps, sig.ch, declared_frames.map(|d| (d * sig.ch as usize) as u64)).map_err(e)?;
                // an over-supplying caller sees an error from write(); the encode is "interrupted" right there
                if wr.write(&pcm[..cut * sig.ch as usize]).is_ok() {
                    let _ = wr.write(&pcm[cut * sig.ch as usize..]);
                }
                std::mem::forget(wr);
            }
            WriterKind::Channel => {
                let ch = crate::codec::deinterleave(pcm, sig.ch as usize);
                let mut wr = FlacChannelWriter::new(&mut dev, o, sig.rate, sig.bps, sig.ch, declared_frames.map(|d| d as u64)).map_err(e)?;
                if wr.write(&ch.iter().map(|c| &c[..cut]).collect::<Vec<_>>()).is_ok() {
                    let _ = wr.write(&ch.iter().map(|c| &c[cut..]).collect::<Vec<_>>());
                }
                std::mem::forget(wr);
            }
            _ => {
                let bytes = pcm_bytes(pcm, sig.bps, false);
                let bw = bytes.len() / frames.max(1);
                let mut wr = FlacByteWriter::endian(&mut dev, LittleEndian, o, sig.rate, sig.bps, sig.ch, declared_frames.map(|d| (d * bw) as u64)).map_err(e)?;
                if wr.write_all(&bytes[..cut * bw + 1]).is_ok() {
                    let _ = wr.write_all(&bytes[cut * bw + 1..]);
                }
                std::mem::forget(wr);
            }
        }
        Ok(dev)
    })
    .map_err(|p| format!("panic:{p}"))?
}

pub struct Image {
    pub bytes: Vec<u8>,
    pub first_frame: usize,
    pub frame_ends: Vec<(usize, usize)>, // (end offset, cumulative interleaved samples)
    pub pcm: Vec<i32>,
}

fn image(w: WriterKind, opt: &Opt, sig: &Sig, supplied: usize, declared_frames: Option<usize>, max_write: usize) -> Result<Image, String> {
    let pcm = ident_pcm(sig.ch, sig.bps, supplied);
    let dev = emit(w, opt, sig, &pcm, declared_frames, max_write)?;
    // append-only?
    let mut end = 0u64;
    for c in &dev.log {
        match c {
            Call::Write { off, len } => {
                if *off != end {
                    return Err(format!("machinery: pre-finalize write at {off} is not an append (end {end})"));
                }
                end += *len as u64;
            }
            Call::Seek { to } if *to != end => return Err(format!("machinery: pre-finalize seek to {to}")),
            _ => {}
        }
    }
    // "completely written frames" are found by the independent decoder WITHOUT trusting the provisional total
    let mut blind = dev.data.clone();
    if blind.len() >= 42 {
        blind[8 + 13] &= 0xF0;
        for b in &mut blind[8 + 14..8 + 18] {
            *b = 0;
        }
    }
    let (st, rej) = refdec::decode_partial(&blind);
    let want_frames = declared_frames.map(|d| supplied.min(d + 15) / 16).unwrap_or(supplied / 16);
    let least = supplied.min(declared_frames.unwrap_or(supplied)) / 16;
    let valid_end = st.frames.last().map(|f| f.offset + f.len).unwrap_or(st.first_frame_offset);
    if st.frames.len() < least && blind.len() > valid_end && st.first_frame_offset > 0 {
        // the writer accepted `least` whole blocks and returned, and bytes follow the last frame the independent decoder
        // can verify: what was emitted there is not a valid frame (every write of a frame completes inside the write call)
        return Err(format!("emitted-frame-invalid: the writer accepted {least} whole blocks but only {} valid frame(s) precede {} further emitted bytes ({})", st.frames.len(), blind.len() - valid_end, rej.map(|r| format!("{}: {}", r.code, r.msg)).unwrap_or_default()));
    }
    if st.frames.len() < least || st.frames.len() > want_frames.max(supplied / 16) {
        return Err(format!("machinery: unexpected number of complete frames in the emitted stream: {}", st.frames.len()));
    }
    let mut cum = 0;
    let frame_ends = st.frames.iter().map(|f| { cum += f.block_size as usize * sig.ch as usize; (f.offset + f.len, cum) }).collect();
    Ok(Image { bytes: dev.data, first_frame: st.first_frame_offset, frame_ends, pcm })
}

/// a seekable reader decodes the prefix to its end (or error), is rewound with seek(0) and decodes again: the second pass
/// must deliver the complete frames once more (a provisional header has a placeholder-only seek table)
fn check_prefix_rewound(img: &Image, len: usize, byte_reader: bool) -> Result<&'static str, (String, String)> {
    use flac_codec::decode::{FlacByteReader, FlacSampleReader};
    use flac_codec::metadata::Metadata;
    use std::io::{Read, Seek, SeekFrom};
    let want_samples = img.frame_ends.iter().filter(|(e, _)| *e <= len).map(|(_, c)| *c).last().unwrap_or(0);
    let want = &img.pcm[..want_samples];
    let bytes = &img.bytes[..len];
    let r = guarded(|| -> Option<(Vec<i32>, bool)> {
        let src = std::io::Cursor::new(bytes);
        if byte_reader {
            let _ = src;
            let mut rd: FlacByteReader<_, LittleEndian> = FlacByteReader::new_seekable(std::io::Cursor::new(bytes)).ok()?;
            let bps = rd.bits_per_sample();
            let mut sink = Vec::new();
            let _ = rd.read_to_end(&mut sink);
            if rd.seek(SeekFrom::Start(0)).is_err() {
                return Some((vec![], false));
            }
            let mut raw = Vec::new();
            let mut buf = [0u8; 64];
            loop {
                match rd.read(&mut buf) {
                    Ok(0) | Err(_) => break,
                    Ok(n) => raw.extend_from_slice(&buf[..n]),
                }
            }
            Some((crate::codec::bytes_pcm(&raw, bps, false), true))
        } else {
            let mut rd = FlacSampleReader::new_seekable(src).ok()?;
            let mut first = Vec::new();
            let _ = rd.read_to_end(&mut first);
            if rd.seek(0).is_err() {
                return Some((vec![], false));
            }
            let mut got = Vec::new();
            loop {
                match rd.fill_buf() {
                    Ok([]) | Err(_) => break,
                    Ok(b) => {
                        let n = b.len();
                        got.extend_from_slice(b);
                        rd.consume(n);
                    }
                }
            }
            Some((got, true))
        }
    });
    match r {
        Err(p) => Err((format!("panic@{}", crate::core::panic_loc(&p)), format!("prefix {len}: {p}"))),
        Ok(None) => Ok("unopenable"),
        Ok(Some((_, false))) => if want.is_empty() { Ok("rewind-refused") } else { Err(("rewind-refused".into(), format!("prefix {len} holds {} samples in complete frames but seek(0) after the first pass fails", want.len()))) },
        Ok(Some((got, true))) => {
            if got.len() < want.len() && got[..] == want[..got.len()] {
                return Err(("complete-frame-lost-after-rewind".into(), format!("prefix {len} holds {} samples in complete frames, the pass after seek(0) delivered only {}", want.len(), got.len())));
            }
            if got != want {
                return Err(("unwritten-samples-delivered-after-rewind".into(), format!("prefix {len}: the pass after seek(0) delivered {} samples, the complete frames hold {}", got.len(), want.len())));
            }
            Ok("rewound-same")
        }
    }
}

fn check_prefix(img: &Image, len: usize, r: ReaderKind) -> Result<&'static str, (String, String)> {
    let want_samples = img.frame_ends.iter().filter(|(e, _)| *e <= len).map(|(_, c)| *c).last().unwrap_or(0);
    let want = &img.pcm[..want_samples];
    let (got, ended): (Vec<i32>, String) = match decode(r, &img.bytes[..len]) {
        Ok(d) => (d.pcm, "eof".into()),
        Err((e, got)) => {
            if e.starts_with("panic:") {
                return Err((format!("panic@{}", crate::core::panic_loc(&e)), format!("prefix {len}: {e}")));
            }
            (got, "err".into())
        }
    };
    if got.len() < want.len() && got[..] == want[..got.len()] {
        return Err(("complete-frame-lost".into(), format!("prefix {len} holds {} complete frame(s) = {} samples, reader delivered only {} before {ended}", img.frame_ends.iter().filter(|(e, _)| *e <= len).count(), want.len(), got.len())));
    }
    if got != want {
        return Err(("unwritten-samples-delivered".into(), format!("prefix {len}: reader delivered {} samples, the complete frames hold {}; first difference at {}", got.len(), want.len(), got.iter().zip(want).position(|(a, b)| a != b).unwrap_or(want.len().min(got.len())))));
    }
    Ok(if ended == "eof" { "clean-end" } else { "error-end" })
}

/// sinks: whole-buffer writes, and legal short-writing sinks that accept at most 1 / 7 bytes per write call
const SINKS: [usize; 3] = [0, 1, 7];
const READERS14: [ReaderKind; 9] = [ReaderKind::ByteLE, ReaderKind::SampleFill, ReaderKind::Channel, ReaderKind::SampleRead, ReaderKind::SampleReadBig, ReaderKind::SampleIter, ReaderKind::ByteBE, ReaderKind::ByteFillLE, ReaderKind::ChannelPart];

fn configs(quick: bool) -> Vec<(WriterKind, Opt, Sig, usize, Option<usize>, usize)> {
    let mut v = Vec::new();
    // thorough: every channel count and 6 depths instead of 3 formats, 8 sink sizes instead of 3
    let sigs: Vec<Sig> = if quick { vec![Sig { rate: 44100, bps: 16, ch: 1 }, Sig { rate: 8000, bps: 8, ch: 2 }, Sig { rate: 96000, bps: 24, ch: 2 }] } else { (1..=8u8).flat_map(|ch| [8u32, 12, 16, 20, 24, 32].into_iter().filter(move |b| ch <= 2 || *b == 8 * (1 + (ch as u32) % 4)).map(move |bps| Sig { rate: [44100, 8000, 96000][ch as usize % 3], bps, ch })).collect() };
    let sinks: Vec<usize> = if quick { SINKS.to_vec() } else { vec![0, 1, 2, 3, 5, 7, 13, 64] };
    for w in [WriterKind::Sample, WriterKind::ByteLE, WriterKind::Channel] {
        for declared in [true, false] {
            for seek in [Seek::Off, Seek::Frames(1), Seek::Default] {
                for pad in [Pad::Default, Pad::None, Pad::Size(20)] {
                    for sig in sigs.iter() {
                        for &mw in sinks.iter() {
                            v.push((w, Opt { declared, seek, pad, ..Opt::base16() }, sig.clone(), 56, declared.then_some(56), mw));
                        }
                    }
                }
            }
        }
        // depths / rates without a header code: every frame says "see STREAMINFO"
        for declared in [true, false] {
            for sig in [Sig { rate: 44100, bps: 10, ch: 1 }, Sig { rate: 100001, bps: 16, ch: 2 }, Sig { rate: 0, bps: 17, ch: 1 }] {
                v.push((w, Opt { declared, seek: Seek::Off, pad: Pad::Size(20), ..Opt::base16() }, sig, 56, declared.then_some(56), 0));
            }
        }
        // very long declared totals (the 36-bit field): 2^32 and beyond, where 32-bit arithmetic on "remaining samples" wraps
        for declared in [1usize << 32, (1 << 32) + 100, (1 << 32) + 16 + 7, 1 << 33, (1 << 34) + 1000, (1 << 36) - 1] {
            // (no seek table: with a table the constructor walks every future frame of the declared length — 2^32 iterations)
            for sig in [Sig { rate: 44100, bps: 16, ch: 1 }, Sig { rate: 192000, bps: 8, ch: 2 }] {
                v.push((w, Opt { declared: true, seek: Seek::Off, pad: Pad::Size(20), ..Opt::base16() }, sig, 56, Some(declared), 0));
            }
        }
        // the caller supplies more (or fewer) PCM frames than it declared and the encode stops there
        for (supplied, declared) in [(56usize, 40usize), (48, 40), (56, 33), (40, 17), (33, 32), (56, 100)] {
            for seek in [Seek::Off, Seek::Frames(1)] {
                for sig in [Sig { rate: 44100, bps: 16, ch: 1 }, Sig { rate: 8000, bps: 8, ch: 2 }] {
                    v.push((w, Opt { declared: true, seek, pad: Pad::Size(20), ..Opt::base16() }, sig, supplied, Some(declared), 0));
                }
            }
        }
    }
    v
}

pub fn run(ctx: &Ctx, acc: &mut Acc) {
    for (w, opt, sig, supplied, declared_frames, max_write) in configs(ctx.quick) {
        let img = match image(w, &opt, &sig, supplied, declared_frames, max_write) {
            Ok(i) => i,
            Err(e) => {
                if ctx.shard == 0 {
                    if e.starts_with("machinery") {
                        acc.notes.push(e);
                    } else {
                        acc.violation(format!("C14|emit|{}", crate::codec::err_class(&e)), format!("writing without finalize failed: {e}"), json!({"kind":"crash-prefix","writer":format!("{w:?}"),"opt":opt.to_json(),"rate":sig.rate,"bps":sig.bps,"ch":sig.ch,"prefix":0,"reader":"SampleFill","supplied":supplied,"declared_frames":declared_frames,"max_write":max_write}));
                    }
                }
                continue;
            }
        };
        if ctx.shard == 0 && acc.samples.len() < 3 {
            acc.sample(json!({"writer":format!("{w:?}"),"opt":opt.to_json(),"ch":sig.ch,"bps":sig.bps,"supplied":supplied,"declared_frames":declared_frames,"emitted_bytes":img.bytes.len(),"first_frame":img.first_frame,"frame_ends":img.frame_ends.iter().map(|x| x.0).collect::<Vec<_>>()}));
        }
        for len in 0..=img.bytes.len() {
            if !ctx.mine() {
                continue;
            }
            acc.states += 1;
            for byte_reader in [false, true] {
                acc.executions += 1;
                acc.transitions += 2;
                let who = if byte_reader { "ByteRewound" } else { "SampleRewound" };
                match check_prefix_rewound(&img, len, byte_reader) {
                    Ok(how) => acc.outcome(format!("{who}:{how}")),
                    Err((clause, detail)) => {
                        acc.outcome(format!("{who}:BAD"));
                        acc.violation(format!("C14|{who}|{clause}"), format!("{w:?} {:?} {}ch/{}bit: {detail}", opt, sig.ch, sig.bps), json!({"kind":"crash-prefix","writer":format!("{w:?}"),"opt":opt.to_json(),"rate":sig.rate,"bps":sig.bps,"ch":sig.ch,"prefix":len,"reader":who,"supplied":supplied,"declared_frames":declared_frames,"max_write":max_write}));
                    }
                }
            }
            for r in READERS14 {
                acc.executions += 1;
                acc.transitions += 1;
                let region = if len < img.first_frame { "in-metadata" } else if img.frame_ends.iter().any(|(e, _)| *e == len) || len == img.first_frame { "at-frame-boundary" } else { "mid-frame" };
                match check_prefix(&img, len, r) {
                    Ok(how) => acc.outcome(format!("{r:?}:decl{}:supplied{}:{region}:{how}", declared_frames.map(|d| d.to_string()).unwrap_or("none".into()), supplied)),
                    Err((clause, detail)) => {
                        acc.outcome(format!("{r:?}:{region}:BAD"));
                        acc.violation(format!("C14|{r:?}|{region}|{clause}"), format!("{w:?} {:?} {}ch/{}bit: {detail}", opt, sig.ch, sig.bps), json!({"kind":"crash-prefix","writer":format!("{w:?}"),"opt":opt.to_json(),"rate":sig.rate,"bps":sig.bps,"ch":sig.ch,"prefix":len,"reader":format!("{r:?}"),"supplied":supplied,"declared_frames":declared_frames,"max_write":max_write}));
                    }
                }
            }
        }
    }
}

pub fn replay(v: &Value) -> Option<(bool, String)> {
    if v["kind"] != "crash-prefix" {
        return None;
    }
    let img = match image(crate::codec::writer_from(v["writer"].as_str()?), &Opt::from_json(&v["opt"]), &crate::codec::sig_from(v), v["supplied"].as_u64().unwrap_or(56) as usize, v["declared_frames"].as_u64().map(|d| d as usize), v["max_write"].as_u64().unwrap_or(0) as usize) {
        Ok(i) => i,
        Err(e) => return Some((true, e)),
    };
    if let Some(who) = v["reader"].as_str().filter(|w| w.ends_with("Rewound")) {
        let r = check_prefix_rewound(&img, v["prefix"].as_u64()? as usize, who == "ByteRewound");
        return Some((r.is_err(), format!("{r:?}")));
    }
    let r = check_prefix(&img, v["prefix"].as_u64()? as usize, crate::codec::reader_from(v["reader"].as_str()?));
    Some((r.is_err(), format!("{r:?}")))
}
