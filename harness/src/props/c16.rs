//! C16 — raw frame streams are self-describing; the stream reader fabricates no frame.
//! Shapes G × E: all frame sequences over a parameter menu, all placements of ≤2(3) garbage strings in the
//! gaps, every segmentation (single cut; pairs in thorough; 1-byte buffers) of the buffered source.
use crate::core::{guarded, hex, Acc, Ctx};
use crate::corpus::ident_pcm;
use flac_codec::decode::FlacStreamReader;
use flac_codec::encode::{FlacStreamWriter, Options};
use serde_json::{json, Value};
use std::io::{BufRead, Read};
use vph::refdec;

pub const RULE: &str = "frame parameter menu of 12 (rate: fixed code / kHz / Hz / daHz classes; channels 1,2,3,8; depth 8,12,16,20,24,32; length 1,16,17,40): (A) ALL sequences of 1..3 (thorough 1..4) frames written by FlacStreamWriter — each frame must decode from its own bytes alone in the independent decoder's subset mode and FlacStreamReader must return every frame's samples and parameters exactly, for the unsegmented source, every single cut point and 1-byte buffers; all non-subset rate/depth classes must be refused at write; (C) grammar-built raw frame streams covering every block-size code (incl. both explicit forms), every sample-rate code that is carried in the header, every depth code and every channel-assignment code, fixed and variable blocking, read whole / through 7-byte buffers / with one cut: every frame returned exactly; (D) the writer's own code tables: frames of every common block length (192, 576·2^k, 256·2^k) and 255 / 257 / 65535 / 1 / 15 samples, and 65536 / 65537 / 69632 / 131073 (more than a header can describe) × channels 1..8 × a depth/rate menu × 5 option sets (exhaustive / fast correlation, no mid-side, no LPC, LPC 32) on channel-heterogeneous signals, each followed by a frame with other parameters: decodable from the own header with exact parameters and samples, and returned exactly by FlacStreamReader; (E) write_cdda ≡ write(44100, 2, 16, ·): 9 sample counts (0, odd, 1 .. 131072) alone and all 49 two-call histories over 7 of them, same bytes or same error class; (B) 6 three-frame sequences × ALL placements of ≤3 garbage strings from {00, FF, FF FF, FF F8, FF F9, FF F8 + CRC-8-valid fake header, the first 5 / 9 bytes of a real frame, 37 sync-free bytes} in the 4 gaps × every single cut point of the source (thorough: + every pair of cuts for ≤1 garbage string) and 1-byte buffers: frames returned Ok must be a subsequence of the written frames in order with exact samples/parameters; when no inserted string contains FF F8/FF F9 every frame must be returned and no error may precede the final end of data";
pub const ASSUMPTIONS: &[&str] = &["garbage is drawn from a 9-string alphabet; frames from a 12-entry parameter menu with position-identifying PCM"];
pub fn bounds(quick: bool) -> Value {
    json!({"clean_sequences": if quick { "all of length 1..3 over 12 frame kinds" } else { "all of length 1..4 over 12 frame kinds" }, "garbage_strings_per_stream": 3, "cuts": if quick { "every single cut (≤2 garbage strings), every pair of cuts (≤1 garbage string, first sequence), 1-byte buffers" } else { "every single cut, every pair of cuts (≤2 garbage strings), 1-byte buffers" }})
}

/// BufRead over a fixed byte string whose fill_buf never crosses a cut point (and serves ≤ chunk bytes if chunk>0)
pub struct ChunkedBuf<'a> {
    data: &'a [u8],
    pos: usize,
    cuts: Vec<usize>,
    chunk: usize,
    eof_polls: u32,
}
impl<'a> ChunkedBuf<'a> {
    pub fn new(data: &'a [u8], cuts: Vec<usize>, chunk: usize) -> Self {
        ChunkedBuf { data, pos: 0, cuts, chunk, eof_polls: 0 }
    }
    fn end(&self) -> usize {
        let mut end = self.data.len();
        if self.chunk > 0 {
            end = end.min(self.pos + self.chunk);
        }
        for &c in &self.cuts {
            if c > self.pos && c < end {
                end = c;
            }
        }
        end
    }
}
impl Read for ChunkedBuf<'_> {
    fn read(&mut self, buf: &mut [u8]) -> std::io::Result<usize> {
        let end = self.end().min(self.pos + buf.len());
        let n = end - self.pos;
        buf[..n].copy_from_slice(&self.data[self.pos..end]);
        self.pos = end;
        Ok(n)
    }
}
impl BufRead for ChunkedBuf<'_> {
    fn fill_buf(&mut self) -> std::io::Result<&[u8]> {
        if self.pos >= self.data.len() {
            self.eof_polls += 1;
            if self.eof_polls > 1_000_000 {
                panic!("stream reader polls the source forever at end of data");
            }
        }
        Ok(&self.data[self.pos..self.end()])
    }
    fn consume(&mut self, n: usize) {
        self.pos += n;
    }
}

type FrameP = (u32, u8, u32, usize); // rate, channels, bps, length in PCM frames
const MENU: [FrameP; 12] = [(44100, 1, 16, 16), (8000, 2, 8, 17), (12345, 3, 24, 1), (100010, 1, 12, 16), (96000, 2, 32, 17), (22050, 8, 20, 16), (254000, 1, 16, 40), (65534, 2, 16, 1), (655340, 1, 24, 17), (192000, 2, 24, 16), (1, 1, 8, 16), (48000, 3, 16, 40)];

fn frame_pcm(p: &FrameP, salt: usize) -> Vec<i32> {
    let mut v = ident_pcm(p.1, p.2, p.3);
    if let Some(x) = v.first_mut() {
        *x = (*x).wrapping_add(salt as i32 % 3); // make equal-parameter frames distinguishable
        let m = 1i64 << (p.2 - 1);
        *x = (*x as i64).clamp(-m, m - 1) as i32;
    }
    v
}

/// write the frames; returns (bytes, frame byte ranges)
fn write_frames(seq: &[usize]) -> Result<(Vec<u8>, Vec<(usize, usize)>), String> {
    guarded(|| -> Result<(Vec<u8>, Vec<(usize, usize)>), String> {
        let mut out = Vec::new();
        let mut ranges = Vec::new();
        let mut w = FlacStreamWriter::new(&mut out, Options::default());
        let mut lens = Vec::new();
        for (i, &k) in seq.iter().enumerate() {
            let p = MENU[k];
            w.write(p.0, p.1, p.2, &frame_pcm(&p, i)).map_err(|e| format!("err:{e:?}"))?;
            lens.push(0);
        }
        drop(w);
        // frame extents from the independent decoder (also oracle (i))
        let mut pos = 0;
        for _ in seq {
            let f = refdec::decode_frame(&out, pos, None).map_err(|r| format!("own-header:{}:{}", r.code, r.msg))?;
            ranges.push((pos, f.len));
            pos += f.len;
        }
        if pos != out.len() {
            return Err(format!("own-header:trailing:{} of {} bytes consumed", pos, out.len()));
        }
        Ok((out, ranges))
    })
    .map_err(|p| format!("panic:{p}"))?
}

#[derive(Debug, PartialEq, Clone)]
struct Got {
    samples: Vec<i32>,
    rate: u32,
    ch: u8,
    bps: u32,
}

/// read until end of data; returns frames and the number of errors seen before the final EOF
fn read_all(data: &[u8], cuts: &[usize], chunk: usize) -> Result<(Vec<Got>, usize), String> {
    guarded(|| {
        let mut r = FlacStreamReader::new(ChunkedBuf::new(data, cuts.to_vec(), chunk));
        let mut got = Vec::new();
        let mut errors = 0usize;
        loop {
            match r.read() {
                Ok(f) => got.push(Got { samples: f.samples.to_vec(), rate: f.sample_rate, ch: f.channels, bps: f.bits_per_sample }),
                Err(flac_codec::Error::Io(e)) if e.kind() == std::io::ErrorKind::UnexpectedEof => break,
                Err(_) => errors += 1,
            }
            if got.len() + errors > data.len() + 4 {
                panic!("stream reader does not reach end of data");
            }
        }
        (got, errors)
    })
}

fn expect(seq: &[usize]) -> Vec<Got> {
    seq.iter().enumerate().map(|(i, &k)| { let p = MENU[k]; Got { samples: frame_pcm(&p, i), rate: p.0, ch: p.1, bps: p.2 } }).collect()
}

fn garbage_menu(real: &[u8]) -> Vec<(&'static str, Vec<u8>, bool)> {
    // (name, bytes, contains a sync pattern)
    let mut fake = vec![0xFF, 0xF8, 0x69, 0x08, 0x00, 0x0F];
    let c = refdec::crc8(&fake);
    fake.push(c);
    fake.extend([0x12, 0x34, 0x56]);
    vec![
        ("00", vec![0x00], false),
        ("FF", vec![0xFF], false),
        ("FFFF", vec![0xFF, 0xFF], false),
        ("FFF8", vec![0xFF, 0xF8], true),
        ("FFF9", vec![0xFF, 0xF9], true),
        ("fake-header", fake, true),
        ("frame-prefix-5", real[..5.min(real.len())].to_vec(), true),
        ("frame-prefix-9", real[..9.min(real.len())].to_vec(), true),
        ("syncfree-37", (0..37u8).map(|i| i.wrapping_mul(7) | 1).map(|b| if b == 0xFF { 0xFD } else { b }).collect(), false),
    ]
}

fn is_subsequence(got: &[Got], want: &[Got]) -> bool {
    let mut j = 0;
    for g in got {
        while j < want.len() && &want[j] != g {
            j += 1;
        }
        if j == want.len() {
            return false;
        }
        j += 1;
    }
    true
}

fn check_stream(acc: &mut Acc, data: &[u8], want: &[Got], clean: bool, cuts: &[usize], chunk: usize, origin: &Value) {
    acc.executions += 1;
    acc.transitions += want.len() as u64 + 1;
    // the expected frames travel with the case, so that a replay needs nothing but the file
    let case = || json!({"kind":"raw-stream","data":hex(data),"cuts":cuts,"chunk":chunk,"clean":clean,"origin":origin,
        "want": want.iter().map(|g| json!({"samples": g.samples, "rate": g.rate, "ch": g.ch, "bps": g.bps})).collect::<Vec<_>>()});
    match read_all(data, cuts, chunk) {
        Err(p) => {
            acc.outcome("panic");
            acc.violation(format!("C16|panic@{}", crate::core::panic_loc(&p)), format!("FlacStreamReader: {p} [{origin}]"), case());
        }
        Ok((got, errors)) => {
            if !is_subsequence(&got, want) {
                acc.outcome("fabricated");
                acc.violation("C16|fabricated-or-reordered-frame".to_string(), format!("reader returned {} frame(s) that are not a subsequence of the {} written ones (cuts {cuts:?}, chunk {chunk}) [{origin}]", got.len(), want.len()), case());
            } else if clean && (got.len() != want.len() || errors > 0) {
                acc.outcome("lost");
                acc.violation("C16|sync-free-garbage-costs-a-frame".to_string(), format!("only {} of {} frames returned, {errors} error(s) before end of data, although no inserted bytes contain a sync pattern (cuts {cuts:?}, chunk {chunk}) [{origin}]", got.len(), want.len()), case());
            } else {
                acc.outcome(format!("{}:{}of{}:err{}", if clean { "clean" } else { "synclike" }, got.len(), want.len(), errors.min(3)));
            }
        }
    }
}


/// (D) the writer's own code tables: one frame of every common block length (and the explicit forms at their boundaries),
/// every channel count, a depth menu and 5 option sets (stereo correlation modes, no LPC, high LPC), followed by a
/// 16-sample frame with other parameters. Returns (bytes, expected frames) or the write error.
fn table_cases() -> Vec<(usize, u8, u32, u32, usize, u32)> {
    // (block length, channels, depth, rate, option set, per-channel trait code for encspace::hetero)
    let mut v = Vec::new();
    // (65536 and more cannot be described by a frame header: refusing is fine, emitting a frame that does not describe itself is not)
    let lens = [192usize, 576, 1152, 2304, 4608, 256, 512, 1024, 2048, 4096, 8192, 16384, 32768, 255, 257, 65535, 1, 15, 65536, 65537, 69632, 131073];
    for (li, &len) in lens.iter().enumerate() {
        for ch in 1..=8u8 {
            if len > 4608 && ch > 2 {
                continue;
            }
            for oset in 0..5usize {
                if ch != 2 && oset > 0 && (oset < 3 || len > 4608) {
                    continue; // the correlation modes only matter for stereo
                }
                let (bps, rate) = [(16u32, 44100u32), (8, 8000), (24, 96000), (12, 22050), (20, 48000), (32, 192000)][(li + ch as usize + oset) % 6];
                let codes: &[u32] = if ch == 2 { &[0, 5 + 8 * 5, 6 + 8 * 6, 1, 2 + 8 * 3] } else { &[0] };
                let code = codes[(li + oset) % codes.len()];
                v.push((len, ch, bps, rate, oset, code));
            }
        }
    }
    v
}
fn table_options(oset: usize) -> Options {
    let o = Options::default();
    match oset {
        0 => o,
        1 => o.fast_channel_correlation(true),
        2 => o.mid_side(false),
        3 => o.max_lpc_order(None).unwrap(),
        _ => o.max_lpc_order(Some(32)).unwrap().mid_side(false).fast_channel_correlation(true),
    }
}
fn table_case(c: &(usize, u8, u32, u32, usize, u32)) -> Result<(Vec<u8>, Vec<Got>), String> {
    let &(len, ch, bps, rate, oset, code) = c;
    let first = crate::encspace::hetero(code, ch as usize, bps, len);
    let second = ident_pcm(1, 16, 16);
    guarded(|| -> Result<(Vec<u8>, Vec<Got>), String> {
        let mut out = Vec::new();
        let mut w = FlacStreamWriter::new(&mut out, table_options(oset));
        w.write(rate, ch, bps, &first).map_err(|e| format!("err:{e:?}"))?;
        w.write(44100, 1, 16, &second).map_err(|e| format!("err:{e:?}"))?;
        drop(w);
        Ok((out, vec![Got { samples: first.clone(), rate, ch, bps }, Got { samples: second.clone(), rate: 44100, ch: 1, bps: 16 }]))
    })
    .map_err(|p| format!("panic:{p}"))?
}
/// the frames must decode from their own headers in the independent decoder with exactly the written parameters and samples
fn table_own_header(bytes: &[u8], want: &[Got]) -> Result<(), String> {
    let mut pos = 0;
    for (i, g) in want.iter().enumerate() {
        let f = guarded(|| refdec::decode_frame(bytes, pos, None)).map_err(|p| format!("machinery: refdec panic {p}"))?.map_err(|r| format!("frame {i} is not decodable from its own header: {} {}", r.code, r.msg))?;
        let inter: Vec<i32> = (0..f.block_size as usize).flat_map(|k| f.samples.iter().map(move |c| c[k] as i32)).collect();
        if f.rate != g.rate || f.channels != g.ch || f.bps as u32 != g.bps || inter != g.samples {
            return Err(format!("frame {i} describes {} Hz / {} ch / {} bit / {} samples, written {} Hz / {} ch / {} bit / {} samples{}", f.rate, f.channels, f.bps, inter.len(), g.rate, g.ch, g.bps, g.samples.len(), if inter != g.samples && inter.len() == g.samples.len() { " (sample values differ)" } else { "" }));
        }
        pos += f.len;
    }
    if pos != bytes.len() {
        return Err(format!("{} trailing bytes after the last frame", bytes.len() - pos));
    }
    Ok(())
}


/// (E) `write_cdda(s)` must be `write(44100, 2, 16, s)`: same bytes or the same error class, for every length in the menu
/// and in every position of a 2-call history (the second call sees the frame counter the first left behind).
fn cdda_pair(lens: &[usize], cdda: bool) -> Result<Vec<u8>, String> {
    guarded(|| -> Result<Vec<u8>, String> {
        let mut out = Vec::new();
        let mut w = FlacStreamWriter::new(&mut out, Options::default());
        for (i, &n) in lens.iter().enumerate() {
            let pcm = ident_pcm(2, 16, n / 2 + 1);
            let pcm: Vec<i32> = pcm.iter().map(|s| s.wrapping_add(i as i32 * 37).clamp(-32768, 32767)).take(n).collect();
            if cdda { w.write_cdda(&pcm) } else { w.write(44100, 2, 16, &pcm) }.map_err(|e| format!("err:{e:?}"))?;
        }
        drop(w);
        Ok(out)
    })
    .map_err(|p| format!("panic:{p}"))?
}
const CDDA_LENS: [usize; 9] = [0, 1, 2, 3, 32, 1176, 8192, 131070, 131072];

pub fn run(ctx: &Ctx, acc: &mut Acc) {
    cdda_stage(ctx, acc);
    // ---- (A) all clean sequences
    let n = MENU.len();
    let mut seqs: Vec<Vec<usize>> = Vec::new();
    for a in 0..n {
        seqs.push(vec![a]);
        for b in 0..n {
            seqs.push(vec![a, b]);
            for c in 0..n {
                seqs.push(vec![a, b, c]);
                if ctx.thorough() {
                    for d in 0..n {
                        seqs.push(vec![a, b, c, d]);
                    }
                }
            }
        }
    }
    for seq in &seqs {
        if !ctx.mine() {
            continue;
        }
        acc.states += 1;
        let origin = json!({"frames": seq});
        match write_frames(seq) {
            Err(e) => {
                let clause = if e.starts_with("own-header") { "frame-not-decodable-from-own-header" } else { "write-fails" };
                acc.violation(format!("C16|{clause}|{}", crate::codec::err_class(&e)), format!("FlacStreamWriter on {seq:?}: {e}"), json!({"kind":"raw-write","frames":seq}));
            }
            Ok((data, _)) => {
                let want = expect(seq);
                check_stream(acc, &data, &want, true, &[], 0, &origin);
                check_stream(acc, &data, &want, true, &[], 1, &origin);
                if seq.len() <= 2 || ctx.thorough() {
                    for c in 1..data.len() {
                        check_stream(acc, &data, &want, true, &[c], 0, &origin);
                    }
                }
            }
        }
    }
    // non-subset classes must be refused at write
    if ctx.shard == 0 {
        for (rate, bps) in [(700001u32, 16u32), (1048575, 16), (655351, 16), (65537, 16), (44100, 13), (44100, 1), (44100, 31), (44100, 4), (1 << 20, 16), (44100, 33), (44100, 0)] {
            acc.states += 1;
            acc.executions += 1;
            let r = guarded(|| {
                let mut out = Vec::new();
                let mut w = FlacStreamWriter::new(&mut out, Options::default());
                let pcm = vec![0i32; 16];
                w.write(rate, 1, bps, &pcm).map(|_| out)
            });
            match r {
                Ok(Err(_)) => acc.outcome("non-subset:refused"),
                Ok(Ok(bytes)) => {
                    // accepted: then the frame must be decodable from its own header with exactly these parameters
                    let ok = matches!(guarded(|| refdec::decode_frame(&bytes, 0, None)), Ok(Ok(f)) if f.rate == rate && f.bps as u32 == bps && f.len == bytes.len());
                    if ok {
                        acc.outcome("non-subset:accepted-and-self-describing");
                    } else {
                        acc.outcome("non-subset:ACCEPTED");
                        acc.violation("C16|non-subset-parameters-accepted".to_string(), format!("write(rate {rate}, 1 ch, {bps} bit) accepted ({} bytes) but the frame does not describe these parameters in its own header", bytes.len()), json!({"kind":"raw-nonsubset","rate":rate,"bps":bps}));
                    }
                }
                Err(p) => acc.violation(format!("C16|panic@{}", crate::core::panic_loc(&p)), format!("write(rate {rate}, {bps} bit) panics: {p}"), json!({"kind":"raw-nonsubset","rate":rate,"bps":bps})),
            }
        }
    }
    // ---- (C) grammar-built frames covering every header code (block-size, sample-rate, depth, channel-assignment tables;
    // fixed and variable blocking; constant / verbatim / fixed subframes) read as a raw frame stream
    for (spec, origin, subset) in crate::gspace::header_table_specs() {
        if !subset || !ctx.mine() {
            continue;
        }
        let b = match vph::fgen::build(&spec) {
            Ok(b) => b,
            Err(_) => continue,
        };
        acc.states += 1;
        let want: Vec<Got> = spec.frames.iter().map(|f| Got { samples: crate::codec::interleave(&f.pcm), rate: spec.rate, ch: spec.channels, bps: spec.bps as u32 }).collect();
        let data = &b.bytes[b.first_frame_offset..];
        check_stream(acc, data, &want, true, &[], 0, &origin);
        check_stream(acc, data, &want, true, &[], 7, &origin);
        check_stream(acc, data, &want, true, &[data.len() / 2], 0, &origin);
    }
    // ---- (D) the writer's code tables × option sets
    for c in table_cases() {
        if !ctx.mine() {
            continue;
        }
        acc.states += 1;
        let origin = json!({"table-case": [c.0, c.1, c.2, c.3, c.4, c.5]});
        match table_case(&c) {
            Err(e) if e.starts_with("panic:") => {
                acc.executions += 1;
                acc.violation(format!("C16|table|{}", crate::codec::err_class(&e)), format!("FlacStreamWriter panics on {} samples x {} ch, {} bit, {} Hz (option set {}): {e}", c.0, c.1, c.2, c.3, c.4), json!({"kind":"raw-table","case":[c.0, c.1, c.2, c.3, c.4, c.5]}));
            }
            Err(e) => {
                // refusing a frame is not forbidden by this property (C15 covers documented values): outcome only
                acc.executions += 1;
                acc.outcome(format!("table:refused:{}", crate::codec::err_class(&e)));
            }
            Ok((data, want)) => {
                if let Err(e) = table_own_header(&data, &want) {
                    acc.executions += 1;
                    acc.violation("C16|table|frame-not-self-describing".to_string(), format!("{} samples x {} ch, {} bit, {} Hz (option set {}): {e}", c.0, c.1, c.2, c.3, c.4), json!({"kind":"raw-table","case":[c.0, c.1, c.2, c.3, c.4, c.5]}));
                }
                check_stream(acc, &data, &want, true, &[], 0, &origin);
                check_stream(acc, &data, &want, true, &[data.len() / 3], 0, &origin);
            }
        }
    }
    // ---- (B) garbage placements × segmentations
    let base_seqs: [[usize; 3]; 6] = [[0, 1, 2], [4, 0, 4], [2, 2, 2], [5, 3, 7], [10, 9, 0], [8, 6, 11]];
    for seq in base_seqs {
        let (data, ranges) = match write_frames(&seq) {
            Ok(x) => x,
            Err(_) => continue, // reported in (A)
        };
        let want = expect(&seq);
        let gm = garbage_menu(&data[ranges[1].0..ranges[1].0 + ranges[1].1]);
        // placements: list of (gap 0..=3, garbage index), gaps non-decreasing
        let slots: Vec<(usize, usize)> = (0..4).flat_map(|g| (0..gm.len()).map(move |s| (g, s))).collect();
        let mut placements: Vec<Vec<(usize, usize)>> = vec![vec![]];
        for a in 0..slots.len() {
            placements.push(vec![slots[a]]);
            for b in a..slots.len() {
                if slots[b].0 >= slots[a].0 {
                    placements.push(vec![slots[a], slots[b]]);
                    {
                        for c in b..slots.len() {
                            placements.push(vec![slots[a], slots[b], slots[c]]);
                        }
                    }
                }
            }
        }
        for pl in placements {
            if !ctx.mine() {
                continue;
            }
            acc.states += 1;
            let mut stream = Vec::new();
            let mut clean = true;
            for gap in 0..4 {
                for (g, s) in &pl {
                    if *g == gap {
                        stream.extend_from_slice(&gm[*s].1);
                        clean &= !gm[*s].2;
                    }
                }
                if gap < 3 {
                    let (o, l) = ranges[gap];
                    stream.extend_from_slice(&data[o..o + l]);
                }
            }
            // two sync-free strings can still meet to form a sync pattern (…FF + F8…): recompute on the inserted runs
            let origin = json!({"frames": seq, "garbage": pl.iter().map(|(g, s)| json!([g, gm[*s].0])).collect::<Vec<_>>()});
            check_stream(acc, &stream, &want, clean, &[], 0, &origin);
            check_stream(acc, &stream, &want, clean, &[], 1, &origin);
            if pl.len() <= 2 {
                for c in 1..stream.len() {
                    check_stream(acc, &stream, &want, clean, &[c], 0, &origin);
                    if ctx.thorough() && pl.len() <= 2 || pl.len() <= 1 && seq == [0, 1, 2] {
                        for d in c + 1..stream.len() {
                            check_stream(acc, &stream, &want, clean, &[c, d], 0, &origin);
                        }
                    }
                }
            }
        }
    }
    acc.sample(json!({"frames":[0,1,2],"garbage":[[1,"FF"],[2,"fake-header"]],"cuts":[57]}));
}

fn cdda_stage(ctx: &Ctx, acc: &mut Acc) {
    let mut hist: Vec<Vec<usize>> = CDDA_LENS.iter().map(|&a| vec![a]).collect();
    for &a in &CDDA_LENS[..7] {
        for &b in &CDDA_LENS[..7] {
            hist.push(vec![a, b]);
        }
    }
    for h in hist {
        if !ctx.mine() {
            continue;
        }
        acc.states += 1;
        acc.executions += 2;
        acc.transitions += 2 * h.len() as u64;
        let (a, b) = (cdda_pair(&h, true), cdda_pair(&h, false));
        let same = match (&a, &b) {
            (Ok(x), Ok(y)) => x == y,
            (Err(x), Err(y)) => crate::codec::err_class(x) == crate::codec::err_class(y),
            _ => false,
        };
        acc.outcome(format!("cdda:{}:{}", match &a { Ok(_) => "written".to_string(), Err(e) => crate::codec::err_class(e) }, if same { "same" } else { "DIFF" }));
        if !same {
            let d = |r: &Result<Vec<u8>, String>| match r { Ok(v) => format!("{} bytes", v.len()), Err(e) => e.chars().take(120).collect() };
            acc.violation("C16|write_cdda|differs-from-write".to_string(), format!("write_cdda with sample counts {h:?}: {} ; write(44100, 2, 16, ..): {}", d(&a), d(&b)), json!({"kind":"raw-cdda","lens":h}));
        }
    }
}

pub fn replay(v: &Value) -> Option<(bool, String)> {
    match v["kind"].as_str()? {
        "raw-stream" => {
            let data = crate::core::unhex(v["data"].as_str()?);
            let cuts: Vec<usize> = v["cuts"].as_array()?.iter().map(|x| x.as_u64().unwrap_or(0) as usize).collect();
            let chunk = v["chunk"].as_u64()? as usize;
            let want: Vec<Got> = match v["want"].as_array() {
                Some(w) => w.iter().map(|g| Got { samples: crate::core::ivec(&g["samples"]), rate: g["rate"].as_u64().unwrap_or(0) as u32, ch: g["ch"].as_u64().unwrap_or(0) as u8, bps: g["bps"].as_u64().unwrap_or(0) as u32 }).collect(),
                None => {
                    let seq: Vec<usize> = v["origin"]["frames"].as_array()?.iter().map(|x| x.as_u64().unwrap_or(0) as usize).collect();
                    expect(&seq)
                }
            };
            let clean = v["clean"].as_bool()?;
            match read_all(&data, &cuts, chunk) {
                Err(p) => Some((true, p)),
                Ok((got, errors)) => {
                    let bad = !is_subsequence(&got, &want) || (clean && (got.len() != want.len() || errors > 0));
                    Some((bad, format!("{} of {} frames, {errors} errors, subsequence={}", got.len(), want.len(), is_subsequence(&got, &want))))
                }
            }
        }
        "raw-table" => {
            let a: Vec<u64> = v["case"].as_array()?.iter().map(|x| x.as_u64().unwrap_or(0)).collect();
            let c = (a[0] as usize, a[1] as u8, a[2] as u32, a[3] as u32, a[4] as usize, a[5] as u32);
            let r = match table_case(&c) {
                Err(e) if e.starts_with("panic:") => Err(e),
                Err(e) => Ok(format!("refused: {e}")),
                Ok((d, w)) => table_own_header(&d, &w).map(|_| format!("{} bytes", d.len())),
            };
            Some((r.is_err(), format!("{r:?}")))
        }
        "raw-cdda" => {
            let h: Vec<usize> = v["lens"].as_array()?.iter().map(|x| x.as_u64().unwrap_or(0) as usize).collect();
            let (a, b) = (cdda_pair(&h, true), cdda_pair(&h, false));
            let same = match (&a, &b) {
                (Ok(x), Ok(y)) => x == y,
                (Err(x), Err(y)) => crate::codec::err_class(x) == crate::codec::err_class(y),
                _ => false,
            };
            Some((!same, format!("write_cdda: {:?} ; write: {:?}", a.map(|x| x.len()), b.map(|x| x.len()))))
        }
        "raw-write" => {
            let seq: Vec<usize> = v["frames"].as_array()?.iter().map(|x| x.as_u64().unwrap_or(0) as usize).collect();
            let r = write_frames(&seq);
            Some((r.is_err(), format!("{:?}", r.map(|x| x.0.len()))))
        }
        "raw-nonsubset" => {
            let (rate, bps) = (v["rate"].as_u64()? as u32, v["bps"].as_u64()? as u32);
            let r = guarded(|| {
                let mut out = Vec::new();
                let mut w = FlacStreamWriter::new(&mut out, Options::default());
                w.write(rate, 1, bps, &[0i32; 16]).map(|_| out).ok()
            });
            let bad = match &r {
                Ok(None) => false,
                Ok(Some(bytes)) => !matches!(guarded(|| refdec::decode_frame(bytes, 0, None)), Ok(Ok(f)) if f.rate == rate && f.bps as u32 == bps && f.len == bytes.len()),
                Err(_) => true,
            };
            Some((bad, format!("{:?}", r.map(|b| b.map(|x| x.len())))))
        }
        _ => None,
    }
}
