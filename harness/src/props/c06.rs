//! C06 — seeking lands exactly. Shape H: explicit-state BFS to a fixpoint over read/fill/consume/seek
//! histories on clones of the real seekable readers; oracle: a cursor over the reference PCM.
use crate::bfs;
use crate::codec::pcm_bytes;
use crate::core::{Acc, Ctx};
use crate::corpus::{seek_file, TestFile, SEEK_VARIANTS};
use crate::readers::{model_for, open, Front, ReaderSys, FRONTS};
use serde_json::{json, Value};
use std::io::Cursor;

pub const RULE: &str = "for every file of the seek corpus (channels × depth × seek-table shape × declared/unknown length; 16-sample frames + short final frame; plus grammar-built variable-blocksize streams with frames of 16/24/16/40/5 samples; position-identifying PCM; a subset again embedded behind 7 foreign bytes with the source positioned at the stream's start) and each seekable reader front-end, breadth-first exploration of ALL histories over the op alphabet {read(n), fill_buf, fill+consume(k), seek(Start/Current/End or sample)} to a fixpoint with exact-state de-duplication (key = source position, current sample, decoded frame, buffered remainder, consumed count, reference cursor); every transition is checked against a cursor over the reference PCM; distinct outcomes = (front, op kind, label); plus the same exploration with ONE transient read fault injected at every 5th byte offset from byte 42 to the end of the file (mono/stereo 16-bit × 3 seek-table shapes × 4 front-ends): the operation that meets the fault must report it (or succeed with exact data); a seek issued immediately after the failed read/fill, if it succeeds, re-establishes the cursor and every delivery after it is exact again; in every other continuation after the fault nothing is demanded";
pub const ASSUMPTIONS: &[&str] = &["read faults are outside the property's stated quantifier; the fault stage only demands that a seek requested right after a reported read failure lands exactly (a fast path that trusts the reader's own counters after unseeked recovery is not flagged: benign change B6)", "argument values outside the op alphabet are not explored (the states they reach mostly are)", "after a FAILED seek the position is unspecified, but data delivered afterwards must still be a piece of the stream and continue contiguously from wherever it starts (the cursor is re-synchronised on the first delivered chunk when it occurs exactly once in the reference)", "a byte-reader End-relative seek on a stream with undeclared total may fail (the end is unknowable without a full decode) but if it succeeds it must be exact"];
pub fn bounds(quick: bool) -> Value {
    json!({"files": format!("channels {{1,2,3,8}} × depth {{8,12,16,24,32}} × 6 seek-table shapes × declared/unknown + (3ch,20bit), (5ch,4bit), (2ch,31bit), (7ch,1bit) × 3 shapes; {} full frames + 5-sample final", if quick { 2 } else { 6 }), "fixpoint": true})
}

pub fn oplist(front: Front, f: &TestFile) -> Vec<String> {
    let ch = f.sig.ch as u64;
    let w = crate::codec::bytes_per_sample(f.sig.bps) as u64;
    let frames = f.pcm.len() as u64 / ch;
    let mut ops: Vec<String> = Vec::new();
    let mut push = |s: String| {
        if !ops.contains(&s) {
            ops.push(s)
        }
    };
    match front {
        Front::ByteLE | Front::ByteBE => {
            let bpf = w * ch;
            let len = frames * bpf;
            for n in [1, w, (bpf).saturating_sub(1).max(1), 16 * bpf, 100_000] {
                push(format!("read:{n}"));
            }
            push("fill".into());
            push("fc:1".into());
            push("fc:all".into());
            let mut t = vec![0u64, 1, len - 1, len, len + 1, u64::MAX, 16 * bpf + bpf / 2 + 1];
            for k in 1..=(frames / 16) {
                for d in [-1i64, 0, 1] {
                    t.push((k * 16 * bpf) as u64 - 1 + (d + 1) as u64);
                }
            }
            for x in t {
                push(format!("ss:{x}"));
            }
            for d in [0i64, 1, -1, (16 * bpf) as i64, -((16 * bpf) as i64), -(len as i64) - 1, len as i64 + 1, i64::MIN, i64::MAX] {
                push(format!("sc:{d}"));
            }
            for d in [0i64, -1, -(bpf as i64), -(len as i64), -(len as i64) - 1, 1] {
                push(format!("se:{d}"));
            }
        }
        Front::Sample => {
            for n in [1, ch, 16 * ch, 100_000] {
                push(format!("read:{n}"));
            }
            push("fill".into());
            push("fc:1".into());
            push(format!("fc:{ch}"));
            push("fc:all".into());
            let mut t = vec![0u64, 1, frames - 1, frames, frames + 1, u64::MAX];
            for k in 1..=(frames / 16) {
                t.extend([k * 16 - 1, k * 16, k * 16 + 1]);
            }
            for x in t {
                push(format!("seek:{x}"));
            }
        }
        Front::Channel => {
            push("fill".into());
            push("fc:1".into());
            push("fc:7".into());
            push("fc:all".into());
            let mut t = vec![0u64, 1, frames - 1, frames, frames + 1, u64::MAX];
            for k in 1..=(frames / 16) {
                t.extend([k * 16 - 1, k * 16, k * 16 + 1]);
            }
            for x in t {
                push(format!("seek:{x}"));
            }
        }
    }
    ops
}

pub fn files(quick: bool) -> Vec<(u8, u32, &'static str, bool, usize)> {
    let mut v = Vec::new();
    let nfull = if quick { 2 } else { 6 };
    for ch in [1u8, 2, 3, 8] {
        for bps in [8u32, 12, 16, 24, 32] {
            for var in SEEK_VARIANTS {
                for decl in [true, false] {
                    v.push((ch, bps, *var, decl, nfull));
                }
            }
        }
    }
    // variable-blocksize streams (grammar-built; frames of 16, 24, 16, 40 and 5 samples numbered by sample)
    for (ch, bps) in [(1u8, 16u32), (2, 16), (2, 24), (3, 8)] {
        for var in ["fgen-variable-every-frame", "fgen-variable-none", "fgen-variable-every-frame+placeholders"] {
            for decl in [true, false] {
                v.push((ch, bps, var, decl, nfull));
            }
        }
    }
    // depths that are not a whole number of bytes, with several channels (byte width != bits/8)
    for (ch, bps) in [(3u8, 20u32), (5, 4), (2, 31), (7, 1)] {
        for var in ["every-frame", "every-2nd", "none"] {
            v.push((ch, bps, var, true, nfull));
        }
    }
    v
}

/// the stream behind `prefix` foreign bytes, the source positioned at the start of the stream
fn embedded(f: &TestFile, prefix: usize) -> Vec<u8> {
    let mut data: Vec<u8> = (0..prefix).map(|i| 0xF8u8.wrapping_add(i as u8 * 29)).collect();
    data.extend_from_slice(&f.bytes);
    data
}

fn explore_one(f: &TestFile, front: Front, acc: &mut Acc, spec: &Value) {
    let refbytes = pcm_bytes(&f.pcm, f.sig.bps, front == Front::ByteBE);
    let ops = oplist(front, f);
    let prefix = spec["prefix"].as_u64().unwrap_or(0) as usize;
    let data = embedded(f, prefix);
    let mut src = Cursor::new(&data[..]);
    src.set_position(prefix as u64);
    let rd = match open(front, src, true) {
        Ok(r) => r,
        Err(e) => {
            acc.violation(format!("C06|{front:?}|open"), format!("cannot open a valid file: {e}"), json!({"kind":"reader-history","file":spec,"front":format!("{front:?}"),"ops":[]}));
            return;
        }
    };
    let sys = ReaderSys { rd, m: model_for(front, f, &refbytes), oplist: &ops };
    let mut viols: Vec<(Vec<String>, String, String)> = Vec::new();
    let mut labels: Vec<(String, String)> = Vec::new();
    let st = bfs::explore(
        sys,
        60_000,
        |op, label| {
            let kind = op.split(':').next().unwrap_or(op).to_string();
            labels.push((kind, label.to_string()));
        },
        |h, c, d| viols.push((h, c, d)),
    );
    for (k, l) in labels {
        acc.outcome(format!("{front:?}:{k}:{l}"));
    }
    acc.states += st.states;
    acc.transitions += st.transitions;
    acc.executions += 1;
    acc.dim("max_depth", st.max_depth as u64);
    if st.capped {
        acc.caps.push(format!("state cap hit on {} {front:?}", f.desc));
    }
    if acc.samples.len() < 3 {
        acc.sample(json!({"file": f.desc, "front": format!("{front:?}"), "ops": ops, "states": st.states, "transitions": st.transitions, "max_depth": st.max_depth}));
    }
    for (h, clause, detail) in viols {
        let opk = h.last().map(|o| o.split(':').next().unwrap_or("").to_string()).unwrap_or_default();
        acc.violation(
            format!("C06|{front:?}|{opk}|{clause}"),
            format!("{front:?} on {}{}: after history {:?}: {clause}: {detail}", f.desc, if prefix > 0 { format!(" embedded at offset {prefix}") } else { String::new() }, h),
            json!({"kind":"reader-history","file":spec,"front":format!("{front:?}"),"ops":h}),
        );
    }
}

fn explore_fault(f: &TestFile, front: Front, acc: &mut Acc, spec: &Value) {
    let refbytes = pcm_bytes(&f.pcm, f.sig.bps, front == Front::ByteBE);
    let ops = oplist(front, f);
    let prefix = spec["prefix"].as_u64().unwrap_or(0) as usize;
    let data = embedded(f, prefix);
    let mut cur = Cursor::new(&data[..]);
    cur.set_position(prefix as u64);
    let src = crate::readers::FaultCursor { cur, at: spec["fault"].as_u64().unwrap_or(u64::MAX), fired: false };
    let rd = match open(front, src, true) {
        Ok(r) => r,
        Err(_) => {
            // the fault fell into the metadata the constructor reads: refusing to open is the right answer
            acc.outcome(format!("{front:?}:open:refused-under-injected-fault"));
            return;
        }
    };
    let sys = ReaderSys { rd, m: model_for(front, f, &refbytes), oplist: &ops };
    let mut viols: Vec<(Vec<String>, String, String)> = Vec::new();
    let mut labels: Vec<(String, String)> = Vec::new();
    let st = bfs::explore(
        sys,
        60_000,
        |op, label| {
            let kind = op.split(':').next().unwrap_or(op).to_string();
            labels.push((kind, label.to_string()));
        },
        |h, c, d| viols.push((h, c, d)),
    );
    for (k, l) in labels {
        acc.outcome(format!("{front:?}:{k}:{l}"));
    }
    acc.states += st.states;
    acc.transitions += st.transitions;
    acc.executions += 1;
    acc.dim("max_depth", st.max_depth as u64);
    if st.capped {
        acc.caps.push(format!("state cap hit on {} {front:?}", f.desc));
    }
    if acc.samples.len() < 3 {
        acc.sample(json!({"file": f.desc, "front": format!("{front:?}"), "ops": ops, "states": st.states, "transitions": st.transitions, "max_depth": st.max_depth}));
    }
    for (h, clause, detail) in viols {
        let opk = h.last().map(|o| o.split(':').next().unwrap_or("").to_string()).unwrap_or_default();
        acc.violation(
            format!("C06|{front:?}|{opk}|{clause}"),
            format!("{front:?} on {}{}: after history {:?}: {clause}: {detail}", f.desc, if prefix > 0 { format!(" embedded at offset {prefix}") } else { String::new() }, h),
            json!({"kind":"reader-history","file":spec,"front":format!("{front:?}"),"ops":h}),
        );
    }
}

pub fn run(ctx: &Ctx, acc: &mut Acc) {
    fault_stage(ctx, acc);
    for (ch, bps, var, decl, nfull) in files(ctx.quick) {
        for front in FRONTS {
            if !ctx.mine() {
                continue;
            }
            let f = seek_file(ch, bps, var, decl, nfull, 5);
            let spec = json!({"ch":ch,"bps":bps,"variant":var,"declared":decl,"nfull":nfull,"tail":5});
            explore_one(&f, front, acc, &spec);
        }
    }
    // the same stream embedded behind 7 foreign bytes, the source handed over positioned at the stream's start:
    // every seek is relative to where the stream began, not to offset 0 of the source
    for (ch, bps) in [(1u8, 16u32), (2, 16), (2, 24)] {
        for var in SEEK_VARIANTS {
            for decl in [true, false] {
                for front in FRONTS {
                    if !ctx.mine() {
                        continue;
                    }
                    let f = seek_file(ch, bps, var, decl, 2, 5);
                    let spec = json!({"ch":ch,"bps":bps,"variant":var,"declared":decl,"nfull":2,"tail":5,"prefix":7});
                    explore_one(&f, front, acc, &spec);
                }
            }
        }
    }
}

/// One transient read fault (deviation bound 1) at every 5th byte offset of the audio part: the operation that meets it must
/// report it; after the next successful seek every delivery must be exact again.
fn fault_stage(ctx: &Ctx, acc: &mut Acc) {
    for (ch, bps) in [(1u8, 16u32), (2, 16)] {
        for var in ["every-frame", "none", "every-2nd"] {
            let f = seek_file(ch, bps, var, true, 2, 5);
            let mut at = 42u64;
            while at < f.bytes.len() as u64 {
                for front in FRONTS {
                    if !ctx.mine() {
                        continue;
                    }
                    let spec = json!({"ch":ch,"bps":bps,"variant":var,"declared":true,"nfull":2,"tail":5,"fault":at});
                    explore_fault(&f, front, acc, &spec);
                }
                at += 5;
            }
        }
    }
}

pub fn front_from(s: &str) -> Front {
    match s {
        "ByteLE" => Front::ByteLE,
        "ByteBE" => Front::ByteBE,
        "Sample" => Front::Sample,
        _ => Front::Channel,
    }
}

pub fn replay(v: &Value) -> Option<(bool, String)> {
    if v["kind"] != "reader-history" {
        return None;
    }
    let s = &v["file"];
    let f = seek_file(s["ch"].as_u64()? as u8, s["bps"].as_u64()? as u32, s["variant"].as_str()?, s["declared"].as_bool()?, s["nfull"].as_u64()? as usize, s["tail"].as_u64()? as usize);
    let front = front_from(v["front"].as_str()?);
    let refbytes = pcm_bytes(&f.pcm, f.sig.bps, front == Front::ByteBE);
    let ops: Vec<String> = v["ops"].as_array()?.iter().map(|o| o.as_str().unwrap_or("").to_string()).collect();
    let prefix = s["prefix"].as_u64().unwrap_or(0) as usize;
    let data = embedded(&f, prefix);
    let empty: Vec<String> = vec![];
    if let Some(at) = s["fault"].as_u64() {
        let mut cur = Cursor::new(&data[..]);
        cur.set_position(prefix as u64);
        let rd = match open(front, crate::readers::FaultCursor { cur, at, fired: false }, true) {
            Ok(r) => r,
            Err(e) => return Some((false, format!("refused to open under the injected fault: {e}"))),
        };
        let sys = ReaderSys { rd, m: model_for(front, &f, &refbytes), oplist: &empty };
        let (viol, labels) = bfs::replay(sys, &ops);
        return Some((viol.is_some(), labels.join("\n")));
    }
    let mut src = Cursor::new(&data[..]);
    src.set_position(prefix as u64);
    let rd = match open(front, src, true) {
        Ok(r) => r,
        Err(e) => return Some((true, e)),
    };
    let sys = ReaderSys { rd, m: model_for(front, &f, &refbytes), oplist: &empty };
    let (viol, labels) = bfs::replay(sys, &ops);
    Some((viol.is_some(), labels.join("\n")))
}
