//! C02 — encoder output is conforming RFC 9639 as judged by the independent decoder/validator.
//! Shape G over the C01 space + raw FlacStreamWriter frames; no crate decoder is involved.
use crate::codec::{case_json, encode, err_class, Opt, Sig};
use crate::core::{for_each_seq, guarded, Acc, Ctx};
use crate::encspace::{enumerate, sigma, EncCase};
use flac_codec::encode::{FlacStreamWriter, Options};
use serde_json::{json, Value};
use vph::refdec;

pub const RULE: &str = "every case of the C01 space (a)-(l) (incl. all four writer front-ends and both byte orders) is encoded by the real crate and the finished bytes are judged by the independent strict validator (sync, reserved bits/codes, coded numbers, header/STREAMINFO consistency, CRC-8/16, zero padding, wasted-bit/predictor/partition/residual rules with UNTRUNCATED prediction, frame numbering, block sizes, sample count, MD5, frame-size extrema, no trailing bytes) and the independent decode must equal the input PCM; plus FlacStreamWriter output for all frame sequences of 1..2 frames × all PCM over Σ up to 3 PCM frames × channels 1..3 × subset depths with parameters changing between frames, and every FlacStreamWriter call history of 3 valid frames with ≤2 rejected calls (9 kinds: unsupported depth/rate, too many samples, odd sample count, empty slice, bad channel count) inserted at every position; plus write-call histories on 40-PCM-frame inputs (2.5 blocks; stereo 16-bit, mono 8-bit, 3-channel 20-bit) × 4 writers × declared/undeclared × every ≤2-cut history (byte writers in quick: a fixed 1/3 sub-lattice of the 2-cut pairs) × {plain, flush() after every call, dropped instead of finalized, a sink accepting 3 bytes per write call (≤1-cut histories)}; distinct outcomes = (set, verdict, subframe kinds, channel code, partition orders)";
pub const ASSUMPTIONS: &[&str] = &["refdec is bound to reality by decoding the libFLAC-made fixtures with matching MD5 and by inverting the independently written stream builder (selftest)", "same input bounds as C01"];
pub fn bounds(quick: bool) -> Value {
    super::c01::bounds(quick)
}

pub fn judge(bytes: &[u8], pcm: &[i32], sig: &Sig) -> (String, Option<(String, String)>) {
    let (st, viol) = match guarded(|| refdec::validate(bytes)) {
        Ok(x) => x,
        Err(p) => return ("refdec-panic".into(), Some(("C02|machinery|refdec-panic".into(), p))),
    };
    // Not demanded by the property and contradicted by the crate's documented 1..32 range (C01/C15): RFC 9639 only
    // *recommends* depths >= 4; the validator's 'bps < 4' note is therefore not a verdict here.
    let viol: Vec<String> = viol.into_iter().filter(|v| !v.contains("bps") || !v.contains("< 4")).collect();
    if let Some(v) = viol.first() {
        // signature: the stable code at the start of the violation text ("frame 2: code ..." or "code ...")
        let code = v.split(": ").last().unwrap_or(v).split_whitespace().next().unwrap_or("?").to_string();
        let code = if v.starts_with("reject:") { v.split_whitespace().next().unwrap_or(v).to_string() } else { code };
        return (format!("nonconforming:{code}"), Some((format!("C02|nonconforming|{code}"), format!("independent validator: {}", viol.join("; ")))));
    }
    let st = match st {
        Some(s) => s,
        None => return ("undecodable".into(), Some(("C02|undecodable".into(), "validator returned no stream".into()))),
    };
    if st.pcm != pcm {
        let at = st.pcm.iter().zip(pcm).position(|(a, b)| a != b).unwrap_or(st.pcm.len().min(pcm.len()));
        return ("pcm-differs".into(), Some(("C02|independent-decode-differs".into(), format!("independent decoder reconstructs different PCM (first difference at {at}, {} vs {} samples)", st.pcm.len(), pcm.len()))));
    }
    if st.info.channels != sig.ch || st.info.rate != sig.rate || st.info.bps as u32 != sig.bps {
        return ("params".into(), Some(("C02|streaminfo-params".into(), format!("STREAMINFO says {}ch {}Hz {}bit", st.info.channels, st.info.rate, st.info.bps))));
    }
    // shape key for the coverage statistics
    let mut kinds: Vec<String> = Vec::new();
    for f in &st.frames {
        for s in &f.subframes {
            let k = format!("{}{}{}", match s.kind { refdec::SubKind::Constant => "C".to_string(), refdec::SubKind::Verbatim => "V".into(), refdec::SubKind::Fixed(o) => format!("F{o}"), refdec::SubKind::Lpc(o) => format!("L{}", o.min(9)) }, if s.wasted > 0 { "w" } else { "" }, s.partition_order.map(|p| format!("p{p}")).unwrap_or_default());
            if !kinds.contains(&k) {
                kinds.push(k);
            }
        }
    }
    kinds.sort();
    kinds.truncate(4);
    let cc = st.frames.first().map(|f| f.chan_code).unwrap_or(0);
    (format!("ok:cc{}:{}", cc.min(11), kinds.join("+")), None)
}

fn stream_frames(frames: &[(u32, u8, u32, Vec<i32>)]) -> Result<Vec<u8>, String> {
    match guarded(|| -> Result<Vec<u8>, String> {
        let mut out = Vec::new();
        let mut w = FlacStreamWriter::new(&mut out, Options::default());
        for (rate, ch, bps, pcm) in frames {
            w.write(*rate, *ch, *bps, pcm).map_err(|e| format!("err:{e:?}"))?;
        }
        Ok(out)
    }) {
        Ok(r) => r,
        Err(p) => Err(format!("panic:{p}")),
    }
}

fn judge_raw(bytes: &[u8], frames: &[(u32, u8, u32, Vec<i32>)]) -> Option<(String, String)> {
    let (got, viol) = match guarded(|| refdec::validate_raw_frames(bytes)) {
        Ok(x) => x,
        Err(p) => return Some(("C02|machinery|refdec-panic".into(), p)),
    };
    // parameter changes and short non-final frames are the *caller's* choice in a raw frame stream, not the encoder's
    let viol: Vec<&String> = viol.iter().filter(|v| !v.contains("stream-params") && !v.contains("short-nonfinal-block") && !v.contains("block-size")).collect();
    if let Some(v) = viol.first() {
        let code = v.split(": ").last().unwrap_or(v).split_whitespace().next().unwrap_or("?").to_string();
        return Some((format!("C02|raw-nonconforming|{code}"), format!("independent validator on raw frames: {v}")));
    }
    if got.len() != frames.len() {
        return Some(("C02|raw-frame-count".into(), format!("{} frames written, {} found", frames.len(), got.len())));
    }
    for (i, (f, (rate, ch, bps, pcm))) in got.iter().zip(frames).enumerate() {
        let inter: Vec<i32> = (0..f.block_size as usize).flat_map(|k| f.samples.iter().map(move |c| c[k] as i32)).collect();
        if &inter != pcm || f.rate != *rate || f.channels != *ch || f.bps as u32 != *bps {
            return Some(("C02|raw-frame-differs".into(), format!("frame {i} decodes to different samples/parameters")));
        }
    }
    None
}

pub fn run(ctx: &Ctx, acc: &mut Acc) {
    enumerate(ctx, "abcdefghijkl", &mut |c: &EncCase| {
        acc.states += 1;
        acc.executions += 1;
        acc.transitions += 2;
        acc.dim(&format!("set_{}", c.set), 1);
        let (out, v) = match encode(c.w, &c.opt, &c.sig, c.pcm) {
            Ok(bytes) => judge(&bytes, c.pcm, &c.sig),
            Err(e) => (format!("encode-{}", err_class(&e)), Some((format!("C02|encode|{}", err_class(&e)), format!("encoding failed: {e}")))),
        };
        acc.outcome(format!("{}:{}", c.set, out));
        if acc.states % 40_000 == 1 {
            acc.sample(case_json("enc-validate", c.w, &c.opt, &c.sig, &c.pcm[..c.pcm.len().min(48)]));
        }
        if let Some((sig, what)) = v {
            acc.violation(sig, what, case_json("enc-validate", c.w, &c.opt, &c.sig, c.pcm));
        }
    });
    run_rejection_histories(ctx, acc);
    run_write_histories(ctx, acc);
    // raw frame streams
    let menu: Vec<(u32, u8, u32)> = vec![(44100, 1, 16), (8000, 2, 8), (12345, 3, 24), (100010, 1, 12), (96000, 2, 32), (22050, 2, 20)];
    for (i, &(rate, ch, bps)) in menu.iter().enumerate() {
        let alpha = sigma(bps);
        let maxf = if ctx.quick { 2 } else { 3 };
        for n in 1..=maxf {
            for_each_seq(&alpha, n * ch as usize, n * ch as usize, |s| {
                if !ctx.mine() {
                    return;
                }
                // followed by one frame with different parameters
                let (r2, c2, b2) = menu[(i + 1) % menu.len()];
                let second = crate::corpus::ident_pcm(c2, b2, 17);
                let frames = vec![(rate, ch, bps, s.to_vec()), (r2, c2, b2, second)];
                acc.states += 1;
                acc.executions += 1;
                acc.transitions += 2;
                let v = match stream_frames(&frames) {
                    Ok(bytes) => judge_raw(&bytes, &frames),
                    Err(e) => Some((format!("C02|raw-encode|{}", err_class(&e)), format!("FlacStreamWriter failed: {e}"))),
                };
                acc.outcome(format!("raw:{}", if v.is_none() { "ok" } else { "bad" }));
                if let Some((sig, what)) = v {
                    acc.violation(sig, what, json!({"kind":"raw-frames","frames":frames.iter().map(|(r,c,b,p)| json!({"rate":r,"ch":c,"bps":b,"pcm":p})).collect::<Vec<_>>()}));
                }
            });
        }
    }
}

/// Write-call histories (the C08 dimension) judged by the validator: every ≤2-cut history × {plain, flush after every
/// call (byte writers), dropped instead of finalized} on 2.5-block inputs — a frame emitted early or late by some
/// history would be a short non-final block / a wrong MD5 even if the crate's own decoder still accepted the file.
fn run_write_histories(ctx: &Ctx, acc: &mut Acc) {
    use crate::codec::{WriterKind, WRITERS};
    for sig in [Sig { rate: 44100, bps: 16, ch: 2 }, Sig { rate: 8000, bps: 8, ch: 1 }, Sig { rate: 48000, bps: 20, ch: 3 }] {
        let pcm = crate::corpus::ident_pcm(sig.ch, sig.bps, 40);
        for declared in [true, false] {
            let opt = Opt { declared, ..Opt::base16() };
            for w in WRITERS {
                let byte = matches!(w, WriterKind::ByteLE | WriterKind::ByteBE);
                let u = match w {
                    WriterKind::Sample => pcm.len(),
                    WriterKind::Channel => 40,
                    _ => pcm.len() * crate::codec::bytes_per_sample(sig.bps),
                };
                let mut hist: Vec<Vec<usize>> = vec![vec![]];
                for a in 0..=u {
                    hist.push(vec![a]);
                    for b in a + 1..u {
                        if !byte || ((a % 3 != 2) && b % 2 == 1) || ctx.quick == false {
                            hist.push(vec![a, b]);
                        }
                    }
                }
                for cuts in hist {
                    if !ctx.mine() {
                        continue;
                    }
                    acc.states += 1;
                    // (the last mode: a sink that accepts at most 3 bytes per write call, for the histories with ≤ 1 cut)
                    for (flush, drop_it, sink) in [(false, false, 0usize), (true, false, 0), (false, true, 0), (false, false, 3)] {
                        if (flush && !byte) || (sink > 0 && cuts.len() > 1) {
                            continue;
                        }
                        acc.executions += 1;
                        acc.transitions += cuts.len() as u64 + 2;
                        let (out, v) = match crate::codec::encode_sink(w, &opt, &sig, &pcm, Some(&cuts), flush, drop_it, sink) {
                            Ok(bytes) => judge(&bytes, &pcm, &sig),
                            Err(e) => (format!("encode-{}", err_class(&e)), Some((format!("C02|encode|{}", err_class(&e)), format!("encoding failed: {e}")))),
                        };
                        acc.outcome(format!("hist:{w:?}:{}{}{}:{out}", if flush { "flush" } else { "" }, if drop_it { "drop" } else { "" }, if sink > 0 { "short-sink" } else { "" }));
                        if let Some((s, what)) = v {
                            let mut case = case_json("hist-validate", w, &opt, &sig, &pcm);
                            case["cuts"] = json!(cuts);
                            case["flush"] = json!(flush);
                            case["drop"] = json!(drop_it);
                            case["sink"] = json!(sink);
                            acc.violation(format!("{s}|hist{}{}{}", if flush { "+flush" } else { "" }, if drop_it { "+drop" } else { "" }, if sink > 0 { "+short-sink" } else { "" }), format!("{w:?} split at {cuts:?}{}{}{}: {what}", if flush { " with flush() after every call" } else { "" }, if drop_it { ", dropped instead of finalized" } else { "" }, if sink > 0 { ", over a sink that accepts 3 bytes per write call" } else { "" }), case);
                        }
                    }
                }
            }
        }
    }
}

/// FlacStreamWriter call histories that contain REJECTED calls: whatever is refused writes nothing and must not
/// disturb the numbering of the frames that are written ("frames are numbered consecutively").
fn rejected_calls() -> Vec<(&'static str, u32, u8, u32, usize)> {
    // (name, rate, channels, bits, number of samples)
    vec![("bps-17", 44100, 1, 17, 16), ("bps-0", 44100, 1, 0, 16), ("rate-700001", 700001, 1, 16, 16), ("rate-2^20", 1 << 20, 1, 16, 16), ("too-many-samples", 44100, 1, 16, 65536), ("odd-sample-count", 44100, 2, 16, 15), ("empty", 44100, 1, 16, 0), ("channels-9", 44100, 9, 16, 18), ("channels-0", 44100, 0, 16, 0)]
}

fn history_with_rejections(valid: &[(u32, u8, u32, Vec<i32>)], inserts: &[(usize, usize)]) -> Result<(Vec<u8>, usize), String> {
    let rej = rejected_calls();
    match guarded(|| -> Result<(Vec<u8>, usize), String> {
        let mut out = Vec::new();
        let mut accepted_rejects = 0;
        {
            let mut w = FlacStreamWriter::new(&mut out, Options::default());
            for pos in 0..=valid.len() {
                for (at, which) in inserts {
                    if *at == pos {
                        let (_, rate, ch, bps, n) = rej[*which];
                        let junk = vec![0i32; n];
                        if w.write(rate, ch, bps, &junk).is_ok() {
                            accepted_rejects += 1;
                        }
                    }
                }
                if let Some((rate, ch, bps, pcm)) = valid.get(pos) {
                    w.write(*rate, *ch, *bps, pcm).map_err(|e| format!("err:{e:?}"))?;
                }
            }
        }
        Ok((out, accepted_rejects))
    }) {
        Ok(r) => r,
        Err(p) => Err(format!("panic:{p}")),
    }
}

fn run_rejection_histories(ctx: &Ctx, acc: &mut Acc) {
    let valid: Vec<(u32, u8, u32, Vec<i32>)> = vec![(44100, 1, 16, crate::corpus::ident_pcm(1, 16, 16)), (8000, 2, 8, crate::corpus::ident_pcm(2, 8, 17)), (96000, 1, 24, crate::corpus::ident_pcm(1, 24, 16))];
    let nrej = rejected_calls().len();
    let mut histories: Vec<Vec<(usize, usize)>> = Vec::new();
    for at in 0..=valid.len() {
        for r in 0..nrej {
            histories.push(vec![(at, r)]);
            for at2 in at..=valid.len() {
                for r2 in 0..nrej {
                    histories.push(vec![(at, r), (at2, r2)]);
                }
            }
        }
    }
    for h in histories {
        if !ctx.mine() {
            continue;
        }
        acc.states += 1;
        acc.executions += 1;
        acc.transitions += valid.len() as u64 + h.len() as u64;
        let names: Vec<String> = h.iter().map(|(at, r)| format!("{}@{at}", rejected_calls()[*r].0)).collect();
        let v = match history_with_rejections(&valid, &h) {
            Err(e) => Some((format!("C02|raw-history|{}", err_class(&e)), format!("FlacStreamWriter history with rejected calls {names:?}: {e}"))),
            Ok((bytes, accepted)) => {
                if accepted > 0 {
                    None // the call was not refused after all: that frame is C16's business (must decode from its own header)
                } else {
                    judge_raw(&bytes, &valid).map(|(sig, what)| (sig.replace("C02|raw-", "C02|raw-history-"), format!("after rejected calls {names:?}: {what}")))
                }
            }
        };
        acc.outcome(format!("raw-history:{}", if v.is_none() { "ok" } else { "bad" }));
        if let Some((sig, what)) = v {
            acc.violation(sig, what, json!({"kind":"raw-history","inserts":h}));
        }
    }
}

pub fn replay(v: &Value) -> Option<(bool, String)> {
    match v["kind"].as_str()? {
        "raw-history" => {
            let valid: Vec<(u32, u8, u32, Vec<i32>)> = vec![(44100, 1, 16, crate::corpus::ident_pcm(1, 16, 16)), (8000, 2, 8, crate::corpus::ident_pcm(2, 8, 17)), (96000, 1, 24, crate::corpus::ident_pcm(1, 24, 16))];
            let h: Vec<(usize, usize)> = v["inserts"].as_array()?.iter().map(|x| (x[0].as_u64().unwrap_or(0) as usize, x[1].as_u64().unwrap_or(0) as usize)).collect();
            let r = match history_with_rejections(&valid, &h) {
                Err(e) => Some((String::new(), e)),
                Ok((bytes, acc)) => if acc > 0 { None } else { judge_raw(&bytes, &valid) },
            };
            Some((r.is_some(), format!("{r:?}")))
        }
        "hist-validate" => {
            let pcm = crate::core::ivec(&v["pcm"]);
            let sig = crate::codec::sig_from(v);
            let opt = Opt::from_json(&v["opt"]);
            let w = crate::codec::writer_from(v["writer"].as_str().unwrap_or(""));
            let cuts: Vec<usize> = v["cuts"].as_array()?.iter().map(|x| x.as_u64().unwrap_or(0) as usize).collect();
            let (out, viol) = match crate::codec::encode_sink(w, &opt, &sig, &pcm, Some(&cuts), v["flush"].as_bool().unwrap_or(false), v["drop"].as_bool().unwrap_or(false), v["sink"].as_u64().unwrap_or(0) as usize) {
                Ok(bytes) => judge(&bytes, &pcm, &sig),
                Err(e) => (format!("encode-{}", err_class(&e)), Some((String::new(), e))),
            };
            Some((viol.is_some(), format!("outcome={out} {}", viol.map(|x| x.1).unwrap_or_default())))
        }
        "enc-validate" => {
            let pcm = crate::core::ivec(&v["pcm"]);
            let sig = crate::codec::sig_from(v);
            let opt = Opt::from_json(&v["opt"]);
            let w = crate::codec::writer_from(v["writer"].as_str().unwrap_or(""));
            let (out, viol) = match encode(w, &opt, &sig, &pcm) {
                Ok(bytes) => judge(&bytes, &pcm, &sig),
                Err(e) => (format!("encode-{}", err_class(&e)), Some((String::new(), e))),
            };
            Some((viol.is_some(), format!("outcome={out} {}", viol.map(|x| x.1).unwrap_or_default())))
        }
        "raw-frames" => {
            let frames: Vec<(u32, u8, u32, Vec<i32>)> = v["frames"].as_array()?.iter().map(|f| (f["rate"].as_u64().unwrap_or(0) as u32, f["ch"].as_u64().unwrap_or(1) as u8, f["bps"].as_u64().unwrap_or(16) as u32, crate::core::ivec(&f["pcm"]))).collect();
            let r = match stream_frames(&frames) {
                Ok(bytes) => judge_raw(&bytes, &frames),
                Err(e) => Some((String::new(), e)),
            };
            Some((r.is_some(), format!("{r:?}")))
        }
        _ => None,
    }
}
