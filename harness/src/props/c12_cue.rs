//! C12 (b) — the cue-sheet text importer is total: `Cuesheet::parse(total_samples, text)` returns a value or an
//! error for every text, and every accessor of a sheet that parsed returns; no panic, bounded allocation,
//! in both build profiles.
//!
//! WHAT IS ENUMERATED
//! * Texts = every sequence of 0..=D lines over the line alphabet `alphabet()` (60 templates: TRACK with numbers
//!   {01,02,00,99,100,255,256,junk, no mode, bare keyword, indented+CR}; INDEX in MM:SS:FF form with numbers
//!   {00,01,02,99,100,255,256} and times {00:00:00, 00:01:00 (earlier than 00:02:00), 00:02:00, 00:03:00, ss=60,
//!   ff=75, 99:59:74, 100:00:00, minutes whose sample count overflows u64, minutes for which mm*75 overflows,
//!   21-digit minutes}; INDEX with plain sample offsets (the non-CD-DA form) {0, 500, 1000, u64::MAX}; CATALOG
//!   {13 digits bare / quoted, 3 digits, none, 129 digits, bad character, lone quote, double blank}; ISRC {valid,
//!   quoted with dashes, none, over-long, non-ASCII straddling a split point, too short}; FLAGS {PRE, DCP, none,
//!   PRE DCP}; blank, blanks only, REM, FILE, junk word, non-ASCII TITLE, lone quote), lines joined by LF,
//!   D = 5 in the quick tier and 6 in the thorough tier,
//!   x total_samples in {0, 588, 588*900000, 588*900000+1, the largest multiple of 588 below 2^64, 2^64-1}.
//! * Chains: `TRACK 01 AUDIO` + n consecutive INDEX lines, n in {99,100,101,254,255,256}, numbering from 00 or 01,
//!   in MM:SS:FF and in plain-offset form, followed by nothing or by one line of the alphabet or one of four
//!   extra INDEX lines, x the same totals (reaches index number 255, which depth 6 cannot).
//! * On every text that parses: tracks(), track_sample_ranges(), track_byte_ranges for (1 ch, 8 bit),
//!   (2, 16), (8, 32), display("x.flac").to_string(), catalog_number().to_string(), track_count(),
//!   lead_in_samples(), is_cdda() - each under its own panic guard.
//!
//! PRUNING (the only one used, and why it is sound).  The importer is a single `for line in text.lines()` loop
//! (src/metadata/mod.rs:3630-3733) that reads the lines in order and leaves at the first offending line (`return
//! Err`, `?`, or a panic unwinding out of it); code after the loop (missing last track, lead-out) runs only when
//! every line has been read.  So if the importer stopped INSIDE a prefix p, it never looks at anything after the
//! offending line and p followed by ANY further lines gives the identical result: the subtree below p is covered by
//! p's own execution and is not executed again (it is counted in dims.cue_sequences_covered_by_prefix).  Whether
//! the importer stopped inside p is decided by a probe, not by guessing from the error: the bare line `CATALOG`
//! makes the loop return CatalogMissingNumber unconditionally (first match arm, mod.rs:3633), so p + "\nCATALOG"
//! returns CatalogMissingNumber iff the loop got through all of p.  A prefix is pruned only when p failed or
//! panicked AND the probe returns that same failure / panic instead of the sentinel's error (a p that itself
//! returns CatalogMissingNumber stopped at its own bare CATALOG line).  Prefixes that parse, or whose error comes
//! from the end-of-text code, are always expanded.  The argument is audited on every run: below every pruned prefix
//! of length < 3 the subtree IS executed down to length 3 (so lengths 0..3 are the full product) and each member
//! must return the prefix's result; any disagreement is reported as C12|cue-parse|prune-audit-mismatch.
//!
//! Sharding: sequences of length 0 and 1 are cases of their own; every (total, line1, line2) is one shard unit whose
//! whole subtree is explored by the shard that owns it.
use crate::core::{alloc_mark, alloc_peak_since, guarded, panic_loc, Acc, Ctx, CASE_CLOCK};
use flac_codec::metadata::Cuesheet;
use serde_json::{json, Value};
use std::sync::atomic::Ordering;

const TOTALS: [u64; 6] = [0, 588, 588 * 900_000, 588 * 900_000 + 1, (u64::MAX / 588) * 588, u64::MAX];
const AUDIT_LEN: usize = 3;
const ALLOC_BOUND: usize = 1 << 20; // the texts are < 64 KiB; anything near a MiB is unbounded growth

/// a line that makes the importer return `SENTINEL_ERR` the moment its loop reaches it, whatever came before
const SENTINEL: &str = "CATALOG";
const SENTINEL_ERR: &str = "CatalogMissingNumber";

fn alphabet() -> Vec<String> {
    let mut a: Vec<String> = Vec::new();
    for s in [
        // TRACK
        "TRACK 01 AUDIO",
        "TRACK 02 AUDIO",
        "TRACK 00 AUDIO",
        "TRACK 99 AUDIO",
        "TRACK 100 AUDIO",
        "TRACK 255 AUDIO",
        "TRACK 256 AUDIO",
        "TRACK xx AUDIO",
        "TRACK 01",
        "TRACK",
        "  TRACK 01 AUDIO\r",
        // INDEX, CD-DA form
        "INDEX 00 00:00:00",
        "INDEX 01 00:00:00",
        "\tINDEX 01 00:00:00\r",
        "INDEX 00 00:02:00",
        "INDEX 01 00:02:00",
        "INDEX 02 00:02:00",
        "INDEX 01 00:01:00",
        "INDEX 02 00:01:00",
        "INDEX 01 00:60:00",
        "INDEX 01 00:00:75",
        "INDEX 01 99:59:74",
        "INDEX 02 100:00:00",
        "INDEX 02 9999999999999:00:00",
        "INDEX 02 9223372036854775808:00:00",
        "INDEX 02 999999999999999999999:00:00",
        "INDEX 99 00:03:00",
        "INDEX 100 00:03:00",
        "INDEX 255 00:03:00",
        "INDEX 256 00:03:00",
        // INDEX, plain sample offsets (what the non-CD-DA importer reads)
        "INDEX 01 0",
        "INDEX 00 1000",
        "INDEX 01 1000",
        "INDEX 02 500",
        "INDEX 02 18446744073709551615",
        // CATALOG
        "CATALOG 1234567890123",
        "CATALOG \"1234567890123\"",
        "CATALOG 123",
        "CATALOG",
        "CATALOG 12345678x0123",
        "CATALOG \"",
        "CATALOG  123",
        // ISRC
        "ISRC ABCDE7654321",
        "ISRC \"AA-6Q7-20-00047\"",
        "ISRC",
        "ISRC ABCDE76543210000000000000000000000000",
        "ISRC A\u{c0}BCDE765432",
        "ISRC 1234",
        // FLAGS
        "FLAGS PRE",
        "FLAGS DCP",
        "FLAGS",
        "FLAGS PRE DCP",
        // other
        "",
        "   ",
        "REM COMMENT \"x\"",
        "FILE \"x.wav\" WAVE",
        "junk",
        "TITLE \"\u{65e5}\u{672c}\"",
        "\"",
    ] {
        a.push(s.to_string());
    }
    a.push(format!("CATALOG {}", "1234567890".repeat(13).get(..129).unwrap()));
    a
}

#[derive(Clone, Debug, PartialEq)]
enum Res {
    Ok,
    Err(String),
    Panic(String),
}
impl Res {
    fn class(&self) -> String {
        match self {
            Res::Ok => "Ok".into(),
            Res::Err(e) => format!("Err-{e}"),
            Res::Panic(p) => format!("panic@{}", panic_loc(p)),
        }
    }
}

/// One execution: parse + (if it parsed) every accessor.  Returns the parse result and the violations found.
fn run_one(total: u64, text: &str) -> (Res, Vec<(String, String)>) {
    let mut viol: Vec<(String, String)> = Vec::new();
    let mark = alloc_mark();
    let parsed = guarded(|| Cuesheet::parse(total, text));
    let peak = alloc_peak_since(mark);
    if peak > ALLOC_BOUND {
        viol.push(("C12|cue-parse|allocation-unbounded".into(), format!("importing a {}-byte text allocated {} bytes", text.len(), peak)));
    }
    let sheet = match parsed {
        Err(p) => {
            viol.push((format!("C12|cue-parse|panic@{}", panic_loc(&p)), format!("Cuesheet::parse(total_samples = {total}) panics: {p}")));
            return (Res::Panic(p), viol);
        }
        Ok(Err(e)) => return (Res::Err(format!("{e:?}")), viol),
        Ok(Ok(c)) => c,
    };
    let c = &sheet;
    let mark = alloc_mark();
    let mut acc = |name: &str, r: Result<(), String>| {
        if let Err(p) = r {
            viol.push((format!("C12|cue-accessor|{name}|panic@{}", panic_loc(&p)), format!("{name} on the sheet imported with total_samples = {total} panics: {p}")));
        }
    };
    acc("tracks", guarded(|| c.tracks().for_each(|t| drop(std::hint::black_box(t)))));
    acc("track_sample_ranges", guarded(|| c.track_sample_ranges().for_each(|t| drop(std::hint::black_box(t)))));
    for (ch, bps) in [(1u8, 8u32), (2, 16), (8, 32)] {
        acc(&format!("track_byte_ranges({ch},{bps})"), guarded(|| c.track_byte_ranges(ch, bps).for_each(|t| drop(std::hint::black_box(t)))));
    }
    acc("display", guarded(|| drop(std::hint::black_box(c.display("x.flac").to_string()))));
    acc("catalog_number", guarded(|| drop(std::hint::black_box(c.catalog_number().to_string()))));
    acc("track_count", guarded(|| { std::hint::black_box(c.track_count()); }));
    acc("lead_in_samples", guarded(|| { std::hint::black_box(c.lead_in_samples()); }));
    acc("is_cdda", guarded(|| { std::hint::black_box(c.is_cdda()); }));
    let peak = alloc_peak_since(mark);
    if peak > ALLOC_BOUND {
        viol.push(("C12|cue-accessor|allocation-unbounded".into(), format!("accessors of a sheet imported from a {}-byte text allocated {} bytes", text.len(), peak)));
    }
    (Res::Ok, viol)
}

fn case_json(total: u64, text: &str) -> Value {
    json!({"kind": "cue-text", "total_samples": total.to_string(), "text": text})
}

struct Walk<'a> {
    alpha: &'a [String],
    depth: usize,
    total: u64,
    acc: &'a mut Acc,
    cdda: bool,
}

impl Walk<'_> {
    fn text(&self, seq: &[usize]) -> String {
        let mut s = String::new();
        for (k, &i) in seq.iter().enumerate() {
            if k > 0 {
                s.push('\n');
            }
            s.push_str(&self.alpha[i]);
        }
        s
    }
    /// number of proper extensions of a sequence of length `len` within the depth bound
    fn subtree(&self, len: usize) -> u64 {
        let a = self.alpha.len() as u64;
        let mut n = 0u64;
        let mut p = 1u64;
        for _ in len..self.depth {
            p = p.saturating_mul(a);
            n = n.saturating_add(p);
        }
        n
    }
    /// execute one sequence, record everything, return its parse result
    fn exec(&mut self, seq: &[usize]) -> Res {
        CASE_CLOCK.fetch_add(1, Ordering::Relaxed);
        let text = self.text(seq);
        let (res, viol) = run_one(self.total, &text);
        self.acc.states += 1;
        self.acc.executions += 1;
        self.acc.transitions += seq.len() as u64 + if res == Res::Ok { 10 } else { 0 };
        self.acc.outcome(format!("cue:{}:{}", if self.cdda { "cdda" } else { "noncdda" }, res.class()));
        for (sig, what) in viol {
            self.acc.violation(sig, format!("{what}; text {text:?}"), case_json(self.total, &text));
        }
        if self.acc.states % 200_000 == 1 {
            self.acc.sample(case_json(self.total, &text));
        }
        res
    }
    /// Did the importer stop (error or panic) before the end of `seq`'s last line?  See PRUNING in the header.
    fn dead(&mut self, seq: &[usize], res: &Res) -> bool {
        match res {
            Res::Ok => false,
            Res::Err(e) if e == SENTINEL_ERR => true,
            _ => {
                let mut text = self.text(seq);
                text.push('\n');
                text.push_str(SENTINEL);
                self.acc.dim("cue_sentinel_probes", 1);
                let probe = match guarded(|| Cuesheet::parse(self.total, &text)) {
                    Err(p) => Res::Panic(p),
                    Ok(Err(e)) => Res::Err(format!("{e:?}")),
                    Ok(Ok(_)) => Res::Ok,
                };
                if probe == Res::Err(SENTINEL_ERR.into()) {
                    return false; // the loop got through every line of `seq`: its result came from the end-of-text code
                }
                if &probe != res {
                    self.acc.violation(
                        "C12|cue-parse|prune-audit-mismatch",
                        format!("text {:?} returns {res:?}, with the sentinel line appended it returns {probe:?}: neither the sentinel's error nor the same result", self.text(seq)),
                        json!({"kind": "cue-prune-audit", "total_samples": self.total.to_string(), "prefix": self.text(seq), "text": text, "sentinel": true}),
                    );
                    return false;
                }
                true
            }
        }
    }
    /// explore all proper extensions of `seq`, whose own result is `res`
    fn below(&mut self, seq: &mut Vec<usize>, res: &Res) {
        if seq.len() >= self.depth {
            return;
        }
        if self.dead(seq, res) {
            self.pruned(seq, res);
            return;
        }
        for i in 0..self.alpha.len() {
            seq.push(i);
            let r = self.exec(seq);
            self.below(seq, &r);
            seq.pop();
        }
    }
    /// `seq` failed inside the line loop: its extensions are covered; audit the claim on short sequences
    fn pruned(&mut self, seq: &mut Vec<usize>, res: &Res) {
        if seq.len() >= AUDIT_LEN.min(self.depth) {
            let n = self.subtree(seq.len());
            self.acc.dim("cue_sequences_covered_by_prefix", n);
            return;
        }
        for i in 0..self.alpha.len() {
            seq.push(i);
            let r = self.exec(seq);
            self.acc.dim("cue_prune_audit_executions", 1);
            if &r != res {
                let text = self.text(seq);
                let prefix = self.text(&seq[..seq.len() - 1]);
                self.acc.violation(
                    "C12|cue-parse|prune-audit-mismatch",
                    format!("prefix {prefix:?} returns {res:?} but the extended text {text:?} returns {r:?}: the early-exit argument behind the pruning does not hold"),
                    json!({"kind": "cue-prune-audit", "total_samples": self.total.to_string(), "prefix": prefix, "text": text}),
                );
            }
            self.pruned(seq, res);
            seq.pop();
        }
    }
}

fn msf(sector: u64) -> String {
    format!("{:02}:{:02}:{:02}", sector / 4500, (sector / 75) % 60, sector % 75)
}

/// TRACK 01 + n consecutive INDEX lines starting at number `first`
fn chain_text(n: usize, first: usize, cdda_form: bool) -> String {
    let mut s = String::from("TRACK 01 AUDIO");
    for k in 0..n {
        let num = first + k;
        if cdda_form {
            s.push_str(&format!("\nINDEX {:02} {}", num, msf(k as u64 * 7)));
        } else {
            s.push_str(&format!("\nINDEX {:02} {}", num, k * 10));
        }
    }
    s
}

pub fn run(ctx: &Ctx, acc: &mut Acc) {
    let alpha = alphabet();
    let depth = if ctx.quick { 5 } else { 6 };
    acc.notes.push(format!("cue-text: {} line templates, depth {}, {} total_samples values, profile {}", alpha.len(), depth, TOTALS.len(), ctx.profile));
    for &total in &TOTALS {
        let cdda = total % 588 == 0;
        // length 0 and 1: one case each
        if ctx.mine() {
            let mut w = Walk { alpha: &alpha, depth, total, acc, cdda };
            w.exec(&[]);
        }
        for i in 0..alpha.len() {
            if ctx.mine() {
                let mut w = Walk { alpha: &alpha, depth, total, acc, cdda };
                w.exec(&[i]);
            }
        }
        // every (line1, line2) is a shard unit: its owner explores the subtree
        for i in 0..alpha.len() {
            for j in 0..alpha.len() {
                if !ctx.mine() {
                    continue;
                }
                let mut w = Walk { alpha: &alpha, depth, total, acc, cdda };
                // the length-1 prefix is a case of its own (above); here it is only re-evaluated to learn whether the
                // importer already stopped in it
                let (r1, _) = run_one(total, &alpha[i]);
                let mut seq = vec![i];
                if w.dead(&seq, &r1) {
                    seq.push(j);
                    let r2 = w.exec(&seq);
                    w.acc.dim("cue_prune_audit_executions", 1);
                    if r2 != r1 {
                        let text = w.text(&seq);
                        w.acc.violation(
                            "C12|cue-parse|prune-audit-mismatch",
                            format!("prefix {:?} returns {r1:?} but the extended text {text:?} returns {r2:?}: the early-exit argument behind the pruning does not hold", alpha[i]),
                            json!({"kind": "cue-prune-audit", "total_samples": total.to_string(), "prefix": alpha[i], "text": text}),
                        );
                    }
                    w.pruned(&mut seq, &r1);
                } else {
                    seq.push(j);
                    let r2 = w.exec(&seq);
                    w.below(&mut seq, &r2);
                }
            }
        }
    }
    // ---- chains
    let extra = ["INDEX 00 99999999", "INDEX 256 99999999", "INDEX 00 99:00:00", "INDEX 100 99:00:00"];
    for &total in &TOTALS {
        for cdda_form in [true, false] {
            for first in [0usize, 1] {
                for n in [99usize, 100, 101, 254, 255, 256] {
                    let base = chain_text(n, first, cdda_form);
                    let exts: Vec<Option<&str>> = std::iter::once(None).chain(alpha.iter().map(|s| Some(s.as_str()))).chain(extra.iter().map(|s| Some(*s))).collect();
                    for ext in exts {
                        if !ctx.mine() {
                            continue;
                        }
                        CASE_CLOCK.fetch_add(1, Ordering::Relaxed);
                        let text = match ext {
                            None => base.clone(),
                            Some(e) => format!("{base}\n{e}"),
                        };
                        let (res, viol) = run_one(total, &text);
                        acc.states += 1;
                        acc.executions += 1;
                        acc.transitions += n as u64 + 2;
                        acc.outcome(format!("cue-chain:{}:{}", if total % 588 == 0 { "cdda" } else { "noncdda" }, res.class()));
                        for (sig, what) in viol {
                            let shown: String = if text.len() > 200 { format!("{} … {}", &text[..80], &text[text.len() - 100..]) } else { text.clone() };
                            acc.violation(sig, format!("{what}; text (TRACK 01 + {n} INDEX lines from {first:02}{}) {shown:?}", if ext.is_some() { " + 1 line" } else { "" }), case_json(total, &text));
                        }
                    }
                }
            }
        }
    }
}

pub fn replay(v: &Value) -> Option<(bool, String)> {
    match v["kind"].as_str()? {
        "cue-text" => {
            let total: u64 = v["total_samples"].as_str()?.parse().ok()?;
            let (res, viol) = run_one(total, v["text"].as_str()?);
            // when the replay file names the signature, that very signature must reproduce
            let still = match v["signature"].as_str() {
                Some(sig) => viol.iter().any(|(s, _)| s == sig),
                None => !viol.is_empty(),
            };
            Some((still, format!("parse: {}; violations: {:?}", res.class(), viol)))
        }
        "cue-prune-audit" => {
            let total: u64 = v["total_samples"].as_str()?.parse().ok()?;
            let (a, _) = run_one(total, v["prefix"].as_str()?);
            let (b, _) = run_one(total, v["text"].as_str()?);
            Some((a != b, format!("prefix: {a:?}; extended: {b:?}")))
        }
        _ => None,
    }
}
