//! C04 — decoding arbitrary bytes never panics, hangs or allocates without bound (both build profiles).
//! Shape G; three completely enumerated spaces: (a) fgen vectors over the malformed menus with valid checksums,
//! (b) every single-byte substitution (with and without checksum repair) and every truncation of every corpus
//! file, (c) every short byte string after a set of prefixes. Oracle: totality of every decoding entry point.
use crate::core::{alloc_mark, alloc_peak_since, for_each_deviation, guarded, hex, unhex, Acc, Ctx};
use crate::corpus::{damage_corpus, TestFile};
use crate::gspace::{bad_knobs, make_spec, menus};
use crate::readers::ChunkedSource;
use flac_codec::byteorder::LittleEndian;
use flac_codec::decode::{verify_reader, FlacByteReader, FlacChannelReader, FlacSampleReader, FlacStreamReader};
use flac_codec::encode::{generate_seektable, SeekTableInterval};
use flac_codec::metadata::BlockList;
use flac_codec::stream::{Frame, FrameIterator};
use serde_json::{json, Value};
use std::io::{Read, Seek, SeekFrom};
use vph::fgen;
use vph::refdec;

pub const RULE: &str = "(a) every fgen stream with one or two malformations from the malformed menu (illegal/reserved header and subframe codes, illegal partition orders, forced residuals, inconsistent STREAMINFO, …; all checksums valid) applied to frame 0 / the last frame of the plain stream and of every stream within 1 valid deviation; (b) for each damage-corpus file EVERY single-byte substitution (255 values × every position, metadata included) both raw and with CRC-8/CRC-16 of the affected frame recomputed, EVERY truncation, and each of 4 multi-byte UTF-8 sequences written over every metadata position; thorough adds every 2-bit flip inside frame and subframe headers and every (truncation, substitution-in-the-last-16-bytes) pair; (c) EVERY byte string of length ≤2 (thorough ≤3) appended to each of {nothing, 'fLaC', 'fLaC'+valid STREAMINFO(last), 'fLaC'+STREAMINFO+frame sync, a valid header prefix}; each input is pushed through every decoding entry point: 3 readers (open + drain), their seekable variants + seek to {0,1,mid,last,end,end+1} + read, verify_reader, FlacStreamReader::read until error, FrameIterator, Frame::read / read_subset at every frame offset, generate_seektable, BlockList::read; oracle: returns, no panic in opt and chk, peak allocation ≤ 48 MiB + 16×len, ≤ 10^6 reads past end of data";
pub const ASSUMPTIONS: &[&str] = &["'all byte strings' is cut down to the three enumerated spaces; coverage-guided raw fuzzing (sampling) is not used", "allocation bound constant covers the largest legitimate buffers (65535×8×4 B frame, byte queue, 33-bit side vector, 932067-point seek table)"];
pub fn bounds(quick: bool) -> Value {
    json!({"malformations": if quick { "singles and pairs × ≤1 valid deviation" } else { "singles and pairs × ≤1 valid deviation (+2-deviation bases for singles)" }, "corpus": crate::corpus::damage_corpus(false).len(), "raw_strings": if quick { "≤2 bytes" } else { "≤3 bytes" }})
}

const ALLOC_BASE: usize = 48 << 20;

/// Run every decoding entry point on `bytes`; first failure as (clause, detail).
pub fn exercise(bytes: &[u8], first_frame_hint: usize) -> Option<(String, String)> {
    let mark = alloc_mark();
    let mut fail: Option<(String, String)> = None;
    let mut ep = |name: &str, f: &mut dyn FnMut()| {
        if fail.is_some() {
            return;
        }
        if let Err(p) = guarded(|| f()) {
            fail = Some((format!("{name}|panic@{}", crate::core::panic_loc(&p)), format!("{name}: panic: {p}")));
        }
    };
    let src = || ChunkedSource::new(bytes, vec![], 0);
    ep("sample-reader", &mut || {
        if let Ok(mut r) = FlacSampleReader::new(src()) {
            let mut n = 0u64;
            loop {
                match r.fill_buf() {
                    Ok([]) | Err(_) => break,
                    Ok(b) => {
                        let k = b.len();
                        n += k as u64;
                        r.consume(k);
                    }
                }
                if n > 1 << 28 {
                    panic!("decoder produced more than 2^28 samples from a tiny input");
                }
            }
        }
    });
    ep("byte-reader", &mut || {
        if let Ok(mut r) = FlacByteReader::endian(src(), LittleEndian) {
            let mut buf = [0u8; 4096];
            let mut n = 0u64;
            while let Ok(k) = r.read(&mut buf) {
                if k == 0 {
                    break;
                }
                n += k as u64;
                if n > 1 << 30 {
                    panic!("decoder produced more than 2^30 bytes from a tiny input");
                }
            }
        }
    });
    ep("channel-reader", &mut || {
        if let Ok(mut r) = FlacChannelReader::new(src()) {
            let mut n = 0u64;
            loop {
                let k = match r.fill_buf() {
                    Ok(b) => b.first().map(|c| c.len()).unwrap_or(0),
                    Err(_) => break,
                };
                if k == 0 {
                    break;
                }
                r.consume(k);
                n += k as u64;
                if n > 1 << 28 {
                    panic!("decoder produced more than 2^28 PCM frames from a tiny input");
                }
            }
        }
    });
    ep("sample-iterator", &mut || {
        if let Ok(r) = FlacSampleReader::new(src()) {
            let mut n = 0u64;
            for s in r {
                if s.is_err() {
                    break;
                }
                n += 1;
                if n > 1 << 28 {
                    panic!("iterator produced more than 2^28 samples");
                }
            }
        }
    });
    // seekable variants: corrupt seek tables reach the seek path
    ep("seekable-sample-reader", &mut || {
        if let Ok(mut r) = FlacSampleReader::new_seekable(src()) {
            use flac_codec::metadata::Metadata;
            let total = r.total_samples().unwrap_or(40);
            for t in [0, 1, total / 2, total.saturating_sub(1), total, total.saturating_add(1), u64::MAX] {
                if r.seek(t).is_ok() {
                    let mut b = [0i32; 40];
                    let _ = r.read(&mut b);
                }
            }
        }
    });
    ep("seekable-byte-reader", &mut || {
        if let Ok(mut r) = FlacByteReader::endian(src(), LittleEndian).and_then(|_| FlacByteReader::<_, LittleEndian>::new_seekable(src())) {
            for p in [SeekFrom::Start(0), SeekFrom::Start(1), SeekFrom::Start(77), SeekFrom::End(0), SeekFrom::End(-1), SeekFrom::Current(-3), SeekFrom::Current(1 << 40), SeekFrom::Start(u64::MAX), SeekFrom::End(i64::MIN), SeekFrom::Current(i64::MIN)] {
                if r.seek(p).is_ok() {
                    let mut b = [0u8; 64];
                    let _ = r.read(&mut b);
                }
            }
        }
    });
    ep("seekable-channel-reader", &mut || {
        if let Ok(mut r) = FlacChannelReader::new_seekable(src()) {
            for t in [0u64, 1, 17, 36, 37, 38, u64::MAX] {
                if r.seek(t).is_ok() {
                    let k = r.fill_buf().map(|b| b.first().map(|c| c.len()).unwrap_or(0)).unwrap_or(0);
                    r.consume(k.min(3));
                }
            }
        }
    });
    ep("verify_reader", &mut || {
        let _ = verify_reader(src());
    });
    ep("frame-iterator", &mut || {
        if let Ok(it) = FrameIterator::new(src()) {
            for (i, f) in it.enumerate() {
                match f {
                    Ok((frame, _)) => {
                        for s in &frame.subframes {
                            match s {
                                flac_codec::stream::SubframeWidth::Common(s) => {
                                    let _ = s.decode().count();
                                }
                                flac_codec::stream::SubframeWidth::Wide(s) => {
                                    let _ = s.decode().count();
                                }
                            }
                        }
                        let mut out = Vec::new();
                        let _ = frame.write_subset(&mut out);
                    }
                    Err(_) => break,
                }
                if i > 100_000 {
                    panic!("frame iterator does not terminate");
                }
            }
        }
    });
    ep("generate_seektable", &mut || {
        let _ = generate_seektable(src(), SeekTableInterval::Frames(std::num::NonZero::new(1).unwrap()));
        let _ = generate_seektable(src(), SeekTableInterval::Seconds(std::num::NonZero::new(1).unwrap()));
    });
    ep("blocklist-read", &mut || {
        let _ = BlockList::read(src());
    });
    // frame-level entry points on the audio region
    let ff = first_frame_hint.min(bytes.len());
    ep("stream-reader", &mut || {
        let mut r = FlacStreamReader::new(std::io::BufReader::with_capacity(7, ChunkedSource::new(&bytes[ff..], vec![], 0)));
        let mut n = 0;
        loop {
            match r.read() {
                Ok(_) => {}
                Err(flac_codec::Error::Io(e)) if e.kind() == std::io::ErrorKind::UnexpectedEof => break,
                Err(_) => {}
            }
            n += 1;
            if n > bytes.len() + 8 {
                break;
            }
        }
    });
    ep("frame-read", &mut || {
        if let Ok(info) = flac_codec::metadata::read_info(src()) {
            for off in [ff, ff + 1, ff.saturating_sub(1)] {
                if off <= bytes.len() {
                    let _ = Frame::read(&mut ChunkedSource::new(&bytes[off..], vec![], 0), &info);
                }
            }
        }
        let _ = Frame::read_subset(&mut ChunkedSource::new(&bytes[ff..], vec![], 0));
    });
    if fail.is_none() {
        let peak = alloc_peak_since(mark);
        if peak > ALLOC_BASE + 16 * bytes.len() {
            fail = Some(("allocation-bound".into(), format!("peak allocation {} MiB for a {}-byte input", peak >> 20, bytes.len())));
        }
    }
    fail
}

fn record(acc: &mut Acc, ctx: &Ctx, class: &str, bytes: &[u8], ff: usize, origin: Value) {
    acc.states += 1;
    acc.executions += 1;
    acc.transitions += 13;
    match exercise(bytes, ff) {
        None => acc.outcome(format!("{class}:total")),
        Some((clause, detail)) => {
            acc.outcome(format!("{class}:FAIL"));
            acc.violation(format!("C04|{clause}"), format!("{detail} [{origin}] ({} profile)", ctx.profile), json!({"kind":"bytes","bytes":hex(bytes),"first_frame":ff,"origin":origin}));
        }
    }
}

/// recompute CRC-8 / CRC-16 of the frame containing `pos` using the ORIGINAL frame layout
fn repair(a: &mut [u8], f: &TestFile, pos: usize, hdr_lens: &[usize]) {
    if let Some(i) = f.frames.iter().position(|(o, l, _, _)| pos >= *o && pos < o + l) {
        let (o, l, _, _) = f.frames[i];
        let h = hdr_lens[i];
        if pos < o + h - 1 {
            a[o + h - 1] = refdec::crc8(&a[o..o + h - 1]);
        }
        if pos < o + l - 2 {
            let c = refdec::crc16(&a[o..o + l - 2]);
            a[o + l - 2] = (c >> 8) as u8;
            a[o + l - 1] = c as u8;
        }
    }
}

pub fn run(ctx: &Ctx, acc: &mut Acc) {
    // ---- (a) malformed grammar vectors with valid checksums
    let m = menus();
    let knobs = bad_knobs();
    for_each_deviation(&m, 1, |k| {
        let base = match make_spec(k) {
            Ok(s) => s,
            Err(_) => return,
        };
        let last = base.frames.len() - 1;
        let mut apply_and_run = |acc: &mut Acc, idx: &[(usize, usize)]| {
            let mut spec = base.clone();
            for &(ki, fi) in idx {
                (knobs[ki].apply)(&mut spec, fi);
            }
            if let Ok(b) = fgen::build(&spec) {
                let names: Vec<&str> = idx.iter().map(|(ki, _)| knobs[*ki].name).collect();
                record(acc, ctx, "malformed", &b.bytes, b.first_frame_offset, json!({"vector":k,"malformations":names,"frames":idx.iter().map(|x| x.1).collect::<Vec<_>>()}));
            } else {
                acc.dim("unbuildable", 1);
            }
        };
        for a in 0..knobs.len() {
            for fa in [0, last] {
                if ctx.mine() {
                    apply_and_run(acc, &[(a, fa)]);
                }
                // pairs of malformations only on the plain stream and its single deviations of the first 3 axes (cost)
                if k.iter().skip(3).all(|v| *v == 0) {
                    for b in a + 1..knobs.len() {
                        if ctx.mine() {
                            apply_and_run(acc, &[(a, fa), (b, last)]);
                        }
                    }
                }
            }
        }
    });
    // ---- (b) byte substitutions / truncations of corpus files
    for f in damage_corpus(ctx.quick) {
        let hdr_lens: Vec<usize> = {
            let st = refdec::decode(&f.bytes).expect("corpus");
            st.frames.iter().map(|x| x.header_len).collect()
        };
        for pos in 0..f.bytes.len() {
            for v in 0..=255u8 {
                if v == f.bytes[pos] {
                    continue;
                }
                for rep in [false, true] {
                    if rep && pos < f.first_frame {
                        continue;
                    }
                    if !ctx.mine() {
                        continue;
                    }
                    let mut a = f.bytes.clone();
                    a[pos] = v;
                    if rep {
                        repair(&mut a, &f, pos, &hdr_lens);
                    }
                    record(acc, ctx, if rep { "subst-repaired" } else { "subst-raw" }, &a, f.first_frame, json!({"file":f.desc,"pos":pos,"value":v,"repaired":rep}));
                }
            }
        }
        // multi-byte UTF-8 sequences written over every position of the metadata (text fields — vendor and comment strings,
        // MIME type, description, catalogue number, ISRC — are validated and then sliced: a character straddling a slice
        // point cannot be produced by any single-byte substitution, which only yields invalid UTF-8)
        for pos in 4..f.first_frame {
            for seq in [&[0xC3u8, 0xA9][..], &[0xE2, 0x82, 0xAC], &[0xF0, 0x9F, 0x98, 0x80], &[0x41, 0xC3, 0xA9]] {
                if pos + seq.len() > f.first_frame || !ctx.mine() {
                    continue;
                }
                let mut a = f.bytes.clone();
                a[pos..pos + seq.len()].copy_from_slice(seq);
                record(acc, ctx, "utf8-overwrite", &a, f.first_frame, json!({"file":f.desc,"pos":pos,"utf8":seq}));
            }
        }
        for len in 0..f.bytes.len() {
            if ctx.mine() {
                record(acc, ctx, "truncated", &f.bytes[..len], f.first_frame.min(len), json!({"file":f.desc,"cut":len}));
            }
            if ctx.thorough() {
                // (truncation, substitution near the new end) pairs
                for back in 1..=16usize.min(len) {
                    for v in [0u8, 0xFF, 0x80, 0x01] {
                        if !ctx.mine() {
                            continue;
                        }
                        let mut a = f.bytes[..len].to_vec();
                        if a[len - back] == v {
                            continue;
                        }
                        a[len - back] = v;
                        record(acc, ctx, "truncated+subst", &a, f.first_frame.min(len), json!({"file":f.desc,"cut":len,"back":back,"value":v}));
                    }
                }
            }
        }
        if ctx.thorough() {
            // every 2-bit flip inside each frame's header and first subframe header bytes, checksum-repaired
            for (i, (o, _l, _, _)) in f.frames.iter().enumerate() {
                let span = (hdr_lens[i] + 3) * 8;
                for b1 in 0..span {
                    for b2 in b1 + 1..span {
                        if !ctx.mine() {
                            continue;
                        }
                        let mut a = f.bytes.clone();
                        a[o + b1 / 8] ^= 0x80 >> (b1 % 8);
                        a[o + b2 / 8] ^= 0x80 >> (b2 % 8);
                        repair(&mut a, &f, o + b1 / 8, &hdr_lens);
                        record(acc, ctx, "2bit-header-repaired", &a, f.first_frame, json!({"file":f.desc,"frame":i,"bits":[b1,b2]}));
                    }
                }
            }
        }
    }
    // ---- (c) all short byte strings after each prefix
    let si: Vec<u8> = {
        let f = &damage_corpus(true)[1];
        f.bytes[..4 + 4 + 34].to_vec()
    };
    let mut si_last = si.clone();
    si_last[4] |= 0x80;
    let mut with_sync = si_last.clone();
    with_sync.extend([0xFF, 0xF8]);
    let mut hdr = si_last.clone();
    hdr.extend([0xFF, 0xF8, 0x69, 0x08, 0x00]); // sync, bs code 6 (8-bit), rate 44.1k, mono, 16-bit, number 0
    let prefixes: Vec<(&str, Vec<u8>)> = vec![("empty", vec![]), ("magic", b"fLaC".to_vec()), ("magic+streaminfo", si_last.clone()), ("magic+streaminfo(not last)", si), ("…+sync", with_sync), ("…+header-prefix", hdr)];
    let maxl = if ctx.quick { 2 } else { 3 };
    for (pname, p) in &prefixes {
        for l in 0..=maxl {
            let n = 256usize.pow(l as u32);
            for x in 0..n {
                if !ctx.mine() {
                    continue;
                }
                let mut a = p.clone();
                for j in (0..l).rev() {
                    a.push(((x >> (8 * j)) & 0xFF) as u8);
                }
                record(acc, ctx, "raw-suffix", &a, p.len().min(42), json!({"prefix":pname,"suffix_len":l,"suffix":x}));
            }
        }
    }
    acc.sample(json!({"kind":"bytes","origin":{"file":"enc-ch1-bps16-seek0","pos":60,"value":255,"repaired":true}}));
}

pub fn replay(v: &Value) -> Option<(bool, String)> {
    if v["kind"] != "bytes" {
        return None;
    }
    let bytes = unhex(v["bytes"].as_str()?);
    let r = exercise(&bytes, v["first_frame"].as_u64()? as usize);
    Some((r.is_some(), format!("{r:?}")))
}
