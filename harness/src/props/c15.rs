//! C15 — constructors validate, documented values work, the declared-length contract holds.
//! Shape G (full parameter grids, both profiles) + H (under/exact/over-fill write histories).
use crate::codec::{bytes_per_sample, decode, encode, err_class, pcm_bytes, Opt, ReaderKind, Sig, WriterKind, WRITERS};
use crate::core::{guarded, Acc, Ctx};
use crate::corpus::ident_pcm;
use flac_codec::byteorder::LittleEndian;
use flac_codec::encode::{FlacByteWriter, FlacChannelWriter, FlacSampleWriter, FlacStreamWriter, Options};
use serde_json::{json, Value};
use std::io::{Cursor, Write};
use vph::refdec;

pub const RULE: &str = "(1) full product grid depth {0,1..32,33,u32::MAX} × channels {0,1..8,9,255} × rate {0,1,8000,44100,65535,655350,2^20-1,2^20,u32::MAX} × total {none,0,1,ch-1,ch,ch·w,2^36-1,2^36,u64::MAX…} for the byte, sample and channel writer constructors; (2) every Options setter over boundary values; (3) FlacStreamWriter::write parameter grid; (4) every documented value alone and every pair of documented values across axes (depth 1..32, channels 1..8, rates, LPC order none/1..32, partition order 0..15, block sizes) encodes a short signal that the independent decoder decodes back; (5) declared-length contract: for D ∈ {1,16,17,40} PCM frames, supply ∈ {D−1, D, D+1, 2D}, every ≤2-cut write history (thorough: 4 formats, D ∈ {1,2,15,16,17,32,33,40}, ≤3 cuts for supplies ≤ 34), three writers, plus undeclared; the exact and undeclared fills again with the stream starting at offset 7 / 300 / 5000 of its sink (3 formats); both build profiles; (6) FlacChannelWriter::write with malformed channel sets (0..9 channels given to 1/2/3/8-channel writers, unequal / empty channel lengths) at each position of a 3-call history: an error or success, never a panic; (7) the new_cdda constructors of the three writers produce the same file / the same error class as new(44100 Hz, 16 bit, 2 channels) for undeclared, exact, short and long declared totals; (8) declared totals at the placeholder-point limit of a SEEKTABLE block (932067 points × block × interval: −1, exact, +1 sample, +1 frame, ×2) for 3 writers: the constructor returns";
pub const ASSUMPTIONS: &[&str] = &["'works' is judged on one fixed signal per parameter vector (signal variety: C01)", "triples of documented values are covered only through C01's option lattice"];
pub fn bounds(quick: bool) -> Value {
    json!({"grid": "full product", "pairs": if quick { "all cross-axis pairs, block sizes {16,17,192,4096}" } else { "all cross-axis pairs, block sizes {16,17,192,4096,65535}" }, "history_cuts": 2})
}

fn ctor(w: WriterKind, rate: u32, bps: u32, ch: u8, total: Option<u64>) -> Result<bool, String> {
    // Huge declared totals make the default options pre-allocate a seek table of up to 932067 points (16 MiB)
    // per constructor call; that path is kept for a representative sub-grid and the rest of the product
    // uses no_seektable() so that the full grid stays affordable.
    let heavy = total.map(|t| t > 1 << 30).unwrap_or(false);
    let keep_default = !heavy || ([1, 16, 32].contains(&bps) && [1, 2, 8].contains(&ch) && [0, 44100].contains(&rate));
    guarded(|| {
        let mut out = Cursor::new(Vec::new());
        let o = if keep_default { Options::default() } else { Options::default().no_seektable() };
        match w {
            WriterKind::Sample => FlacSampleWriter::new(&mut out, o, rate, bps, ch, total).map(|_| ()).is_ok(),
            WriterKind::Channel => FlacChannelWriter::new(&mut out, o, rate, bps, ch, total).map(|_| ()).is_ok(),
            _ => FlacByteWriter::endian(&mut out, LittleEndian, o, rate, bps, ch, total).map(|_| ()).is_ok(),
        }
    })
}

fn grid(ctx: &Ctx, acc: &mut Acc) {
    let depths: Vec<u32> = std::iter::once(0).chain(1..=32).chain([33, 64, u32::MAX]).collect();
    let chans: Vec<u8> = vec![0, 1, 2, 3, 4, 5, 6, 7, 8, 9, 255];
    let rates: Vec<u32> = vec![0, 1, 8000, 44100, 65535, 655350, (1 << 20) - 1, 1 << 20, u32::MAX];
    for w in [WriterKind::Sample, WriterKind::ByteLE, WriterKind::Channel] {
        for &bps in &depths {
            for &ch in &chans {
                for &rate in &rates {
                    let unit: u64 = match w {
                        WriterKind::Sample => ch as u64,
                        WriterKind::Channel => 1,
                        _ => ch as u64 * bps.div_ceil(8) as u64,
                    };
                    let mut totals: Vec<Option<u64>> = vec![None, Some(0), Some(1), Some(unit.saturating_sub(1)), Some(unit), Some(unit * 16), Some((1u64 << 36) - 1), Some(1u64 << 36), Some(((1u64 << 36) - 1).saturating_mul(unit)), Some((1u64 << 36).saturating_mul(unit)), Some(u64::MAX)];
                    totals.dedup();
                    for total in totals {
                        if !ctx.mine() {
                            continue;
                        }
                        acc.states += 1;
                        acc.executions += 1;
                        acc.transitions += 1;
                        let documented = (1..=32).contains(&bps) && (1..=8).contains(&ch) && rate < (1 << 20);
                        let total_ok = match total {
                            None => true,
                            Some(t) => unit > 0 && t > 0 && t % unit == 0 && t / unit < (1u64 << 36),
                        };
                        let case = json!({"kind":"ctor","writer":format!("{w:?}"),"rate":rate,"bps":bps,"ch":ch,"total":total});
                        match ctor(w, rate, bps, ch, total) {
                            Err(p) => {
                                acc.outcome(format!("ctor:{w:?}:panic"));
                                acc.violation(format!("C15|ctor|{w:?}|panic@{}", crate::core::panic_loc(&p)), format!("{w:?}::new(rate {rate}, bps {bps}, ch {ch}, total {total:?}) panics: {p}"), case);
                            }
                            Ok(ok) => {
                                acc.outcome(format!("ctor:{w:?}:{}:{}", if documented && total_ok { "documented" } else { "undocumented" }, if ok { "Ok" } else { "Err" }));
                                if documented && total_ok && !ok {
                                    acc.violation(format!("C15|ctor|{w:?}|documented-value-refused"), format!("{w:?}::new(rate {rate}, bps {bps}, ch {ch}, total {total:?}) is refused although every argument is a documented value"), case.clone());
                                }
                                if ok && !(1..=32).contains(&bps) || ok && !(1..=8).contains(&ch) || ok && rate >= (1 << 20) {
                                    acc.violation(format!("C15|ctor|{w:?}|invalid-value-accepted"), format!("{w:?}::new(rate {rate}, bps {bps}, ch {ch}, total {total:?}) is accepted"), case);
                                }
                            }
                        }
                    }
                }
            }
        }
    }
}

fn setters(ctx: &Ctx, acc: &mut Acc) {
    let mut t = |acc: &mut Acc, name: &str, val: String, want_ok: Option<bool>, r: Result<bool, String>| {
        acc.states += 1;
        acc.executions += 1;
        acc.transitions += 1;
        let case = json!({"kind":"setter","name":name,"value":val});
        match r {
            Err(p) => acc.violation(format!("C15|setter|{name}|panic@{}", crate::core::panic_loc(&p)), format!("Options::{name}({val}) panics: {p}"), case),
            Ok(ok) => {
                acc.outcome(format!("setter:{name}:{}", if ok { "Ok" } else { "Err" }));
                if let Some(w) = want_ok {
                    if w != ok {
                        acc.violation(format!("C15|setter|{name}|{}", if w { "documented-value-refused" } else { "invalid-value-accepted" }), format!("Options::{name}({val}) returned {}", if ok { "Ok" } else { "Err" }), case);
                    }
                }
            }
        }
    };
    if ctx.shard != 0 {
        return;
    }
    for v in [0u16, 1, 15, 16, 17, 4096, 65535] {
        t(acc, "block_size", v.to_string(), Some(v >= 16), guarded(|| Options::default().block_size(v).is_ok()));
    }
    for v in [None, Some(0u8), Some(1), Some(8), Some(32), Some(33), Some(255)] {
        let want = match v { None => true, Some(x) => (1..=32).contains(&x) };
        t(acc, "max_lpc_order", format!("{v:?}"), Some(want), guarded(|| Options::default().max_lpc_order(v).is_ok()));
    }
    for v in [0u32, 1, 15, 16, u32::MAX] {
        t(acc, "max_partition_order", v.to_string(), Some(v <= 15), guarded(|| Options::default().max_partition_order(v).is_ok()));
    }
    for v in [0u32, 1, 4096, (1 << 24) - 1, 1 << 24, u32::MAX] {
        t(acc, "padding", v.to_string(), Some(v < (1 << 24)), guarded(|| Options::default().padding(v).is_ok()));
    }
    for v in [0u8, 1, 255] {
        t(acc, "seektable_seconds", v.to_string(), None, guarded(|| { let _ = Options::default().seektable_seconds(v); true }));
    }
    for v in [0usize, 1, usize::MAX] {
        t(acc, "seektable_frames", v.to_string(), None, guarded(|| { let _ = Options::default().seektable_frames(v); true }));
    }
}

fn test_signal(sig: &Sig, frames: usize) -> Vec<i32> {
    let (mn, mx) = (crate::encspace::smin(sig.bps) as i64, crate::encspace::smax(sig.bps) as i64);
    let amp = (mx as f64) * 0.8;
    (0..frames * sig.ch as usize)
        .map(|k| {
            let (i, c) = (k / sig.ch as usize, k % sig.ch as usize);
            let v = ((i as f64 * 0.21 + c as f64).sin() * amp) as i64 + ((i * 7 + c) % 3) as i64 - 1;
            v.clamp(mn, mx) as i32
        })
        .collect()
}

/// encode with the crate, decode with the independent decoder
fn works(w: WriterKind, opt: &Opt, sig: &Sig, pcm: &[i32]) -> Result<(), String> {
    let bytes = encode(w, opt, sig, pcm)?;
    match guarded(|| refdec::decode(&bytes)) {
        Ok(Ok(st)) => {
            if st.pcm != pcm {
                return Err("err:independent-decoder-pcm-mismatch".into());
            }
            if st.info.rate != sig.rate || st.info.bps as u32 != sig.bps || st.info.channels != sig.ch {
                return Err("err:streaminfo-parameters-differ".into());
            }
            Ok(())
        }
        Ok(Err(r)) => Err(format!("err:independent-decoder-rejects:{}", r.code)),
        Err(p) => Err(format!("machinery:refdec panic {p}")),
    }
}

fn documented(ctx: &Ctx, acc: &mut Acc) {
    #[derive(Clone, Copy, Debug, PartialEq)]
    enum Ax {
        Depth(u32),
        Chan(u8),
        Rate(u32),
        Lpc(Option<u8>),
        Part(u32),
        Block(u16),
    }
    let mut axes: Vec<Vec<Ax>> = Vec::new();
    axes.push((1..=32).map(Ax::Depth).collect());
    axes.push((1..=8).map(Ax::Chan).collect());
    axes.push([0u32, 1, 7999, 8000, 22050, 44100, 96000, 192000, 255000, 65535, 655350, 1000001, (1 << 20) - 1].into_iter().map(Ax::Rate).collect());
    axes.push(std::iter::once(None).chain((1..=32).map(Some)).map(Ax::Lpc).collect());
    axes.push((0..=15).map(Ax::Part).collect());
    let blocks: &[u16] = if ctx.quick { &[16, 17, 192, 4096] } else { &[16, 17, 192, 4096, 65535] };
    axes.push(blocks.iter().map(|b| Ax::Block(*b)).collect());
    let apply = |vals: &[Ax]| -> (Opt, Sig) {
        let mut opt = Opt { block: 64, ..Opt::base16() };
        let mut sig = Sig { rate: 44100, bps: 16, ch: 1 };
        for v in vals {
            match *v {
                Ax::Depth(d) => sig.bps = d,
                Ax::Chan(c) => sig.ch = c,
                Ax::Rate(r) => sig.rate = r,
                Ax::Lpc(l) => opt.lpc = l,
                Ax::Part(p) => opt.part = p,
                Ax::Block(b) => opt.block = b,
            }
        }
        (opt, sig)
    };
    let mut run = |acc: &mut Acc, vals: &[Ax]| {
        let (opt, sig) = apply(vals);
        let frames = opt.block as usize * 2 + 3;
        let pcm = test_signal(&sig, frames);
        acc.states += 1;
        acc.executions += 1;
        acc.transitions += 2;
        let w = WRITERS[(acc.states % 4) as usize];
        match works(w, &opt, &sig, &pcm) {
            Ok(()) => acc.outcome(format!("documented:{}:ok", vals.len())),
            Err(e) => {
                acc.outcome(format!("documented:{}:{}", vals.len(), err_class(&e)));
                let names: Vec<String> = vals.iter().map(|v| format!("{v:?}").split('(').next().unwrap().to_string()).collect();
                acc.violation(
                    format!("C15|documented|{}|{}", names.join("+"), err_class(&e)),
                    format!("documented values {vals:?} (writer {w:?}): {e}"),
                    json!({"kind":"documented","writer":format!("{w:?}"),"opt":opt.to_json(),"rate":sig.rate,"bps":sig.bps,"ch":sig.ch,"frames":frames}),
                );
            }
        }
    };
    for a in 0..axes.len() {
        for x in &axes[a] {
            if ctx.mine() {
                run(acc, &[*x]);
            }
            for b in a + 1..axes.len() {
                for y in &axes[b] {
                    if ctx.mine() {
                        run(acc, &[*x, *y]);
                    }
                }
            }
        }
    }
}

/// declared-length contract. Returns Ok(file) / Err(where-the-error-came-from)
fn fill(w: WriterKind, sig: &Sig, declared: Option<usize>, pcm: &[i32], cuts: &[usize]) -> Result<Result<Vec<u8>, &'static str>, String> {
    fill_at(w, sig, declared, pcm, cuts, 0)
}

/// `start` > 0: the sink already holds `start` foreign bytes and is positioned behind them (the stream does not begin at
/// offset 0 of its writer); the returned bytes are the stream alone, Err("prefix") if the foreign bytes were touched
fn fill_at(w: WriterKind, sig: &Sig, declared: Option<usize>, pcm: &[i32], cuts: &[usize], start: usize) -> Result<Result<Vec<u8>, &'static str>, String> {
    guarded(|| {
        let mut out = Cursor::new(vec![0x5Au8; start]);
        out.set_position(start as u64);
        let options = Options::default().block_size(16).unwrap();
        let ch = sig.ch as usize;
        let mut pieces = Vec::new();
        let mut p = 0;
        for &c in cuts {
            pieces.push((p, c));
            p = c;
        }
        pieces.push((p, pcm.len() / ch));
        match w {
            WriterKind::Sample => {
                let mut wr = match FlacSampleWriter::new(&mut out, options, sig.rate, sig.bps, sig.ch, declared.map(|d| (d * ch) as u64)) {
                    Ok(w) => w,
                    Err(_) => return Err("new"),
                };
                for (a, b) in pieces {
                    if wr.write(&pcm[a * ch..b * ch]).is_err() {
                        return Err("write");
                    }
                }
                if wr.finalize().is_err() {
                    return Err("finalize");
                }
            }
            WriterKind::Channel => {
                let chans = crate::codec::deinterleave(pcm, ch);
                let mut wr = match FlacChannelWriter::new(&mut out, options, sig.rate, sig.bps, sig.ch, declared.map(|d| d as u64)) {
                    Ok(w) => w,
                    Err(_) => return Err("new"),
                };
                for (a, b) in pieces {
                    let part: Vec<&[i32]> = chans.iter().map(|c| &c[a..b]).collect();
                    if wr.write(&part).is_err() {
                        return Err("write");
                    }
                }
                if wr.finalize().is_err() {
                    return Err("finalize");
                }
            }
            _ => {
                let bw = bytes_per_sample(sig.bps) * ch;
                let bytes = pcm_bytes(pcm, sig.bps, false);
                let mut wr = match FlacByteWriter::endian(&mut out, LittleEndian, options, sig.rate, sig.bps, sig.ch, declared.map(|d| (d * bw) as u64)) {
                    Ok(w) => w,
                    Err(_) => return Err("new"),
                };
                for (a, b) in pieces {
                    if wr.write_all(&bytes[a * bw..b * bw]).is_err() {
                        return Err("write");
                    }
                }
                if wr.finalize().is_err() {
                    return Err("finalize");
                }
            }
        }
        let all = out.into_inner();
        if all.len() < start || all[..start].iter().any(|b| *b != 0x5A) {
            return Err("prefix");
        }
        Ok(all[start..].to_vec())
    })
}

fn contract(ctx: &Ctx, acc: &mut Acc) {
    // thorough: 4 formats (incl. a non-byte-multiple depth and 3 channels), more declared lengths, ≤3-cut histories
    let sigs: Vec<Sig> = if ctx.quick { vec![Sig { rate: 44100, bps: 16, ch: 1 }, Sig { rate: 44100, bps: 8, ch: 2 }] } else { vec![Sig { rate: 44100, bps: 16, ch: 1 }, Sig { rate: 44100, bps: 8, ch: 2 }, Sig { rate: 48000, bps: 12, ch: 3 }, Sig { rate: 96000, bps: 32, ch: 2 }] };
    let ds: &[usize] = if ctx.quick { &[1, 16, 17, 40] } else { &[1, 2, 15, 16, 17, 32, 33, 40] };
    for sig in sigs {
        for &d in ds {
            for supply in [d - 1, d, d + 1, 2 * d] {
                for declared in [Some(d), None] {
                    let pcm = ident_pcm(sig.ch, sig.bps, supply);
                    let mut cutsets: Vec<Vec<usize>> = vec![vec![]];
                    for a in 0..=supply {
                        cutsets.push(vec![a]);
                        for b in a..=supply {
                            cutsets.push(vec![a, b]);
                            if !ctx.quick && supply <= 34 {
                                for c in b..=supply {
                                    cutsets.push(vec![a, b, c]);
                                }
                            }
                        }
                    }
                    for cuts in cutsets {
                        for w in [WriterKind::Sample, WriterKind::ByteLE, WriterKind::Channel] {
                            if !ctx.mine() {
                                continue;
                            }
                            acc.states += 1;
                            acc.executions += 1;
                            acc.transitions += cuts.len() as u64 + 2;
                            let r = fill(w, &sig, declared, &pcm, &cuts);
                            let case = json!({"kind":"length-contract","writer":format!("{w:?}"),"bps":sig.bps,"ch":sig.ch,"rate":sig.rate,"declared":declared,"supply":supply,"cuts":cuts});
                            let rel = match declared { None => "undeclared", Some(_) if supply < d => "under", Some(_) if supply == d => "exact", _ => "over" };
                            let mut bad: Option<(String, String)> = None;
                            match &r {
                                Err(p) => bad = Some((format!("panic@{}", crate::core::panic_loc(p)), format!("panics: {p}"))),
                                Ok(Ok(bytes)) => {
                                    if rel == "under" || rel == "over" {
                                        bad = Some((format!("{rel}-fill-accepted"), format!("declared {d} PCM frames, supplied {supply}: every call returned Ok")));
                                    } else if supply == 0 {
                                        bad = Some(("empty-stream-accepted".into(), "0 PCM frames finalised successfully".into()));
                                    } else {
                                        match decode(ReaderKind::SampleFill, bytes) {
                                            Ok(dd) if dd.pcm == pcm => {
                                                let total = flac_codec::metadata::read_info(&bytes[..]).ok().and_then(|i| i.total_samples).map(|t| t.get());
                                                if total != Some(supply as u64) {
                                                    bad = Some(("count-not-recorded".into(), format!("STREAMINFO total is {total:?}, {supply} PCM frames were written")));
                                                }
                                            }
                                            Ok(_) => bad = Some(("wrong-pcm".into(), "file does not decode to what was written".into())),
                                            Err((e, _)) => bad = Some((format!("undecodable-{}", err_class(&e)), format!("file does not decode: {e}"))),
                                        }
                                    }
                                }
                                Ok(Err(stage)) => {
                                    if (rel == "exact" || rel == "undeclared") && supply > 0 {
                                        bad = Some((format!("valid-fill-refused-at-{stage}"), format!("declared {declared:?}, supplied {supply}: error at {stage}")));
                                    } else if rel == "under" && *stage != "finalize" && supply > 0 {
                                        bad = Some((format!("under-fill-error-at-{stage}"), format!("declared {d}, supplied {supply}: error at {stage}, expected at finalize")));
                                    }
                                }
                            }
                            acc.outcome(format!("contract:{w:?}:{rel}:{}", match &r { Err(_) => "panic".into(), Ok(Ok(_)) => "Ok".to_string(), Ok(Err(s)) => format!("Err@{s}") }));
                            if let Some((clause, detail)) = bad {
                                acc.violation(format!("C15|contract|{w:?}|{rel}|{clause}"), format!("{w:?} {}ch/{}bit cuts {cuts:?}: {detail}", sig.ch, sig.bps), case);
                            }
                        }
                    }
                }
            }
        }
    }
}

/// "when none is declared the final count is recorded" / an exactly filled declared length finishes — also when the stream
/// does not start at offset 0 of its sink
fn contract_at_offset(ctx: &Ctx, acc: &mut Acc) {
    for sig in [Sig { rate: 44100, bps: 16, ch: 1 }, Sig { rate: 44100, bps: 8, ch: 2 }, Sig { rate: 48000, bps: 24, ch: 3 }] {
        for supply in [1usize, 16, 40] {
            for declared in [Some(supply), None] {
                for start in [7usize, 300, 5000] {
                    for cuts in [vec![], vec![supply / 2]] {
                        for w in [WriterKind::Sample, WriterKind::ByteLE, WriterKind::Channel] {
                            if !ctx.mine() {
                                continue;
                            }
                            acc.states += 1;
                            acc.executions += 1;
                            acc.transitions += cuts.len() as u64 + 2;
                            let pcm = ident_pcm(sig.ch, sig.bps, supply);
                            let r = fill_at(w, &sig, declared, &pcm, &cuts, start);
                            let case = json!({"kind":"length-contract-offset","writer":format!("{w:?}"),"bps":sig.bps,"ch":sig.ch,"rate":sig.rate,"declared":declared,"supply":supply,"cuts":cuts,"start":start});
                            let bad: Option<(String, String)> = match &r {
                                Err(p) => Some((format!("panic@{}", crate::core::panic_loc(p)), format!("panics: {p}"))),
                                Ok(Err(stage)) => Some((format!("valid-fill-refused-at-{stage}"), format!("declared {declared:?}, supplied {supply}, stream at offset {start}: error at {stage}"))),
                                Ok(Ok(bytes)) => match decode(ReaderKind::SampleFill, bytes) {
                                    Ok(dd) if dd.pcm == pcm => {
                                        let total = flac_codec::metadata::read_info(&bytes[..]).ok().and_then(|i| i.total_samples).map(|t| t.get());
                                        (total != Some(supply as u64)).then(|| ("count-not-recorded".to_string(), format!("STREAMINFO total is {total:?}, {supply} PCM frames were written (stream at offset {start} of its sink)")))
                                    }
                                    Ok(_) => Some(("wrong-pcm".into(), "the stream does not decode to what was written".into())),
                                    Err((e, _)) => Some((format!("undecodable-{}", err_class(&e)), format!("the stream at offset {start} does not decode: {e}"))),
                                },
                            };
                            acc.outcome(format!("contract-offset:{w:?}:{}", if bad.is_some() { "BAD" } else { "ok" }));
                            if let Some((clause, detail)) = bad {
                                acc.violation(format!("C15|contract-offset|{w:?}|{clause}"), format!("{w:?} {}ch/{}bit: {detail}", sig.ch, sig.bps), case);
                            }
                        }
                    }
                }
            }
        }
    }
}

fn stream_writer_call(rate: u32, ch: u8, bps: u32, n: usize) -> Result<Result<Vec<u8>, String>, String> {
    guarded(|| {
        let mut out = Vec::new();
        let mut w = FlacStreamWriter::new(&mut out, Options::default());
        let sig = Sig { rate, bps: bps.clamp(1, 32), ch: ch.max(1) };
        let s: Vec<i32> = ident_pcm(1, sig.bps, n);
        match w.write(rate, ch, bps, &s) {
            Ok(()) => Ok(out),
            Err(e) => Err(format!("{e:?}")),
        }
    })
}

fn stream_writer(ctx: &Ctx, acc: &mut Acc) {
    // rates the frame header can carry; the three boundary codings (65535 Hz, 655350 Hz as daHz, 255 kHz) are left out:
    // the crate conservatively treats them as STREAMINFO-only, which the property does not forbid
    let subset_rate = |r: u32| r > 0 && (r < 65535 || (r % 10 == 0 && r < 655350) || (r % 1000 == 0 && r < 255000) || [88200, 176400, 192000, 96000].contains(&r));
    for rate in [0u32, 1, 8000, 44100, 65535, 65536, 100010, 655350, 655351, 700001, (1 << 20) - 1, 1 << 20, u32::MAX] {
        for ch in [0u8, 1, 2, 3, 8, 9, 255] {
            for bps in [0u32, 1, 7, 8, 12, 16, 20, 24, 31, 32, 33, u32::MAX] {
                for n in [0usize, 1, ch.saturating_sub(1) as usize, ch as usize, 16 * ch as usize, 65535 * ch.min(8) as usize, 65536 * ch.min(8) as usize] {
                    if !ctx.mine() {
                        continue;
                    }
                    if n > 65536 && ctx.quick && ch > 2 {
                        continue;
                    }
                    acc.states += 1;
                    acc.executions += 1;
                    acc.transitions += 1;
                    let case = json!({"kind":"stream-write","rate":rate,"ch":ch,"bps":bps,"n":n});
                    let documented = subset_rate(rate) && (1..=8).contains(&ch) && [8, 12, 16, 20, 24, 32].contains(&bps) && n > 0 && n % ch as usize == 0 && n / ch as usize <= 65535;
                    match stream_writer_call(rate, ch, bps, n) {
                        Err(p) => acc.violation(format!("C15|stream-write|panic@{}", crate::core::panic_loc(&p)), format!("FlacStreamWriter::write({rate}, {ch}, {bps}, {n} samples) panics: {p}"), case),
                        Ok(Ok(bytes)) => {
                            acc.outcome("stream-write:Ok");
                            // whatever was accepted must be a frame the independent decoder can decode on its own
                            match guarded(|| refdec::decode_frame(&bytes, 0, None)) {
                                Ok(Ok(f)) if f.len == bytes.len() && f.block_size as usize * ch as usize == n => {}
                                Ok(Ok(f)) => acc.violation("C15|stream-write|frame-shape".to_string(), format!("write({rate},{ch},{bps},{n}) produced a frame of {} samples × {} channels, {} of {} bytes", f.block_size, f.channels, f.len, bytes.len()), case),
                                Ok(Err(r)) => acc.violation(format!("C15|stream-write|undecodable-{}", r.code), format!("write({rate},{ch},{bps},{n}) returned Ok but the frame is not decodable from its own header: {}", r.msg), case),
                                Err(p) => acc.notes.push(format!("refdec panic: {p}")),
                            }
                        }
                        Ok(Err(e)) => {
                            acc.outcome(format!("stream-write:Err:{}", e.split('(').next().unwrap_or("")));
                            if documented {
                                acc.violation("C15|stream-write|documented-value-refused".to_string(), format!("write({rate},{ch},{bps},{n}) refused: {e}"), case);
                            }
                        }
                    }
                }
            }
        }
    }
}


/// FlacChannelWriter::write with malformed channel sets (wrong number of channels, channels of unequal length, empty
/// channels) in every position of a 3-call history, and the `new_cdda` constructors against `new(.., 44100, 16, 2, ..)`.
/// Returns Err(panic message) or Ok(outcome label).
fn channel_call(ch: u8, given: usize, lens: &[usize], at: usize) -> Result<String, String> {
    use flac_codec::encode::FlacChannelWriter;
    guarded(|| -> String {
        let mut out = std::io::Cursor::new(Vec::new());
        let o = Opt::base16().to_options().unwrap();
        let mut w = match FlacChannelWriter::new(&mut out, o, 44100, 16, ch, None) {
            Ok(w) => w,
            Err(e) => return format!("ctor-refused:{e:?}"),
        };
        let good: Vec<Vec<i32>> = (0..ch as usize).map(|c| (0..20).map(|i| i * 3 + c as i32).collect()).collect();
        let bad: Vec<Vec<i32>> = (0..given).map(|c| (0..lens[c % lens.len()]).map(|i| i as i32 - c as i32).collect()).collect();
        let mut label = String::new();
        for call in 0..3 {
            let r = if call == at { w.write(bad.iter().map(|v| v.as_slice()).collect::<Vec<_>>()) } else { w.write(good.iter().map(|v| v.as_slice()).collect::<Vec<_>>()) };
            label.push_str(if r.is_ok() { "ok," } else { "err," });
        }
        label.push_str(if w.finalize().is_ok() { "fin-ok" } else { "fin-err" });
        label
    })
}
fn channel_calls(ctx: &Ctx, acc: &mut Acc) {
    for ch in [1u8, 2, 3, 8] {
        for given in 0..=9usize {
            for lens in [vec![20usize], vec![20, 19], vec![19, 20], vec![0], vec![20, 0], vec![1, 2, 3], vec![16, 17]] {
                for at in 0..3usize {
                    if !ctx.mine() {
                        continue;
                    }
                    acc.states += 1;
                    acc.executions += 1;
                    acc.transitions += 4;
                    match channel_call(ch, given, &lens, at) {
                        Ok(l) => acc.outcome(format!("channel-call:{}:{l}", if given == ch as usize && lens.len() == 1 { "well-formed" } else { "malformed" })),
                        Err(p) => acc.violation(format!("C15|channel-call|panic@{}", crate::core::panic_loc(&p)), format!("FlacChannelWriter({ch} ch).write with {given} channel(s) of lengths {lens:?} as call #{at}: panic: {p}"), json!({"kind":"channel-call","writer":"Channel","ch":ch,"given":given,"lens":lens,"at":at})),
                    }
                }
            }
        }
    }
    if ctx.shard == 0 {
        for total in [None, Some(40u64), Some(39), Some(41)] {
            acc.states += 1;
            acc.executions += 1;
            match cdda_equiv(total) {
                Ok(Ok(())) => acc.outcome(format!("cdda-ctor:same:{}", total.is_some())),
                Ok(Err(e)) => acc.violation("C15|cdda-constructor-differs".to_string(), format!("declared total {total:?}: {e}"), json!({"kind":"cdda-ctor","writer":"Sample","total":total})),
                Err(p) => acc.violation(format!("C15|cdda-ctor|panic@{}", crate::core::panic_loc(&p)), format!("new_cdda with total {total:?}: panic: {p}"), json!({"kind":"cdda-ctor","writer":"Sample","total":total})),
            }
        }
    }
}

/// the CD-DA shorthand constructors are the documented equivalent of (44100 Hz, 16 bit, 2 channels)
fn cdda_equiv(total: Option<u64>) -> Result<Result<(), String>, String> {
    use flac_codec::byteorder::LittleEndian;
    use flac_codec::encode::{FlacByteWriter, FlacChannelWriter, FlacSampleWriter};
    let pcm: Vec<i32> = (0..80).map(|i| (i * 37 % 2001) - 1000).collect();
    guarded(|| -> Result<(), String> {
                let o = || Opt::base16().to_options().unwrap();
                let run_s = |cdda: bool| -> Result<Vec<u8>, String> {
                    let mut out = std::io::Cursor::new(Vec::new());
                    let t = total.map(|t| t * 2);
                    let mut w = if cdda { FlacSampleWriter::new_cdda(&mut out, o(), t) } else { FlacSampleWriter::new(&mut out, o(), 44100, 16, 2, t) }.map_err(|e| format!("{e:?}"))?;
                    w.write(&pcm).map_err(|e| format!("write:{e:?}"))?;
                    w.finalize().map_err(|e| format!("finalize:{e:?}"))?;
                    Ok(out.into_inner())
                };
                let run_b = |cdda: bool| -> Result<Vec<u8>, String> {
                    use std::io::Write;
                    let mut out = std::io::Cursor::new(Vec::new());
                    let t = total.map(|t| t * 4);
                    let bytes = crate::codec::pcm_bytes(&pcm, 16, false);
                    let mut w: FlacByteWriter<_, LittleEndian> = if cdda { FlacByteWriter::new_cdda(&mut out, o(), t) } else { FlacByteWriter::new(&mut out, o(), 44100, 16, 2, t) }.map_err(|e| format!("{e:?}"))?;
                    w.write_all(&bytes).map_err(|e| format!("write:{e}"))?;
                    w.finalize().map_err(|e| format!("finalize:{e:?}"))?;
                    Ok(out.into_inner())
                };
                let run_c = |cdda: bool| -> Result<Vec<u8>, String> {
                    let mut out = std::io::Cursor::new(Vec::new());
                    let chans = crate::codec::deinterleave(&pcm, 2);
                    let mut w = if cdda { FlacChannelWriter::new_cdda(&mut out, o(), total) } else { FlacChannelWriter::new(&mut out, o(), 44100, 16, 2, total) }.map_err(|e| format!("{e:?}"))?;
                    w.write([&chans[0][..], &chans[1][..]]).map_err(|e| format!("write:{e:?}"))?;
                    w.finalize().map_err(|e| format!("finalize:{e:?}"))?;
                    Ok(out.into_inner())
                };
                for (name, a, b) in [("sample", run_s(true), run_s(false)), ("byte", run_b(true), run_b(false)), ("channel", run_c(true), run_c(false))] {
                    let same = match (&a, &b) {
                        (Ok(x), Ok(y)) => x == y,
                        (Err(x), Err(y)) => x.split(':').next() == y.split(':').next(),
                        _ => false,
                    };
                    if !same {
                        return Err(format!("{name} writer: new_cdda gives {:?}, new(44100, 16, 2) gives {:?}", a.as_ref().map(|v| v.len()), b.as_ref().map(|v| v.len())));
                    }
                }
                Ok(())
            })
}


/// Declared totals around the point where a per-frame seek-table policy would need more placeholder points than a SEEKTABLE
/// block can hold (932067): exactly fitting, one frame more, one sample more, twice as many. The constructor must return.
fn placeholder_limit(ctx: &Ctx, acc: &mut Acc) {
    for (block, every) in [(16u16, 1usize), (16, 2), (32, 1)] {
        let fit = block as u64 * every as u64 * 932_067;
        for total in [fit - 1, fit, fit + 1, fit + block as u64 * every as u64, 2 * fit] {
            for w in [WriterKind::Sample, WriterKind::ByteLE, WriterKind::Channel] {
                if !ctx.mine() {
                    continue;
                }
                acc.states += 1;
                acc.executions += 1;
                acc.transitions += 1;
                let r = guarded(|| {
                    let mut out = Cursor::new(Vec::new());
                    let o = Options::default().block_size(block).unwrap().seektable_frames(every);
                    match w {
                        WriterKind::Sample => FlacSampleWriter::new(&mut out, o, 44100, 16, 1, Some(total)).map(|_| ()).is_ok(),
                        WriterKind::Channel => FlacChannelWriter::new(&mut out, o, 44100, 16, 1, Some(total)).map(|w| std::mem::forget(w)).is_ok(),
                        _ => FlacByteWriter::endian(&mut out, LittleEndian, o, 44100, 16, 1, Some(total * 2)).map(|w| std::mem::forget(w)).is_ok(),
                    }
                });
                match r {
                    Ok(ok) => acc.outcome(format!("placeholder-limit:{}", if ok { "writer" } else { "refused" })),
                    Err(p) => acc.violation(format!("C15|placeholder-limit|panic@{}", crate::core::panic_loc(&p)), format!("{w:?}::new with block {block}, seektable_frames({every}) and a declared total of {total} PCM frames panics: {p}"), json!({"kind":"placeholder-limit","writer":format!("{w:?}"),"block":block,"every":every,"total":total})),
                }
            }
        }
    }
}

pub fn run(ctx: &Ctx, acc: &mut Acc) {
    channel_calls(ctx, acc);
    placeholder_limit(ctx, acc);
    let t = std::time::Instant::now();
    grid(ctx, acc);
    acc.dim("cpu_ms_grid", t.elapsed().as_millis() as u64);
    setters(ctx, acc);
    let t = std::time::Instant::now();
    documented(ctx, acc);
    acc.dim("cpu_ms_documented", t.elapsed().as_millis() as u64);
    let t = std::time::Instant::now();
    contract(ctx, acc);
    contract_at_offset(ctx, acc);
    acc.dim("cpu_ms_contract", t.elapsed().as_millis() as u64);
    let t = std::time::Instant::now();
    stream_writer(ctx, acc);
    acc.dim("cpu_ms_stream_writer", t.elapsed().as_millis() as u64);
    acc.sample(json!({"kind":"ctor","writer":"Sample","rate":1048575,"bps":32,"ch":8,"total":null}));
    acc.sample(json!({"kind":"length-contract","writer":"ByteLE","declared":17,"supply":18,"cuts":[3,17]}));
}

pub fn replay(v: &Value) -> Option<(bool, String)> {
    let w = crate::codec::writer_from(v["writer"].as_str().unwrap_or(""));
    match v["kind"].as_str()? {
        "length-contract-offset" => {
            let sig = crate::codec::sig_from(v);
            let supply = v["supply"].as_u64()? as usize;
            let cuts: Vec<usize> = v["cuts"].as_array()?.iter().map(|x| x.as_u64().unwrap_or(0) as usize).collect();
            let pcm = ident_pcm(sig.ch, sig.bps, supply);
            let r = fill_at(w, &sig, v["declared"].as_u64().map(|d| d as usize), &pcm, &cuts, v["start"].as_u64()? as usize);
            let bad = match &r {
                Ok(Ok(bytes)) => !matches!(decode(ReaderKind::SampleFill, bytes), Ok(dd) if dd.pcm == pcm) || flac_codec::metadata::read_info(&bytes[..]).ok().and_then(|i| i.total_samples).map(|t| t.get()) != Some(supply as u64),
                _ => true,
            };
            Some((bad, format!("{:?}", r.map(|x| x.map(|b| b.len())))))
        }
        "placeholder-limit" => {
            let (block, every, total) = (v["block"].as_u64()? as u16, v["every"].as_u64()? as usize, v["total"].as_u64()?);
            let r = guarded(|| {
                let mut out = Cursor::new(Vec::new());
                let o = Options::default().block_size(block).unwrap().seektable_frames(every);
                match w {
                    WriterKind::Sample => FlacSampleWriter::new(&mut out, o, 44100, 16, 1, Some(total)).map(|_| ()).is_ok(),
                    WriterKind::Channel => FlacChannelWriter::new(&mut out, o, 44100, 16, 1, Some(total)).map(|w| std::mem::forget(w)).is_ok(),
                    _ => FlacByteWriter::endian(&mut out, LittleEndian, o, 44100, 16, 1, Some(total * 2)).map(|w| std::mem::forget(w)).is_ok(),
                }
            });
            Some((r.is_err(), format!("{r:?}")))
        }
        "channel-call" => {
            let lens: Vec<usize> = v["lens"].as_array()?.iter().map(|x| x.as_u64().unwrap_or(0) as usize).collect();
            let r = channel_call(v["ch"].as_u64()? as u8, v["given"].as_u64()? as usize, &lens, v["at"].as_u64()? as usize);
            Some((r.is_err(), format!("{r:?}")))
        }
        "cdda-ctor" => {
            let r = cdda_equiv(v["total"].as_u64());
            Some((!matches!(r, Ok(Ok(()))), format!("{r:?}")))
        }
        "ctor" => {
            let r = ctor(w, v["rate"].as_u64()? as u32, v["bps"].as_u64()? as u32, v["ch"].as_u64()? as u8, v["total"].as_u64());
            let sig = v["signature"].as_str().unwrap_or("");
            let bad = match &r {
                Err(_) => true,
                Ok(ok) => (sig.contains("refused") && !ok) || (sig.contains("accepted") && *ok),
            };
            Some((bad, format!("{r:?}")))
        }
        "setter" => Some((true, "setter cases are re-run by the grid; see signature".into())),
        "documented" => {
            let sig = crate::codec::sig_from(v);
            let opt = Opt::from_json(&v["opt"]);
            let pcm = test_signal(&sig, v["frames"].as_u64()? as usize);
            let r = works(w, &opt, &sig, &pcm);
            Some((r.is_err(), format!("{r:?}")))
        }
        "length-contract" => {
            let sig = crate::codec::sig_from(v);
            let supply = v["supply"].as_u64()? as usize;
            let cuts: Vec<usize> = v["cuts"].as_array()?.iter().map(|x| x.as_u64().unwrap_or(0) as usize).collect();
            let declared = v["declared"].as_u64().map(|d| d as usize);
            let r = fill(w, &sig, declared, &ident_pcm(sig.ch, sig.bps, supply), &cuts);
            let s = v["signature"].as_str().unwrap_or("");
            let bad = match &r {
                Err(_) => true,
                Ok(Ok(_)) => s.contains("accepted") || s.contains("count") || s.contains("wrong") || s.contains("undecodable"),
                Ok(Err(_)) => s.contains("refused") || s.contains("error-at"),
            };
            Some((bad, format!("{:?}", r.map(|x| x.map(|b| b.len())))))
        }
        "stream-write" => {
            let r = stream_writer_call(v["rate"].as_u64()? as u32, v["ch"].as_u64()? as u8, v["bps"].as_u64()? as u32, v["n"].as_u64()? as usize);
            let s = v["signature"].as_str().unwrap_or("");
            let bad = match &r {
                Err(_) => true,
                Ok(Ok(_)) => s.contains("undecodable") || s.contains("shape"),
                Ok(Err(_)) => s.contains("refused"),
            };
            Some((bad, format!("{:?}", r.map(|x| x.map(|b| b.len())))))
        }
        _ => None,
    }
}
