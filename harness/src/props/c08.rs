//! C08 — the file depends only on PCM and options. Shape H over write histories: every composition of a
//! small input into write calls, every ≤2(3)-cut history of multi-block inputs, zero-length calls,
//! trailing partial PCM frames, all writer front-ends and byte orders; oracle: byte identity with the
//! one-call sample-writer output of the whole-PCM-frame prefix.
use crate::codec::{bytes_per_sample, encode, encode_hist, err_class, pcm_bytes, Opt, Sig, WriterKind};
use crate::core::{Acc, Ctx};
use crate::corpus::ident_pcm;
use flac_codec::byteorder::{BigEndian, LittleEndian};
use flac_codec::encode::{FlacByteWriter, FlacSampleWriter};
use serde_json::{json, Value};
use std::io::{Cursor, Write};

pub const RULE: &str = "write histories: (A) ALL compositions of an 18-unit (thorough 23) mono 8-bit input into write calls for the byte, sample and channel writers; (B,C) all histories with ≤2 (thorough ≤3 on B) cut points, plus a zero-length call at every position, on stereo 16-bit (17 PCM frames), 3-channel 24-bit (33 PCM frames), mono 12-bit (40) inputs, inputs that are exact multiples of the block size (stereo 16-bit 32 PCM frames, mono 8-bit 16, mono 32-bit 48) and ≤3 cuts on a mono 16-bit input of 70 PCM frames (4 blocks + remainder; byte writers ≤2 cuts) in the writer's native unit (bytes: cuts fall mid-sample and mid-PCM-frame); (D) trailing partial PCM frames of every possible length after 0, 5, 16 and 17 whole frames; × {byte LE, byte BE, sample, channel} × declared/undeclared × two option sets × history mode {plain; io::Write::flush after every write call (byte writers); writer dropped instead of finalized (≤1-cut histories)}; oracle = byte identity with the single-call sample-writer file; plus the path-based `create` constructors with overwrite() over an absent / shorter / much longer existing file (3 signal formats × 4 writers × declared/undeclared) and the `create_cdda` constructors (absent / much longer existing file), compared with the in-memory file; reference-file hashes are compared across the 16 worker processes (run-to-run determinism)";
pub const ASSUMPTIONS: &[&str] = &["PCM content is the fixed position-identifying signal; histories, not sample values, are the explored dimension here (values: C01)"];
pub fn bounds(quick: bool) -> Value {
    json!({"compositions_n": if quick {18} else {23}, "max_cuts_B": if quick {2} else {3}, "max_cuts_C": 2, "partial_lengths": "all 1..w*ch-1 bytes / 1..ch-1 samples"})
}

fn fast_opt() -> Opt {
    Opt { lpc: None, fast: true, mid_side: false, part: 3, ..Opt::base16() }
}

fn units(w: WriterKind, sig: &Sig, pcm: &[i32]) -> usize {
    match w {
        WriterKind::ByteLE | WriterKind::ByteBE => pcm.len() * bytes_per_sample(sig.bps),
        WriterKind::Sample => pcm.len(),
        WriterKind::Channel => pcm.len() / sig.ch as usize,
    }
}

struct Job<'a> {
    name: &'a str,
    sig: Sig,
    pcm: Vec<i32>,
    opt: Opt,
}

fn check(acc: &mut Acc, job: &Job, reference: &Result<Vec<u8>, String>, w: WriterKind, cuts: &[usize]) {
    // history modes: plain; flush() after every write call (byte writers only — the others have no flush);
    // writer dropped instead of finalized (short histories)
    let byte = matches!(w, WriterKind::ByteLE | WriterKind::ByteBE);
    for (flush, drop_it) in [(false, false), (true, false), (false, true)] {
        if (flush && !byte) || (drop_it && cuts.len() > 1) {
            continue;
        }
        acc.executions += 1;
        acc.transitions += cuts.len() as u64 * if flush { 2 } else { 1 } + 2;
        let got = encode_hist(w, &job.opt, &job.sig, &job.pcm, Some(cuts), flush, drop_it);
        let same = match (&got, reference) {
            (Ok(a), Ok(b)) => a == b,
            (Err(a), Err(b)) => err_class(a) == err_class(b),
            _ => false,
        };
        let mode = if flush { "+flush" } else if drop_it { "+drop" } else { "" };
        acc.outcome(format!("{}:{w:?}{mode}:cuts{}:{}", job.name, cuts.len(), if same { "same" } else { "DIFF" }));
        if !same {
            let clause = match &got {
                Err(e) if e.starts_with("panic:") => err_class(e),
                Err(e) => format!("fails-{}", err_class(e)),
                Ok(_) => "different-bytes".into(),
            };
            acc.violation(
                format!("C08|{w:?}{mode}|{clause}"),
                format!("{} via {w:?}{mode} split at {cuts:?}: {} vs single-call reference {}", job.name, brief(&got), brief(reference)),
                json!({"kind":"write-history","writer":format!("{w:?}"),"opt":job.opt.to_json(),"rate":job.sig.rate,"bps":job.sig.bps,"ch":job.sig.ch,"pcm":job.pcm,"cuts":cuts,"flush":flush,"drop":drop_it}),
            );
        }
    }
}
fn brief(r: &Result<Vec<u8>, String>) -> String {
    match r {
        Ok(b) => format!("Ok({} bytes, fnv {:016x})", b.len(), crate::core::fnv64(b)),
        Err(e) => format!("Err({e})"),
    }
}

/// Byte/sample writers fed `whole` PCM followed by a trailing partial PCM frame (`extra` units), undeclared length.
fn partial_case(w: WriterKind, opt: &Opt, sig: &Sig, whole: &[i32], extra: usize, cut: Option<usize>) -> Result<Vec<u8>, String> {
    let options = opt.to_options()?;
    let r = crate::core::guarded(|| -> Result<Vec<u8>, String> {
        let mut out = Cursor::new(Vec::new());
        let e = |x: flac_codec::Error| format!("err:{x:?}");
        let ioe = |x: std::io::Error| format!("err:io:{:?}:{}", x.kind(), x);
        match w {
            WriterKind::Sample => {
                let mut data = whole.to_vec();
                data.extend((0..extra).map(|i| (i as i32 * 3 + 1) % 5));
                let mut wr = FlacSampleWriter::new(&mut out, options, sig.rate, sig.bps, sig.ch, None).map_err(e)?;
                match cut {
                    Some(c) => {
                        wr.write(&data[..c]).map_err(e)?;
                        wr.write(&data[c..]).map_err(e)?;
                    }
                    None => wr.write(&data).map_err(e)?,
                }
                wr.finalize().map_err(e)?;
            }
            WriterKind::ByteLE | WriterKind::ByteBE => {
                let big = w == WriterKind::ByteBE;
                let mut data = pcm_bytes(whole, sig.bps, big);
                data.extend((0..extra).map(|i| (i * 7 + 1) as u8));
                macro_rules! go {
                    ($en:expr) => {{
                        let mut wr = FlacByteWriter::endian(&mut out, $en, options, sig.rate, sig.bps, sig.ch, None).map_err(e)?;
                        match cut {
                            Some(c) => {
                                wr.write_all(&data[..c]).map_err(ioe)?;
                                wr.write_all(&data[c..]).map_err(ioe)?;
                            }
                            None => wr.write_all(&data).map_err(ioe)?,
                        }
                        wr.finalize().map_err(e)?;
                    }};
                }
                if big { go!(BigEndian) } else { go!(LittleEndian) }
            }
            WriterKind::Channel => return Err("n/a".into()),
        }
        Ok(out.into_inner())
    });
    match r {
        Ok(x) => x,
        Err(p) => Err(format!("panic:{p}")),
    }
}


/// The path-based constructors (`create`, with `Options::overwrite()`) writing over an existing, longer file: the finished
/// file on disk must be the same bytes as the in-memory encode of the same PCM and options.
fn disk_case(w: WriterKind, opt: &Opt, sig: &Sig, pcm: &[i32], existing: usize, cdda: bool) -> Result<Vec<u8>, String> {
    use flac_codec::encode::FlacChannelWriter;
    let options = opt.to_options()?.overwrite();
    let dir = std::path::Path::new("/verif/target/tmp").join(format!("c08-path-{}", std::process::id()));
    std::fs::create_dir_all(&dir).map_err(|e| format!("machinery:{e}"))?;
    let path = dir.join("out.flac");
    std::fs::write(&path, vec![0xA5u8; existing]).map_err(|e| format!("machinery:{e}"))?;
    let p2 = path.clone();
    let r = crate::core::guarded(move || -> Result<(), String> {
        let e = |x: flac_codec::Error| format!("err:{x:?}");
        let ioe = |x: std::io::Error| format!("err:io:{:?}:{}", x.kind(), x);
        let ch = sig.ch as usize;
        match w {
            WriterKind::Sample => {
                let t = opt.declared.then_some(pcm.len() as u64);
                let mut wr = if cdda { FlacSampleWriter::create_cdda(&p2, options, t) } else { FlacSampleWriter::create(&p2, options, sig.rate, sig.bps, sig.ch, t) }.map_err(e)?;
                wr.write(pcm).map_err(e)?;
                wr.finalize().map_err(e)?;
            }
            WriterKind::ByteLE | WriterKind::ByteBE => {
                let big = w == WriterKind::ByteBE;
                let bytes = pcm_bytes(pcm, sig.bps, big);
                let total = opt.declared.then_some(bytes.len() as u64);
                if big {
                    let mut wr: FlacByteWriter<_, BigEndian> = if cdda { FlacByteWriter::create_cdda(&p2, options, total) } else { FlacByteWriter::create(&p2, options, sig.rate, sig.bps, sig.ch, total) }.map_err(e)?;
                    wr.write_all(&bytes).map_err(ioe)?;
                    wr.finalize().map_err(e)?;
                } else {
                    let mut wr: FlacByteWriter<_, LittleEndian> = if cdda { FlacByteWriter::create_cdda(&p2, options, total) } else { FlacByteWriter::create(&p2, options, sig.rate, sig.bps, sig.ch, total) }.map_err(e)?;
                    wr.write_all(&bytes).map_err(ioe)?;
                    wr.finalize().map_err(e)?;
                }
            }
            WriterKind::Channel => {
                let chans = crate::codec::deinterleave(pcm, ch);
                let t = opt.declared.then_some((pcm.len() / ch) as u64);
                let mut wr = if cdda { FlacChannelWriter::create_cdda(&p2, options, t) } else { FlacChannelWriter::create(&p2, options, sig.rate, sig.bps, sig.ch, t) }.map_err(e)?;
                wr.write(chans.iter().map(|c| &c[..]).collect::<Vec<_>>()).map_err(e)?;
                wr.finalize().map_err(e)?;
            }
        }
        Ok(())
    });
    let data = std::fs::read(&path).map_err(|e| format!("machinery:{e}"));
    let _ = std::fs::remove_dir_all(&dir);
    match r {
        Ok(Ok(())) => data,
        Ok(Err(e)) => Err(e),
        Err(p) => Err(format!("panic:{p}")),
    }
}

pub fn run(ctx: &Ctx, acc: &mut Acc) {
    disk(ctx, acc);
    let q = ctx.quick;
    // ---------- (A) all compositions
    let n = if q { 18 } else { 23 };
    for opt in [Opt { declared: true, ..Opt::base16() }, Opt { declared: false, ..fast_opt() }] {
        let job = Job { name: "A-mono8", sig: Sig { rate: 44100, bps: 8, ch: 1 }, pcm: ident_pcm(1, 8, n), opt };
        let reference = encode(WriterKind::Sample, &job.opt, &job.sig, &job.pcm);
        acc.outcome(format!("refhash:A:{}:{}", job.opt.declared, brief(&reference)));
        for mask in 0u32..(1 << (n - 1)) {
            if !ctx.mine() {
                continue;
            }
            acc.states += 1;
            let cuts: Vec<usize> = (0..n - 1).filter(|b| mask >> b & 1 == 1).map(|b| b + 1).collect();
            for w in [WriterKind::ByteLE, WriterKind::Sample, WriterKind::Channel] {
                check(acc, &job, &reference, w, &cuts);
            }
            if mask == 0b1010011 {
                acc.sample(json!({"set":"A","cuts":cuts,"n":n}));
            }
        }
    }
    // ---------- (B),(C) ≤k cuts + zero-length calls
    // F: four blocks + a remainder with up to 3 cuts — histories that leave a remainder, refill without emptying and
    // wrap the carry-over ring buffer (e.g. writes of B+5, B, B, rest)
    let sets: Vec<(&str, Sig, usize, usize)> = vec![("B-stereo16", Sig { rate: 44100, bps: 16, ch: 2 }, 17, if q { 2 } else { 3 }), ("C-3ch24", Sig { rate: 48000, bps: 24, ch: 3 }, 33, 2), ("E-mono12", Sig { rate: 8000, bps: 12, ch: 1 }, 40, 2), ("F-mono16-4blocks", Sig { rate: 44100, bps: 16, ch: 1 }, 70, 3), ("G-stereo16-exactly-2-blocks", Sig { rate: 44100, bps: 16, ch: 2 }, 32, 2), ("H-mono8-exactly-1-block", Sig { rate: 22050, bps: 8, ch: 1 }, 16, 2), ("I-mono32-3-blocks", Sig { rate: 96000, bps: 32, ch: 1 }, 48, 2)];
    for (name, sig, frames, maxcuts) in sets {
        for opt in [Opt { declared: true, ..Opt::base16() }, Opt { declared: false, ..Opt::base16() }, Opt { declared: true, ..fast_opt() }] {
            let job = Job { name, sig: sig.clone(), pcm: ident_pcm(sig.ch, sig.bps, frames), opt };
            let reference = encode(WriterKind::Sample, &job.opt, &job.sig, &job.pcm);
            acc.outcome(format!("refhash:{name}:{}:{}:{}", job.opt.declared, job.opt.fast, brief(&reference)));
            for w in crate::codec::WRITERS {
                let u = units(w, &job.sig, &job.pcm);
                let mc = if matches!(w, WriterKind::ByteLE | WriterKind::ByteBE) && u > 150 { maxcuts.min(2) } else { maxcuts };
                // 0 cuts
                if ctx.mine() {
                    acc.states += 1;
                    check(acc, &job, &reference, w, &[]);
                }
                for a in 0..=u {
                    // one cut (a == 0 or u: an empty first/last call), and the zero-length call [a, a]
                    if ctx.mine() {
                        acc.states += 2;
                        check(acc, &job, &reference, w, &[a]);
                        check(acc, &job, &reference, w, &[a, a]);
                    }
                    if mc >= 2 {
                        for b in a + 1..u {
                            if ctx.mine() {
                                acc.states += 1;
                                check(acc, &job, &reference, w, &[a, b]);
                            }
                            if mc >= 3 {
                                for c in b + 1..u {
                                    if ctx.mine() {
                                        acc.states += 1;
                                        check(acc, &job, &reference, w, &[a, b, c]);
                                    }
                                }
                            }
                        }
                    }
                }
            }
        }
    }
    // ---------- (D) trailing partial PCM frames
    for sig in [Sig { rate: 44100, bps: 16, ch: 2 }, Sig { rate: 44100, bps: 24, ch: 3 }, Sig { rate: 44100, bps: 8, ch: 8 }, Sig { rate: 44100, bps: 32, ch: 1 }] {
        for opt in [Opt { declared: false, ..Opt::base16() }, Opt { declared: false, ..fast_opt() }] {
            for whole_frames in [0usize, 5, 16, 17, 32] {
                let whole = ident_pcm(sig.ch, sig.bps, whole_frames);
                let reference = encode(WriterKind::Sample, &opt, &sig, &whole);
                for w in [WriterKind::ByteLE, WriterKind::ByteBE, WriterKind::Sample] {
                    let unit = if w == WriterKind::Sample { 1 } else { bytes_per_sample(sig.bps) };
                    let max_extra = unit * sig.ch as usize - if w == WriterKind::Sample { 0 } else { 0 };
                    let total_units = whole.len() * unit;
                    for extra in 1..max_extra {
                        let mut cuts: Vec<Option<usize>> = vec![None, Some(total_units), Some(total_units + extra / 2)];
                        if total_units > 0 {
                            cuts.push(Some(total_units - 1));
                        }
                        for cut in cuts {
                            if !ctx.mine() {
                                continue;
                            }
                            acc.states += 1;
                            acc.executions += 1;
                            acc.transitions += 3;
                            let got = partial_case(w, &opt, &sig, &whole, extra, cut);
                            let same = match (&got, &reference) {
                                (Ok(a), Ok(b)) => a == b,
                                (Err(a), Err(b)) => err_class(a) == err_class(b),
                                _ => false,
                            };
                            acc.outcome(format!("D:{w:?}:whole{whole_frames}:{}", if same { "same" } else { "DIFF" }));
                            if !same {
                                let clause = match &got {
                                    Err(e) if e.starts_with("panic:") => err_class(e),
                                    Err(e) => format!("fails-{}", err_class(e)),
                                    Ok(_) => "different-bytes".into(),
                                };
                                acc.violation(
                                    format!("C08|{w:?}|partial-frame|{clause}"),
                                    format!("{w:?} {}ch/{}bit: {whole_frames} whole PCM frames + {extra} trailing unit(s) of a partial frame (cut {cut:?}): {} vs reference without the partial frame {}", sig.ch, sig.bps, brief(&got), brief(&reference)),
                                    json!({"kind":"write-partial","writer":format!("{w:?}"),"opt":opt.to_json(),"rate":sig.rate,"bps":sig.bps,"ch":sig.ch,"whole_frames":whole_frames,"extra":extra,"cut":cut}),
                                );
                            }
                        }
                    }
                }
            }
        }
    }
}

fn disk(ctx: &Ctx, acc: &mut Acc) {
    for sig in [Sig { rate: 44100, bps: 16, ch: 2 }, Sig { rate: 8000, bps: 8, ch: 1 }, Sig { rate: 96000, bps: 24, ch: 3 }] {
        let pcm = ident_pcm(sig.ch, sig.bps, 40);
        for declared in [true, false] {
            let opt = Opt { declared, ..Opt::base16() };
            let reference = encode(WriterKind::Sample, &opt, &sig, &pcm);
            for w in crate::codec::WRITERS {
                for (existing, cdda) in [(0usize, false), (10, false), (100_000, false), (0, true), (100_000, true)] {
                    if cdda && !(sig.rate == 44100 && sig.bps == 16 && sig.ch == 2) {
                        continue;
                    }
                    if !ctx.mine() {
                        continue;
                    }
                    acc.states += 1;
                    acc.executions += 1;
                    acc.transitions += 3;
                    let got = disk_case(w, &opt, &sig, &pcm, existing, cdda);
                    if let Err(e) = &got {
                        if e.starts_with("machinery:") {
                            acc.notes.push(format!("machinery: C08 on-disk case: {e}"));
                            continue;
                        }
                    }
                    let same = match (&got, &reference) {
                        (Ok(a), Ok(b)) => a == b,
                        (Err(a), Err(b)) => err_class(a) == err_class(b),
                        _ => false,
                    };
                    acc.outcome(format!("disk:{w:?}:existing{existing}:cdda{cdda}:{}", if same { "same" } else { "DIFF" }));
                    if !same {
                        let clause = match &got {
                            Err(e) if e.starts_with("panic:") => err_class(e),
                            Err(e) => format!("fails-{}", err_class(e)),
                            Ok(_) => "different-bytes".into(),
                        };
                        acc.violation(format!("C08|{w:?}|on-disk|{clause}"), format!("{w:?}::{} + overwrite() over an existing file of {existing} bytes ({}ch/{}bit): {} vs the in-memory file {}", if cdda { "create_cdda" } else { "create" }, sig.ch, sig.bps, brief(&got), brief(&reference)), json!({"kind":"write-disk","writer":format!("{w:?}"),"opt":opt.to_json(),"rate":sig.rate,"bps":sig.bps,"ch":sig.ch,"pcm":pcm,"existing":existing,"cdda":cdda}));
                    }
                }
            }
        }
    }
}

/// parent-side: the same reference file must hash identically in every worker process
pub fn post_merge(acc: &mut Acc) {
    let mut seen: std::collections::BTreeMap<String, String> = Default::default();
    let keys: Vec<String> = acc.outcomes.keys().filter(|k| k.starts_with("refhash:")).cloned().collect();
    for k in keys {
        let (name, hash) = k.rsplit_once("Ok(").or_else(|| k.rsplit_once("Err(")).unwrap_or((&k, ""));
        if let Some(prev) = seen.insert(name.to_string(), hash.to_string()) {
            if prev != hash {
                acc.violation("C08|nondeterministic-output".to_string(), format!("reference file {name} differs between worker processes"), json!({"kind":"nondeterminism","name":name}));
            }
        }
    }
}

pub fn replay(v: &Value) -> Option<(bool, String)> {
    let opt = Opt::from_json(&v["opt"]);
    let sig = crate::codec::sig_from(v);
    let w = crate::codec::writer_from(v["writer"].as_str()?);
    match v["kind"].as_str()? {
        "write-history" => {
            let pcm = crate::core::ivec(&v["pcm"]);
            let cuts: Vec<usize> = v["cuts"].as_array()?.iter().map(|x| x.as_u64().unwrap_or(0) as usize).collect();
            let reference = encode(WriterKind::Sample, &opt, &sig, &pcm);
            let got = encode_hist(w, &opt, &sig, &pcm, Some(&cuts), v["flush"].as_bool().unwrap_or(false), v["drop"].as_bool().unwrap_or(false));
            let same = match (&got, &reference) {
                (Ok(a), Ok(b)) => a == b,
                (Err(a), Err(b)) => err_class(a) == err_class(b),
                _ => false,
            };
            Some((!same, format!("split {cuts:?}: {} ; single call: {}", brief(&got), brief(&reference))))
        }
        "write-disk" => {
            let pcm = crate::core::ivec(&v["pcm"]);
            let reference = encode(WriterKind::Sample, &opt, &sig, &pcm);
            let got = disk_case(w, &opt, &sig, &pcm, v["existing"].as_u64()? as usize, v["cdda"].as_bool().unwrap_or(false));
            let same = match (&got, &reference) {
                (Ok(a), Ok(b)) => a == b,
                (Err(a), Err(b)) => err_class(a) == err_class(b),
                _ => false,
            };
            Some((!same, format!("on disk: {} ; in memory: {}", brief(&got), brief(&reference))))
        }
        "write-partial" => {
            let whole = ident_pcm(sig.ch, sig.bps, v["whole_frames"].as_u64()? as usize);
            let reference = encode(WriterKind::Sample, &opt, &sig, &whole);
            let got = partial_case(w, &opt, &sig, &whole, v["extra"].as_u64()? as usize, v["cut"].as_u64().map(|c| c as usize));
            let same = match (&got, &reference) {
                (Ok(a), Ok(b)) => a == b,
                (Err(a), Err(b)) => err_class(a) == err_class(b),
                _ => false,
            };
            Some((!same, format!("with partial frame: {} ; without: {}", brief(&got), brief(&reference))))
        }
        _ => None,
    }
}
