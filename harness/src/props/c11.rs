//! C11 — metadata blocks survive a write/read round trip and report their sizes correctly.
//! Shape G: full products of boundary menus for every field of every block type, every ordered pair of block
//! kinds, the invalid-list menu, and the converse direction over every produced section and over every accepted
//! single-byte substitution of ten small sections.  Oracle: equality of typed values, an independent header walk and
//! an independent size model (field lengths), and an independent model of the single-instance / size rules.
use crate::core::{guarded, hex, panic_loc, unhex, Acc, Ctx};
use bitstream_io::SignedBitCount;
use flac_codec::metadata::contiguous::Contiguous;
use flac_codec::metadata::cuesheet::{CDDAOffset, Digit, Index, IndexVec, LeadOutCDDA, LeadOutNonCDDA, TrackCDDA, TrackNonCDDA, ISRC};
use flac_codec::metadata::{
    read_block, read_blocks, read_info, write_blocks, Application, AsBlockRef, Block, BlockList, BlockRef, BlockSize, BlockType, Cuesheet, MetadataBlock, OptionalMetadataBlock, Padding, Picture, PictureType, SeekPoint,
    SeekTable, Streaminfo, VorbisComment,
};
use serde_json::{json, Value};
use std::num::NonZero;

pub const RULE: &str = "(1) STREAMINFO: full product min/max block size {0,16,65535}² × min/max frame size {None,1,2^24-1}² × rate {0,1,2^20-1} × channels 1..8 × depth 1..32 × total {None,1,2^36-1} × md5 {None,Some} (373248 values) + all-zero md5 + 5 digests containing zero bytes + 8 out-of-range literals; (2) every other block value alone behind a STREAMINFO: padding {0,1,2^24-1,2^24}; application id {0,'riff',2^32-1} × data length {0,1,2^24-5,2^24-4}; every seek-point sequence of length 0..3 over a 6-symbol alphabet (incl. placeholders and the 2^64-1 sample offset) + tables of 932067 / 932068 points; comments: 3 vendor strings × every entry sequence of length 0..3 over 7 entries (empty, no '=', multi-byte UTF-8, NUL, 2^16-byte value) + a 2^24-byte entry; pictures: 21 types × 3 media types × 3 descriptions × 3 dimension tuples × data length {0,1,70000} + Picture::new over PNG/JPEG/GIF for every type + 2^24-byte data; cue sheets through Cuesheet::parse and through the public variants/constructors: CD-DA tracks {1,2,99,100} × indices {1,2,99,100,101} × INDEX 00 yes/no × catalog {none,13} × 5 ISRC forms × pre-emphasis (× non-audio × lead-in {0,88200,2^64-1} for the constructor path), non-CD-DA tracks {1,2,254,255} × indices {1,2,255,256,257} × INDEX 00 × catalog {0,13,128,129} × 5 ISRC forms × pre-emphasis (× non-audio), plus constructor-built sheets whose first track number / first track offset / first index offset breaks the ordering rules; (3) every ordered pair of 13 representative blocks (all 6×6 kind pairs) as a slice and through BlockList::insert; (4) invalid lists (no/late/duplicate STREAMINFO, two seek tables, two comments, two PNG icons, two general icons, oversize blocks in every position); each written list is checked by an independent header walk (types, last flag, length fields, total), bytes()/total_size() against a field-length model, BlockList::read, read_blocks, read_info and read_block::<T> for all 7 T against the typed originals, and by the converse read→write→read; (5) converse on foreign bytes: 10 small sections × every single-byte substitution (thorough: + every pair of positions × 25 value pairs), every accepted one (by BlockList::read and by the block-by-block read_blocks) is written again and re-read; plus hand-assembled sequences the writer refuses to produce (every block kind duplicated, adjacent and separated; STREAMINFO not first): whatever a reader accepts must be writable again";
pub const ASSUMPTIONS: &[&str] = &[
    "field values are taken from boundary menus (listed in the rule); strings/binary payloads use fixed fill patterns",
    "combination lists are limited to pairs of optional blocks behind one STREAMINFO",
    "foreign byte sections in the converse direction are single-byte substitutions of 10 small valid sections",
];
pub fn bounds(quick: bool) -> Value {
    json!({"streaminfo": "full product, 373248 values", "single_blocks": "full products of the menus in the rule", "pairs": "13×13 representatives × {slice, BlockList}", "converse_substitutions": "10 sections × every position × 255 values",
        "triples": if quick { "not run" } else { "13×13×13 representatives × {slice, BlockList}" }})
}

// ---------------------------------------------------------------------------------------------
// value specifications (JSON) → typed blocks through the public constructors

const PTYPES: [PictureType; 21] = [
    PictureType::Other,
    PictureType::Png32x32,
    PictureType::GeneralFileIcon,
    PictureType::FrontCover,
    PictureType::BackCover,
    PictureType::LinerNotes,
    PictureType::MediaLabel,
    PictureType::LeadArtist,
    PictureType::Artist,
    PictureType::Conductor,
    PictureType::Band,
    PictureType::Composer,
    PictureType::Lyricist,
    PictureType::RecordingLocation,
    PictureType::DuringRecording,
    PictureType::DuringPerformance,
    PictureType::ScreenCapture,
    PictureType::Fish,
    PictureType::Illustration,
    PictureType::BandLogo,
    PictureType::PublisherLogo,
];
const ISRCS: [&str; 5] = ["", "AA6Q72000047", "AA-6Q7-20-00047", "AA6Q720", "AA6Q7200004712345"];
const MD5_PATTERN: [u8; 16] = *b"\x01\x23\x45\x67\x89\xab\xcd\xef\xfe\xdc\xba\x98\x76\x54\x32\x10";

fn pat(len: usize, seed: u8) -> Vec<u8> {
    (0..len).map(|i| (i as u8).wrapping_mul(131).wrapping_add(seed)).collect()
}
/// a string spec is either a JSON string or {"pre":..,"fill":..,"n":..} = pre + fill repeated n times
fn text(v: &Value) -> String {
    match v {
        Value::String(s) => s.clone(),
        Value::Object(_) => format!("{}{}", v["pre"].as_str().unwrap_or(""), v["fill"].as_str().unwrap_or("x").repeat(v["n"].as_u64().unwrap_or(0) as usize)),
        _ => String::new(),
    }
}
fn u(v: &Value) -> u64 {
    v.as_u64().unwrap_or(0)
}

fn std_si() -> Value {
    json!({"t":"si","minb":4096,"maxb":4096,"minf":14,"maxf":9000,"rate":44100,"ch":2,"bps":16,"total":441000,"md5":1})
}

fn build_si(s: &Value) -> Result<Block, String> {
    Ok(Block::Streaminfo(Streaminfo {
        minimum_block_size: u(&s["minb"]) as u16,
        maximum_block_size: u(&s["maxb"]) as u16,
        minimum_frame_size: NonZero::new(u(&s["minf"]) as u32),
        maximum_frame_size: NonZero::new(u(&s["maxf"]) as u32),
        sample_rate: u(&s["rate"]) as u32,
        channels: NonZero::new(u(&s["ch"]) as u8).ok_or("channels:0")?,
        bits_per_sample: SignedBitCount::<32>::try_from(u(&s["bps"]) as u32).map_err(|_| "bits_per_sample")?,
        total_samples: NonZero::new(u(&s["total"])),
        md5: match u(&s["md5"]) {
            0 => None,
            1 => Some(MD5_PATTERN),
            2 => Some([0; 16]),
            // digests with zero bytes in them (about 6 % of real digests have one): first, last, one in the middle, all but one
            3 => Some([0, 0x5A, 1, 2, 3, 4, 5, 6, 7, 8, 9, 10, 11, 12, 13, 14]),
            4 => Some([1, 2, 3, 4, 5, 6, 7, 8, 9, 10, 11, 12, 13, 14, 15, 0]),
            5 => Some([1, 2, 3, 4, 5, 6, 7, 0, 9, 10, 11, 12, 13, 14, 15, 16]),
            6 => Some([0, 0, 0, 0, 0, 0, 0, 0, 0, 0, 0, 0, 0, 0, 0, 1]),
            _ => Some([0x80, 0, 0, 0, 0, 0, 0, 0, 0, 0, 0, 0, 0, 0, 0, 0]),
        },
    }))
}

fn seek_point(v: &Value) -> SeekPoint {
    match v.as_array() {
        Some(a) => SeekPoint::Defined { sample_offset: u(&a[0]), byte_offset: u(&a[1]), frame_samples: u(&a[2]) as u16 },
        None => SeekPoint::Placeholder,
    }
}

fn digits(n: usize) -> Vec<Digit> {
    (0..n).map(|i| Digit::try_from(b'0' + ((i * 7 + 1) % 10) as u8).unwrap()).collect()
}

struct CueSpec {
    parse: bool,
    cdda: bool,
    tracks: usize,
    k: usize,
    idx0: bool,
    catalog: usize,
    isrc: usize,
    pre: bool,
    non_audio: bool,
    lead_in: u64,
    /// constructor path only: 0 = well-formed; 1 = first track numbered 2; 2 = first track not at offset 0;
    /// 3 = every track's first index point not at offset 0 (all later elements stay correctly adjacent)
    first: u8,
}
impl CueSpec {
    fn from(s: &Value) -> Self {
        CueSpec {
            parse: s["via"] == "parse",
            cdda: s["cdda"].as_bool().unwrap_or(false),
            tracks: u(&s["tracks"]) as usize,
            k: u(&s["k"]) as usize,
            idx0: s["idx0"].as_bool().unwrap_or(false),
            catalog: u(&s["catalog"]) as usize,
            isrc: u(&s["isrc"]) as usize,
            pre: s["pre"].as_bool().unwrap_or(false),
            non_audio: s["non_audio"].as_bool().unwrap_or(false),
            lead_in: u(&s["lead_in"]),
            first: u(&s["first"]) as u8,
        }
    }
    fn json(&self) -> Value {
        json!({"t":"cue","via": if self.parse {"parse"} else {"ctor"},"cdda":self.cdda,"tracks":self.tracks,"k":self.k,"idx0":self.idx0,"catalog":self.catalog,"isrc":self.isrc,"pre":self.pre,"non_audio":self.non_audio,"lead_in":self.lead_in,"first":self.first})
    }
    fn total(&self) -> u64 {
        if self.cdda {
            (self.tracks * self.k + 75) as u64 * 588
        } else {
            let x = (self.tracks * self.k * 3 + 1000) as u64;
            if x % 588 == 0 { x + 1 } else { x }
        }
    }
    fn number(&self, i: usize) -> u8 {
        ((if self.idx0 { 0 } else { 1 }) + i) as u8 // wraps past 255 on purpose: 256 index points cannot be numbered otherwise
    }
    fn sheet(&self) -> String {
        let mut s = String::new();
        if self.catalog > 0 {
            s.push_str("CATALOG ");
            for d in digits(self.catalog) {
                s.push_str(&d.to_string());
            }
            s.push('\n');
        }
        s.push_str("FILE \"x.wav\" WAVE\n");
        for t in 0..self.tracks {
            s.push_str(&format!("  TRACK {:02} AUDIO\n", t + 1));
            if self.isrc > 0 {
                s.push_str(&format!("    ISRC {}\n", ISRCS[self.isrc]));
            }
            if self.pre {
                s.push_str("    FLAGS PRE\n");
            }
            for i in 0..self.k {
                let pos = t * self.k + i;
                if self.cdda {
                    s.push_str(&format!("    INDEX {:02} {:02}:{:02}:{:02}\n", self.number(i), pos / 4500, (pos / 75) % 60, pos % 75));
                } else {
                    s.push_str(&format!("    INDEX {:02} {}\n", self.number(i), pos * 3));
                }
            }
        }
        s
    }
    fn build(&self) -> Result<Block, String> {
        if self.parse {
            return Cuesheet::parse(self.total(), &self.sheet()).map(Block::Cuesheet).map_err(|e| format!("parse:{e:?}"));
        }
        let isrc = || -> Result<ISRC, String> { if self.isrc == 0 { Ok(ISRC::None) } else { ISRCS[self.isrc].parse::<ISRC>().map_err(|e| format!("isrc:{e:?}")) } };
        if self.cdda {
            let off = |frames: usize| CDDAOffset::try_from(frames as u64 * 588).map_err(|_| "cdda-offset".to_string());
            let mut tracks: Vec<TrackCDDA> = Vec::with_capacity(self.tracks);
            for t in 0..self.tracks {
                let mut pts = Vec::with_capacity(self.k);
                for i in 0..self.k {
                    pts.push(Index { number: self.number(i), offset: off(i + (self.first == 3) as usize)? });
                }
                let c: Contiguous<100, Index<CDDAOffset>> = pts.try_into().map_err(|_| "indices:NonContiguous")?;
                let iv: IndexVec<100, CDDAOffset> = c.try_into().map_err(|e| format!("indexvec:{e:?}"))?;
                tracks.push(TrackCDDA { offset: off(t * self.k + (self.first == 2) as usize)?, number: NonZero::new((t + 1 + (self.first == 1) as usize) as u8).ok_or("track-number")?, isrc: isrc()?, non_audio: self.non_audio, pre_emphasis: self.pre, index_points: iv });
            }
            let tracks: Contiguous<99, TrackCDDA> = tracks.try_into().map_err(|_| "tracks:NonContiguous")?;
            let lead_out = LeadOutCDDA::new(tracks.last(), CDDAOffset::try_from(self.total()).map_err(|_| "cdda-offset")?).map_err(|e| format!("leadout:{e:?}"))?;
            let catalog_number = match self.catalog {
                0 => None,
                13 => Some(<[Digit; 13]>::try_from(digits(13)).unwrap()),
                _ => return Err("catalog:not-expressible".into()),
            };
            Ok(Block::Cuesheet(Cuesheet::CDDA { catalog_number, lead_in_samples: self.lead_in, tracks, lead_out }))
        } else {
            let mut tracks: Vec<TrackNonCDDA> = Vec::with_capacity(self.tracks);
            for t in 0..self.tracks {
                let pts: Vec<Index<u64>> = (0..self.k).map(|i| Index { number: self.number(i), offset: (i + (self.first == 3) as usize) as u64 * 3 }).collect();
                let c: Contiguous<256, Index<u64>> = pts.try_into().map_err(|_| "indices:NonContiguous")?;
                let iv: IndexVec<256, u64> = c.try_into().map_err(|e| format!("indexvec:{e:?}"))?;
                tracks.push(TrackNonCDDA { offset: ((t * self.k + (self.first == 2) as usize) * 3) as u64, number: NonZero::new((t + 1 + (self.first == 1) as usize) as u8).ok_or("track-number")?, isrc: isrc()?, non_audio: self.non_audio, pre_emphasis: self.pre, index_points: iv });
            }
            let tracks: Contiguous<254, TrackNonCDDA> = tracks.try_into().map_err(|_| "tracks:NonContiguous")?;
            let lead_out = LeadOutNonCDDA::new(tracks.last(), self.total()).map_err(|e| format!("leadout:{e:?}"))?;
            Ok(Block::Cuesheet(Cuesheet::NonCDDA { catalog_number: digits(self.catalog), tracks, lead_out }))
        }
    }
}

/// Ok(block) or Err(label of the constructor that refused the value)
fn build(s: &Value) -> Result<Block, String> {
    match s["t"].as_str().unwrap_or("") {
        "si" => build_si(s),
        "pad" => Ok(Block::Padding(Padding { size: BlockSize::try_from(u(&s["size"])).map_err(|_| "BlockSize")? })),
        "app" => Ok(Block::Application(Application { id: u(&s["id"]) as u32, data: pat(u(&s["len"]) as usize, 7) })),
        "seek" => {
            let pts: Vec<SeekPoint> = s["pts"].as_array().map(|a| a.iter().map(seek_point).collect()).unwrap_or_default();
            Ok(Block::SeekTable(SeekTable { points: pts.try_into().map_err(|_| "points:NonContiguous")? }))
        }
        "seekbig" => {
            let (d, p) = (u(&s["defined"]), u(&s["placeholders"]));
            let pts: Vec<SeekPoint> = (0..d).map(|i| SeekPoint::Defined { sample_offset: i * 4096, byte_offset: i * 100, frame_samples: 4096 }).chain((0..p).map(|_| SeekPoint::Placeholder)).collect();
            Ok(Block::SeekTable(SeekTable { points: pts.try_into().map_err(|_| "points:NonContiguous")? }))
        }
        "vc" => Ok(Block::VorbisComment(VorbisComment { vendor_string: text(&s["vendor"]), fields: s["fields"].as_array().map(|a| a.iter().map(text).collect()).unwrap_or_default() })),
        "pic" => Ok(Block::Picture(Picture {
            picture_type: PTYPES[u(&s["ptype"]) as usize % 21],
            media_type: text(&s["media"]),
            description: text(&s["desc"]),
            width: u(&s["w"]) as u32,
            height: u(&s["h"]) as u32,
            color_depth: u(&s["depth"]) as u32,
            colors_used: NonZero::new(u(&s["colors"]) as u32),
            data: pat(u(&s["len"]) as usize, 3),
        })),
        "picnew" => {
            let img = match s["img"].as_str().unwrap_or("") {
                "png" => super::c12_meta::png(2, 8, false, None),
                "png-palette" => super::c12_meta::png(3, 8, true, Some(12)),
                "jpeg" => super::c12_meta::jpeg(0xC0, 1),
                _ => super::c12_meta::gif(b"89a"),
            };
            Picture::new(PTYPES[u(&s["ptype"]) as usize % 21], text(&s["desc"]), img).map(Block::Picture).map_err(|e| format!("Picture::new:{e:?}"))
        }
        "cue" => CueSpec::from(s).build(),
        other => Err(format!("unknown-spec:{other}")),
    }
}

// ---------------------------------------------------------------------------------------------
// independent models

const MAX: u64 = (1 << 24) - 1;

fn kind(b: &Block) -> &'static str {
    match b {
        Block::Streaminfo(_) => "si",
        Block::Padding(_) => "pad",
        Block::Application(_) => "app",
        Block::SeekTable(_) => "seek",
        Block::VorbisComment(_) => "vc",
        Block::Cuesheet(_) => "cue",
        Block::Picture(_) => "pic",
    }
}
fn type_code(b: &Block) -> u8 {
    match b {
        Block::Streaminfo(_) => 0,
        Block::Padding(_) => 1,
        Block::Application(_) => 2,
        Block::SeekTable(_) => 3,
        Block::VorbisComment(_) => 4,
        Block::Cuesheet(_) => 5,
        Block::Picture(_) => 6,
    }
}
/// body size from the field lengths and the format's layout (RFC 9639 §8), not from the crate's writer
fn model_size(b: &Block) -> u64 {
    match b {
        Block::Streaminfo(_) => 34,
        Block::Padding(p) => u32::from(p.size) as u64,
        Block::Application(a) => 4 + a.data.len() as u64,
        Block::SeekTable(s) => 18 * s.points.len() as u64,
        Block::VorbisComment(v) => 4 + v.vendor_string.len() as u64 + 4 + v.fields.iter().map(|f| 4 + f.len() as u64).sum::<u64>(),
        Block::Cuesheet(Cuesheet::CDDA { tracks, .. }) => 396 + tracks.iter().map(|t| 36 + 12 * t.index_points.len() as u64).sum::<u64>() + 36,
        Block::Cuesheet(Cuesheet::NonCDDA { tracks, .. }) => 396 + tracks.iter().map(|t| 36 + 12 * t.index_points.len() as u64).sum::<u64>() + 36,
        Block::Picture(p) => 32 + p.media_type.len() as u64 + p.description.len() as u64 + p.data.len() as u64,
    }
}
/// a value that the format cannot carry although the types allow it (must be refused, never a panic)
fn unrepresentable(b: &Block) -> Option<&'static str> {
    match b {
        Block::Cuesheet(Cuesheet::CDDA { tracks, .. }) if tracks.iter().any(|t| t.index_points.len() > 255) => Some("index-count>255"),
        Block::Cuesheet(Cuesheet::NonCDDA { tracks, .. }) if tracks.iter().any(|t| t.index_points.len() > 255) => Some("index-count>255"),
        _ if model_size(b) > MAX => Some("oversize-block"),
        _ => None,
    }
}
/// the list-level rule a list breaks, if any
fn broken_rule(blocks: &[Block]) -> Option<&'static str> {
    if !matches!(blocks.first(), Some(Block::Streaminfo(_))) {
        return Some("no-streaminfo-first");
    }
    let count = |f: &dyn Fn(&Block) -> bool| blocks.iter().filter(|b| f(b)).count();
    if count(&|b| matches!(b, Block::Streaminfo(_))) > 1 {
        return Some("duplicate-streaminfo");
    }
    if count(&|b| matches!(b, Block::SeekTable(_))) > 1 {
        return Some("two-seektables");
    }
    if count(&|b| matches!(b, Block::VorbisComment(_))) > 1 {
        return Some("two-comments");
    }
    if count(&|b| matches!(b, Block::Picture(Picture { picture_type: PictureType::Png32x32, .. }))) > 1 {
        return Some("two-png-icons");
    }
    if count(&|b| matches!(b, Block::Picture(Picture { picture_type: PictureType::GeneralFileIcon, .. }))) > 1 {
        return Some("two-general-icons");
    }
    blocks.iter().find_map(unrepresentable)
}

/// independent header walk: (type, last, length, body offset)
fn walk(bytes: &[u8]) -> Result<Vec<(u8, bool, usize, usize)>, String> {
    if bytes.get(..4) != Some(b"fLaC") {
        return Err("no fLaC tag".into());
    }
    let mut out = Vec::new();
    let mut o = 4;
    loop {
        let h = bytes.get(o..o + 4).ok_or(format!("header at {o} runs past the end ({} bytes)", bytes.len()))?;
        let len = ((h[1] as usize) << 16) | ((h[2] as usize) << 8) | h[3] as usize;
        let last = h[0] & 0x80 != 0;
        if o + 4 + len > bytes.len() {
            return Err(format!("block at {o} declares {len} bytes, only {} remain", bytes.len() - o - 4));
        }
        out.push((h[0] & 0x7f, last, len, o + 4));
        o += 4 + len;
        if last {
            break;
        }
    }
    if o != bytes.len() {
        return Err(format!("{} bytes follow the block flagged last", bytes.len() - o));
    }
    Ok(out)
}

fn err_name(e: &flac_codec::Error) -> String {
    match e {
        flac_codec::Error::Io(i) => format!("Io:{:?}", i.kind()),
        flac_codec::Error::Cuesheet(c) => format!("Cuesheet:{c:?}"),
        o => format!("{o:?}").split(['(', ' ', '{']).next().unwrap_or("?").to_string(),
    }
}
fn short<T: std::fmt::Debug>(x: &T) -> String {
    let s = format!("{x:?}");
    if s.len() > 260 { format!("{}…[{} chars]", s.chars().take(260).collect::<String>(), s.len()) } else { s }
}

fn sizes(b: &Block) -> (Option<u32>, Option<u32>) {
    fn f<M: MetadataBlock>(m: &M) -> (Option<u32>, Option<u32>) {
        (m.bytes().map(u32::from), m.total_size().map(u32::from))
    }
    match b {
        Block::Streaminfo(x) => f(x),
        Block::Padding(x) => f(x),
        Block::Application(x) => f(x),
        Block::SeekTable(x) => f(x),
        Block::VorbisComment(x) => f(x),
        Block::Cuesheet(x) => f(x),
        Block::Picture(x) => f(x),
    }
}

// ---------------------------------------------------------------------------------------------
// the check of one list

type Findings = Vec<(String, String)>;
struct Out {
    label: String,
    findings: Findings,
    steps: u64,
}

/// one finding per signature clause (= per root cause); the observations of all entry points that show it are joined
fn merge(mut f: Findings) -> Findings {
    f.sort();
    f.dedup();
    let mut out: Findings = Vec::new();
    for (c, t) in f {
        match out.last_mut() {
            Some((lc, lt)) if *lc == c => {
                if lt.len() < 1500 {
                    lt.push_str(" | ");
                    lt.push_str(&t);
                }
            }
            _ => out.push((c, t)),
        }
    }
    out
}

fn refs(blocks: &[Block]) -> Vec<BlockRef<'_>> {
    blocks.iter().map(|b| b.as_block_ref()).collect()
}
/// name of the struct field in which two Debug renderings first differ (detail class of a round-trip difference)
fn diff_field(a: &str, b: &str) -> String {
    let p = a.bytes().zip(b.bytes()).take_while(|(x, y)| x == y).count();
    let head = &a.as_bytes()[..p.min(a.len())];
    // walk the common prefix of the Debug rendering, tracking the field every open bracket belongs to
    let mut stack: Vec<Option<String>> = Vec::new();
    let mut cur: Option<String> = None;
    let mut ident = String::new();
    let mut i = 0;
    while i < head.len() {
        let c = head[i];
        match c {
            b'"' => {
                i += 1;
                while i < head.len() && head[i] != b'"' {
                    if head[i] == b'\\' {
                        i += 1;
                    }
                    i += 1;
                }
                ident.clear();
            }
            b':' if head.get(i + 1) == Some(&b' ') && !ident.is_empty() => {
                cur = Some(std::mem::take(&mut ident));
            }
            b'{' | b'[' | b'(' => {
                let eff = cur.clone().or_else(|| stack.last().cloned().flatten());
                stack.push(eff);
                cur = None;
                ident.clear();
            }
            b'}' | b']' | b')' => {
                cur = stack.pop().flatten();
                ident.clear();
            }
            b',' => {
                cur = None;
                ident.clear();
            }
            c if c.is_ascii_alphanumeric() || c == b'_' => ident.push(c as char),
            _ => ident.clear(),
        }
        i += 1;
    }
    cur.or_else(|| stack.last().cloned().flatten()).unwrap_or_else(|| "value".into())
}
/// (TYPE|field, description) of the first difference between what was written and what was read
fn diff_class(want: &[BlockRef<'_>], got: &[BlockRef<'_>]) -> (String, String) {
    for (i, (x, y)) in want.iter().zip(got).enumerate() {
        if x != y {
            let (dx, dy) = (format!("{x:?}"), format!("{y:?}"));
            let field = if x.block_type() != y.block_type() { "block-type".to_string() } else { diff_field(&dx, &dy) };
            return (format!("{}|{field}", x.block_type()), format!("block {i}: wrote {} read {}", short(x), short(y)));
        }
    }
    ("LIST|block-count".into(), format!("{} blocks instead of {}", got.len(), want.len()))
}
#[allow(dead_code)]
fn first_diff(a: &[BlockRef<'_>], b: &[BlockRef<'_>]) -> String {
    if a.len() != b.len() {
        return format!("{} blocks instead of {}", b.len(), a.len());
    }
    for (i, (x, y)) in a.iter().zip(b).enumerate() {
        if x != y {
            return format!("block {i}: wrote {} read {}", short(x), short(y));
        }
    }
    "equal".into()
}

fn canon(blocks: &[Block]) -> Vec<Block> {
    blocks
        .iter()
        .map(|b| match b {
            Block::Streaminfo(si) if si.md5 == Some([0; 16]) => {
                let mut si = si.clone();
                si.md5 = None;
                Block::Streaminfo(si)
            }
            Block::SeekTable(t) if t.points.iter().any(|p| matches!(p, SeekPoint::Defined { sample_offset: u64::MAX, .. })) => {
                let pts: Vec<SeekPoint> = t.points.iter().map(|p| match p { SeekPoint::Defined { sample_offset: u64::MAX, .. } => SeekPoint::Placeholder, p => p.clone() }).collect();
                match pts.try_into() {
                    Ok(points) => Block::SeekTable(flac_codec::metadata::SeekTable { points }),
                    Err(_) => b.clone(),
                }
            }
            b => b.clone(),
        })
        .collect()
}

fn rb<T>(bytes: &[u8], blocks: &[Block], f: &mut Findings)
where
    T: MetadataBlock + PartialEq + std::fmt::Debug,
{
    let name = format!("{}", T::TYPE);
    let want: Option<T> = blocks.iter().find(|b| b.block_type() == T::TYPE).and_then(|b| T::try_from(b.clone()).ok());
    match guarded(|| read_block::<_, T>(bytes)) {
        Err(p) => f.push((format!("reader-panic|panic@{}", panic_loc(&p)), format!("read_block::<{name}> panics on the writer's output: {p}"))),
        Ok(Err(e)) => f.push((format!("reader-rejects-writer-output|{}", err_name(&e)), format!("read_block::<{name}> fails: {e:?}"))),
        Ok(Ok(got)) => {
            if got != want {
                let field = diff_field(&format!("{want:?}"), &format!("{got:?}"));
                f.push((format!("roundtrip|{name}|{field}"), format!("read_block::<{name}> returns {} instead of {}", short(&got), short(&want))));
            }
        }
    }
}

/// `list`: write through `BlockList::blocks()` instead of the slice; `lenient`: the list contains an out-of-range
/// STREAMINFO literal, for which either refusal or a faithful round trip is acceptable
fn check(blocks: &[Block], list: Option<&BlockList>, lenient: bool) -> Out {
    let mut f: Findings = Vec::new();
    let mut steps = 1u64;
    let kinds: String = blocks.iter().skip(1).map(kind).collect::<Vec<_>>().join("+");
    let rule = broken_rule(blocks);
    let w = guarded(|| {
        let mut v = Vec::new();
        match list {
            Some(l) => write_blocks(&mut v, l.blocks()),
            None => write_blocks(&mut v, blocks.iter()),
        }
        .map(|()| v)
    });
    let bytes = match w {
        Err(p) => {
            f.push((format!("writer-panic|panic@{}", panic_loc(&p)), format!("write_blocks panics on [{}]{}: {p}", blocks.iter().map(kind).collect::<Vec<_>>().join(","), rule.map(|r| format!(" (list breaks: {r})")).unwrap_or_default())));
            return Out { label: format!("{kinds}:writer-panic"), findings: f, steps };
        }
        Ok(Err(e)) => {
            // refusal: fine for invalid lists; for valid ones it is recorded as an outcome (the property does not oblige the writer to accept)
            let label = match rule {
                Some(r) => format!("{kinds}:refused-invalid[{r}]:{}", err_name(&e)),
                None if lenient => format!("{kinds}:refused-out-of-range:{}", err_name(&e)),
                None => format!("{kinds}:REFUSED-VALID:{}", err_name(&e)),
            };
            // size accounting of a refused oversize block: bytes() must say None
            for b in blocks {
                if model_size(b) > MAX {
                    steps += 1;
                    match guarded(|| sizes(b)) {
                        Err(p) => f.push((format!("size|bytes()-panic@{}", panic_loc(&p)), format!("{}::bytes() panics: {p}", kind(b)))),
                        Ok((Some(n), _)) => f.push((format!("size|oversize-reports-size|{}", kind(b)), format!("{} block of {} body bytes reports bytes() = {n}", kind(b), model_size(b)))),
                        Ok(_) => {}
                    }
                }
            }
            return Out { label, findings: f, steps };
        }
        Ok(Ok(v)) => v,
    };
    if let Some(r) = rule {
        f.push((format!("invalid-list-accepted|{r}"), format!("write_blocks returned Ok for a list that breaks '{r}': [{}] → {} bytes", blocks.iter().map(kind).collect::<Vec<_>>().join(","), bytes.len())));
    }
    // ---- header walk and size accounting
    match walk(&bytes) {
        Err(e) => f.push(("size|header-walk".to_string(), format!("written section is not a well-formed block chain: {e}"))),
        Ok(hs) => {
            if hs.len() != blocks.len() {
                f.push(("size|header-walk".to_string(), format!("{} blocks written for a list of {}", hs.len(), blocks.len())));
            }
            for (i, (b, h)) in blocks.iter().zip(&hs).enumerate() {
                if h.0 != type_code(b) || h.1 != (i + 1 == blocks.len()) {
                    f.push(("size|header-type-or-last-flag".to_string(), format!("block {i} ({}) has header type {} last {}", kind(b), h.0, h.1)));
                }
                let m = model_size(b);
                if h.2 as u64 != m {
                    f.push((format!("size|header-length|{}", kind(b)), format!("block {i} ({}): header length field {} but the fields occupy {m} bytes", kind(b), h.2)));
                }
                steps += 1;
                match guarded(|| sizes(b)) {
                    Err(p) => f.push((format!("size|bytes()-panic@{}", panic_loc(&p)), format!("{}::bytes() panics: {p}", kind(b)))),
                    Ok((by, tot)) => {
                        let want_tot = if h.2 as u64 + 4 <= MAX { Some(h.2 as u32 + 4) } else { None };
                        if by != Some(h.2 as u32) {
                            f.push((format!("size|bytes()|{}", kind(b)), format!("block {i} ({}): bytes() = {by:?}, {} body bytes were written", kind(b), h.2)));
                        }
                        if tot != want_tot {
                            f.push((format!("size|total_size()|{}", kind(b)), format!("block {i} ({}): total_size() = {tot:?}, header + body = {}", kind(b), h.2 + 4)));
                        }
                    }
                }
            }
            if blocks.len() == 2 && hs.len() == 2 && bytes.len() != 4 + 4 + 34 + 4 + hs[1].2 {
                f.push(("size|measured-length".to_string(), format!("section is {} bytes, header says {}", bytes.len(), hs[1].2)));
            }
        }
    }
    // ---- read paths
    // Format aliases: an all-zero MD5 *is* "no MD5" and sample number 2^64-1 *is* a placeholder in the FLAC format,
    // so those written values are expected to read back in their canonical form (not a round-trip defect).
    let canon_blocks = canon(blocks);
    let blocks: &[Block] = &canon_blocks;
    let want = refs(blocks);
    steps += 1;
    let reread: Option<BlockList> = match guarded(|| BlockList::read(&bytes[..])) {
        Err(p) => {
            f.push((format!("reader-panic|panic@{}", panic_loc(&p)), format!("BlockList::read panics on the writer's output: {p}")));
            None
        }
        Ok(Err(e)) => {
            f.push((format!("reader-rejects-writer-output|{}", err_name(&e)), format!("write_blocks returned Ok ([{}], {} bytes) but BlockList::read fails: {e:?}", blocks.iter().map(kind).collect::<Vec<_>>().join(","), bytes.len())));
            None
        }
        Ok(Ok(l)) => {
            let got: Vec<BlockRef<'_>> = l.blocks().collect();
            if got != want {
                let (class, text) = diff_class(&want, &got);
                f.push((format!("roundtrip|{class}"), format!("BlockList::read of the written section differs: {text}")));
            }
            Some(l)
        }
    };
    steps += 1;
    match guarded(|| read_blocks(&bytes[..]).collect::<Result<Vec<Block>, _>>()) {
        Err(p) => f.push((format!("reader-panic|panic@{}", panic_loc(&p)), format!("read_blocks panics on the writer's output: {p}"))),
        Ok(Err(e)) => f.push((format!("reader-rejects-writer-output|{}", err_name(&e)), format!("read_blocks fails: {e:?}"))),
        Ok(Ok(v)) => {
            if refs(&v) != want {
                let (class, text) = diff_class(&want, &refs(&v));
                f.push((format!("roundtrip|{class}"), format!("read_blocks differs: {text}")));
            }
        }
    }
    steps += 1;
    match guarded(|| read_info(&bytes[..])) {
        Err(p) => f.push((format!("reader-panic|panic@{}", panic_loc(&p)), format!("read_info panics on the writer's output: {p}"))),
        Ok(Err(e)) => f.push((format!("reader-rejects-writer-output|{}", err_name(&e)), format!("read_info fails: {e:?}"))),
        Ok(Ok(si)) => {
            let got = Block::Streaminfo(si);
            if Some(&got) != blocks.first() {
                let field = diff_field(&format!("{:?}", blocks.first().unwrap()), &format!("{got:?}"));
                f.push((format!("roundtrip|STREAMINFO|{field}"), format!("read_info returns {} for {}", short(&got), short(&blocks.first()))));
            }
        }
    }
    let small = bytes.len() <= 100_000;
    let has = |t: BlockType| small || blocks.iter().any(|b| b.block_type() == t);
    if has(BlockType::Streaminfo) {
        steps += 1;
        rb::<Streaminfo>(&bytes, blocks, &mut f);
    }
    if has(BlockType::Padding) {
        steps += 1;
        rb::<Padding>(&bytes, blocks, &mut f);
    }
    if has(BlockType::Application) {
        steps += 1;
        rb::<Application>(&bytes, blocks, &mut f);
    }
    if has(BlockType::SeekTable) {
        steps += 1;
        rb::<SeekTable>(&bytes, blocks, &mut f);
    }
    if has(BlockType::VorbisComment) {
        steps += 1;
        rb::<VorbisComment>(&bytes, blocks, &mut f);
    }
    if has(BlockType::Cuesheet) {
        steps += 1;
        rb::<Cuesheet>(&bytes, blocks, &mut f);
    }
    if has(BlockType::Picture) {
        steps += 1;
        rb::<Picture>(&bytes, blocks, &mut f);
    }
    // ---- converse on the produced section: what the reader accepted is written again and re-read
    if let Some(l) = &reread {
        steps += 2;
        converse(l, "produced", &mut f);
    }
    let f = merge(f);
    let label = if f.is_empty() { format!("{kinds}:ok") } else { format!("{kinds}:VIOLATION") };
    Out { label, findings: f, steps }
}

/// a list the reader accepted must be writable, and the result must read back to an equal list
fn converse(l: &BlockList, origin: &str, f: &mut Findings) {
    let want: Vec<BlockRef<'_>> = l.blocks().collect();
    let kinds = want.iter().skip(1).map(|b| format!("{}", b.block_type())).collect::<Vec<_>>().join("+");
    match guarded(|| {
        let mut v = Vec::new();
        write_blocks(&mut v, l.blocks()).map(|()| v)
    }) {
        Err(p) => f.push((format!("converse|{origin}|writer-panic@{}", panic_loc(&p)), format!("a list the reader accepted ({kinds}) makes write_blocks panic: {p}"))),
        Ok(Err(e)) => f.push((format!("converse|{origin}|accepted-list-not-writable|{}", err_name(&e)), format!("a list the reader accepted ({kinds}) is refused by write_blocks: {e:?}"))),
        Ok(Ok(b2)) => match guarded(|| BlockList::read(&b2[..])) {
            Err(p) => f.push((format!("converse|{origin}|reader-panic@{}", panic_loc(&p)), format!("re-reading the rewritten list panics: {p}"))),
            Ok(Err(e)) => f.push((format!("converse|{origin}|rewritten-list-rejected|{}", err_name(&e)), format!("a list the reader accepted ({kinds}) was written again ({} bytes) and is now rejected: {e:?}", b2.len()))),
            Ok(Ok(l2)) => {
                let got: Vec<BlockRef<'_>> = l2.blocks().collect();
                if got != want {
                    let (class, text) = diff_class(&want, &got);
                    f.push((format!("converse|{origin}|rewritten-list-differs|{class}"), format!("read→write→read changes the list: {text}")));
                }
            }
        },
    }
}

/// model of BlockList::insert: single-instance kinds replace the first block of that kind, the rest append
fn insert_model(list: &mut Vec<Block>, b: Block) {
    let single = matches!(b, Block::SeekTable(_) | Block::VorbisComment(_));
    if single {
        if let Some(x) = list.iter_mut().find(|x| x.block_type() == b.block_type()) {
            *x = b;
            return;
        }
    }
    list.push(b);
}
fn insert_real(l: &mut BlockList, b: Block) {
    match b {
        Block::Streaminfo(_) => {}
        Block::Padding(x) => {
            l.insert(x);
        }
        Block::Application(x) => {
            l.insert(x);
        }
        Block::SeekTable(x) => {
            l.insert(x);
        }
        Block::VorbisComment(x) => {
            l.insert(x);
        }
        Block::Cuesheet(x) => {
            l.insert(x);
        }
        Block::Picture(x) => {
            l.insert(x);
        }
    }
}

/// one case = a list of value specs; via "slice" | "blocklist"
fn run_specs(specs: &[Value], via: &str, lenient: bool) -> Out {
    let built = guarded(|| specs.iter().map(build).collect::<Vec<_>>());
    let built = match built {
        Err(p) => return Out { label: "ctor-panic".into(), findings: vec![(format!("ctor-panic|panic@{}", panic_loc(&p)), format!("a public constructor panics: {p}"))], steps: 1 },
        Ok(b) => b,
    };
    let mut blocks = Vec::new();
    for (s, b) in specs.iter().zip(built) {
        match b {
            Ok(b) => blocks.push(b),
            Err(why) => return Out { label: format!("{}:ctor-refused:{}", s["t"].as_str().unwrap_or("?"), why), findings: vec![], steps: 1 },
        }
    }
    if via == "blocklist" {
        let Some(Block::Streaminfo(si)) = blocks.first().cloned() else {
            return Out { label: "blocklist:needs-streaminfo".into(), findings: vec![], steps: 0 };
        };
        let mut model = vec![Block::Streaminfo(si.clone())];
        let r = guarded(|| {
            let mut l = BlockList::new(si);
            for b in blocks.iter().skip(1) {
                insert_real(&mut l, b.clone());
            }
            l
        });
        for b in blocks.iter().skip(1) {
            insert_model(&mut model, b.clone());
        }
        match r {
            Err(p) => Out { label: "blocklist:panic".into(), findings: vec![(format!("blocklist|panic@{}", panic_loc(&p)), format!("BlockList::insert panics: {p}"))], steps: 1 },
            Ok(l) => {
                let mut out = check(&model, Some(&l), lenient);
                if l.blocks().collect::<Vec<_>>() != refs(&model) {
                    out.findings.push(("blocklist|insert-semantics".into(), format!("BlockList after inserts holds {} instead of {}", short(&l.blocks().collect::<Vec<_>>()), short(&refs(&model)))));
                }
                // get::<T>() = first block of that type
                fn first<T: OptionalMetadataBlock + PartialEq + std::fmt::Debug>(l: &BlockList, model: &[Block], f: &mut Findings) {
                    let want: Option<T> = model.iter().find(|b| b.block_type() == T::TYPE).and_then(|b| T::try_from(b.clone()).ok());
                    if l.get::<T>() != want.as_ref() {
                        f.push((format!("blocklist|get|{}", T::TYPE), format!("BlockList::get::<{}>() returns {} instead of {}", T::TYPE, short(&l.get::<T>()), short(&want))));
                    }
                }
                first::<Padding>(&l, &model, &mut out.findings);
                first::<Application>(&l, &model, &mut out.findings);
                first::<SeekTable>(&l, &model, &mut out.findings);
                first::<VorbisComment>(&l, &model, &mut out.findings);
                first::<Cuesheet>(&l, &model, &mut out.findings);
                first::<Picture>(&l, &model, &mut out.findings);
                if l.streaminfo() != match &model[0] { Block::Streaminfo(s) => s, _ => unreachable!() } {
                    out.findings.push(("blocklist|streaminfo".into(), "BlockList::streaminfo() differs from the STREAMINFO it was built from".into()));
                }
                out.steps += 7;
                out
            }
        }
    } else {
        check(&blocks, None, lenient)
    }
}

fn exec(acc: &mut Acc, group: &str, specs: Vec<Value>, via: &str, lenient: bool) {
    let out = run_specs(&specs, via, lenient);
    acc.states += 1;
    acc.executions += 1;
    acc.transitions += out.steps;
    acc.dim(&format!("cases_{group}"), 1);
    if group != "si" && acc.dims.get(&format!("cases_{group}")) == Some(&1) && matches!(group, "pair" | "cue-cdda" | "cue-non" | "vc" | "pic" | "seek" | "invalid") {
        acc.sample(json!({"kind":"c11-list","blocks":specs,"via":via,"result":out.label}));
    }
    // triples would add 13³ kind combinations: keep the result class only
    let label = if group == "triple" { out.label.split_once(':').map(|x| x.1.to_string()).unwrap_or(out.label.clone()) } else { out.label.clone() };
    acc.outcome(format!("{group}:{label}"));
    if out.label.contains("REFUSED-VALID") {
        let n = format!("writer refused a list the model considers valid: {} ({})", out.label, serde_json::to_string(&specs).unwrap_or_default().chars().take(300).collect::<String>());
        if acc.notes.len() < 20 {
            acc.notes.push(n);
        }
    }
    for (clause, text) in out.findings {
        let short_specs: String = serde_json::to_string(&specs).unwrap_or_default().chars().take(700).collect();
        acc.violation(format!("C11|{clause}"), format!("{text} — values {short_specs} via {via}"), json!({"kind":"c11-list","blocks":specs,"via":via,"lenient":lenient}));
    }
}

// ---------------------------------------------------------------------------------------------
// enumerations

fn streaminfo_product(ctx: &Ctx, acc: &mut Acc) {
    let bs = [0u64, 16, 65535];
    let fs = [0u64, 1, (1 << 24) - 1]; // 0 = None
    let rates = [0u64, 1, (1 << 20) - 1];
    let totals = [0u64, 1, (1 << 36) - 1]; // 0 = None
    for minb in bs {
        for maxb in bs {
            for minf in fs {
                for maxf in fs {
                    for rate in rates {
                        for ch in 1..=8u64 {
                            for bps in 1..=32u64 {
                                for total in totals {
                                    for md5 in 0..2u64 {
                                        if !ctx.mine() {
                                            continue;
                                        }
                                        let s = json!({"t":"si","minb":minb,"maxb":maxb,"minf":minf,"maxf":maxf,"rate":rate,"ch":ch,"bps":bps,"total":total,"md5":md5});
                                        if acc.states % 20000 == 0 {
                                            acc.sample(json!({"kind":"c11-list","blocks":[s.clone()],"via":"slice"}));
                                        }
                                        exec(acc, "si", vec![s], "slice", false);
                                    }
                                }
                            }
                        }
                    }
                }
            }
        }
    }
    // the all-zero MD5 (a value the struct can hold)
    if ctx.mine() {
        let mut s = std_si();
        s["md5"] = json!(2);
        exec(acc, "si-md5-zero", vec![s], "slice", false);
    }
    // digests that contain zero bytes without being all zero
    for m in 3..=7u64 {
        if ctx.mine() {
            let mut s = std_si();
            s["md5"] = json!(m);
            exec(acc, "si-md5-zero-bytes", vec![s], "slice", false);
        }
    }
    // out-of-range literals: must be refused or round-trip, never panic
    for (field, val) in [("rate", 1u64 << 20), ("rate", u32::MAX as u64), ("minf", 1 << 24), ("maxf", u32::MAX as u64), ("ch", 9), ("ch", 255), ("total", 1 << 36), ("total", u64::MAX)] {
        if !ctx.mine() {
            continue;
        }
        let mut s = std_si();
        s[field] = json!(val);
        exec(acc, "si-out-of-range", vec![s], "slice", true);
    }
}

fn seek_alpha() -> Vec<Value> {
    vec![json!([0, 0, 0]), json!([1, 1, 1]), json!([1u64 << 36, 1u64 << 40, 65535]), json!([u64::MAX - 1, u64::MAX, 65535]), json!([u64::MAX, 7, 7]), Value::Null]
}
fn vc_entries() -> Vec<Value> {
    vec![json!(""), json!("TITLE=x"), json!("NOEQUALS"), json!("ÄÖ=ü€𝄞"), json!("="), json!("A=\u{0}b"), json!({"pre":"BIG=","fill":"é","n":32768})]
}

fn cue_specs() -> Vec<CueSpec> {
    let mut v = Vec::new();
    for cdda in [true, false] {
        let tracks: &[usize] = if cdda { &[1, 2, 99, 100] } else { &[1, 2, 254, 255] };
        let ks: &[usize] = if cdda { &[1, 2, 99, 100, 101] } else { &[1, 2, 255, 256, 257] };
        let cats: &[usize] = if cdda { &[0, 13] } else { &[0, 13, 128, 129] };
        for parse in [true, false] {
            for &t in tracks {
                for &k in ks {
                    for idx0 in [false, true] {
                        for &catalog in cats {
                            for isrc in 0..5 {
                                for pre in [false, true] {
                                    let nas: &[bool] = if parse { &[false] } else { &[false, true] };
                                    let lis: &[u64] = if parse || !cdda { &[88200] } else { &[0, 88200, u64::MAX] };
                                    for &non_audio in nas {
                                        for &lead_in in lis {
                                            v.push(CueSpec { parse, cdda, tracks: t, k, idx0, catalog, isrc, pre, non_audio, lead_in: if cdda { lead_in } else { 0 }, first: 0 });
                                        }
                                    }
                                }
                            }
                        }
                    }
                }
            }
        }
    }
    // constructor path: lists whose FIRST element breaks the ordering rules while the rest is correctly adjacent
    for cdda in [true, false] {
        for t in [1usize, 2, 3] {
            for k in [1usize, 2, 3] {
                for idx0 in [false, true] {
                    for first in 1..=3u8 {
                        v.push(CueSpec { parse: false, cdda, tracks: t, k, idx0, catalog: if cdda { 13 } else { 0 }, isrc: 1, pre: false, non_audio: false, lead_in: if cdda { 88200 } else { 0 }, first });
                    }
                }
            }
        }
    }
    v
}

fn singles(ctx: &Ctx, acc: &mut Acc) {
    let one = |ctx: &Ctx, acc: &mut Acc, group: &str, s: Value| {
        if ctx.mine() {
            exec(acc, group, vec![std_si(), s], "slice", false);
        }
    };
    for size in [0u64, 1, (1 << 24) - 1, 1 << 24] {
        one(ctx, acc, "pad", json!({"t":"pad","size":size}));
    }
    for id in [0u64, 0x72696666, u32::MAX as u64] {
        for len in [0u64, 1, (1 << 24) - 5, (1 << 24) - 4] {
            one(ctx, acc, "app", json!({"t":"app","id":id,"len":len}));
        }
    }
    crate::core::for_each_seq(&(0..6usize).collect::<Vec<_>>(), 0, 3, |seq| {
        let a = seek_alpha();
        one(ctx, acc, "seek", json!({"t":"seek","pts": seq.iter().map(|i| a[*i].clone()).collect::<Vec<_>>()}));
    });
    for (d, p) in [(932067u64, 0u64), (900000, 32067), (0, 932067), (932068, 0), (0, 932068)] {
        one(ctx, acc, "seek-max", json!({"t":"seekbig","defined":d,"placeholders":p}));
    }
    for vendor in [json!(""), json!("flac-codec 1.3.0"), json!("ベンダー✓ \u{1F3B5}")] {
        crate::core::for_each_seq(&(0..7usize).collect::<Vec<_>>(), 0, 3, |seq| {
            let e = vc_entries();
            one(ctx, acc, "vc", json!({"t":"vc","vendor":vendor.clone(),"fields": seq.iter().map(|i| e[*i].clone()).collect::<Vec<_>>()}));
        });
    }
    one(ctx, acc, "vc-oversize", json!({"t":"vc","vendor":"v","fields":[{"pre":"BIG=","fill":"x","n":1u64 << 24}]}));
    one(ctx, acc, "vc-oversize", json!({"t":"vc","vendor":{"pre":"","fill":"v","n":(1u64 << 24) - 8},"fields":[]}));
    one(ctx, acc, "vc-max", json!({"t":"vc","vendor":{"pre":"","fill":"v","n":(1u64 << 24) - 9},"fields":[]}));
    for ptype in 0..21u64 {
        for media in [json!(""), json!("image/png"), json!({"pre":"-->","fill":"m","n":300})] {
            for desc in [json!(""), json!("ü description €"), json!({"pre":"","fill":"д","n":32768})] {
                for (w, h, depth, colors) in [(0u64, 0u64, 0u64, 0u64), (u32::MAX as u64, u32::MAX as u64, u32::MAX as u64, u32::MAX as u64), (32, 32, 24, 1)] {
                    for len in [0u64, 1, 70000] {
                        one(ctx, acc, "pic", json!({"t":"pic","ptype":ptype,"media":media.clone(),"desc":desc.clone(),"w":w,"h":h,"depth":depth,"colors":colors,"len":len}));
                    }
                }
            }
        }
        for img in ["png", "png-palette", "jpeg", "gif"] {
            one(ctx, acc, "pic-new", json!({"t":"picnew","ptype":ptype,"img":img,"desc":"cover"}));
        }
    }
    for len in [(1u64 << 24) - 1 - 32, (1 << 24) - 32, 1 << 24] {
        one(ctx, acc, "pic-size-limit", json!({"t":"pic","ptype":3,"media":"","desc":"","w":1,"h":1,"depth":1,"colors":0,"len":len}));
    }
    for c in cue_specs() {
        let g = if c.cdda { "cue-cdda" } else { "cue-non" };
        if ctx.mine() {
            exec(acc, g, vec![std_si(), c.json()], "slice", false);
        }
    }
}

fn representatives() -> Vec<Value> {
    let cue = |cdda: bool| CueSpec { parse: false, cdda, tracks: 2, k: 2, idx0: true, catalog: 13, isrc: 1, pre: true, non_audio: false, lead_in: if cdda { 88200 } else { 0 }, first: 0 }.json();
    let pic = |t: u64| json!({"t":"pic","ptype":t,"media":"image/png","desc":"d","w":32,"h":32,"depth":24,"colors":0,"len":9});
    vec![
        json!({"t":"pad","size":0}),
        json!({"t":"pad","size":7}),
        json!({"t":"app","id":0x72696666u32,"len":0}),
        json!({"t":"app","id":1,"len":3}),
        json!({"t":"seek","pts":[]}),
        json!({"t":"seek","pts":[[0,0,16],[16,40,16],null]}),
        json!({"t":"vc","vendor":"flac-codec 1.3.0","fields":[]}),
        json!({"t":"vc","vendor":"","fields":["TITLE=ü","x"]}),
        cue(true),
        cue(false),
        pic(1),
        pic(2),
        pic(3),
    ]
}

fn pairs(ctx: &Ctx, acc: &mut Acc) {
    let reps = representatives();
    for a in &reps {
        for b in &reps {
            for via in ["slice", "blocklist"] {
                if !ctx.mine() {
                    continue;
                }
                exec(acc, "pair", vec![std_si(), a.clone(), b.clone()], via, false);
            }
        }
    }
}

fn triples(ctx: &Ctx, acc: &mut Acc) {
    let reps = representatives();
    for a in &reps {
        for b in &reps {
            for c in &reps {
                for via in ["slice", "blocklist"] {
                    if !ctx.mine() {
                        continue;
                    }
                    exec(acc, "triple", vec![std_si(), a.clone(), b.clone(), c.clone()], via, false);
                }
            }
        }
    }
}

fn invalid(ctx: &Ctx, acc: &mut Acc) {
    let pad = json!({"t":"pad","size":3});
    let seek = json!({"t":"seek","pts":[[0,0,16]]});
    let seek2 = json!({"t":"seek","pts":[]});
    let vc = json!({"t":"vc","vendor":"v","fields":["A=b"]});
    let vc2 = json!({"t":"vc","vendor":"w","fields":[]});
    let pic = |t: u64, l: u64| json!({"t":"pic","ptype":t,"media":"image/png","desc":"","w":32,"h":32,"depth":24,"colors":0,"len":l});
    let big_app = json!({"t":"app","id":1,"len":(1u64 << 24) - 4});
    let big_pic = pic(3, 1 << 24);
    let big_vc = json!({"t":"vc","vendor":"v","fields":[{"pre":"B=","fill":"x","n":1u64 << 24}]});
    let mut si2 = std_si();
    si2["rate"] = json!(48000);
    let lists: Vec<Vec<Value>> = vec![
        vec![],
        vec![pad.clone()],
        vec![vc.clone()],
        vec![pad.clone(), std_si()],
        vec![seek.clone(), std_si(), pad.clone()],
        vec![std_si(), std_si()],
        vec![std_si(), si2.clone()],
        vec![std_si(), pad.clone(), si2],
        vec![std_si(), seek.clone(), seek2.clone()],
        vec![std_si(), seek.clone(), pad.clone(), seek.clone()],
        vec![std_si(), vc.clone(), vc2.clone()],
        vec![std_si(), vc.clone(), pad.clone(), vc.clone()],
        vec![std_si(), pic(1, 4), pic(1, 5)],
        vec![std_si(), pic(1, 4), pic(3, 4), pic(1, 4)],
        vec![std_si(), pic(2, 4), pic(2, 5)],
        vec![std_si(), pic(2, 4), vc.clone(), pic(2, 4)],
        vec![std_si(), pic(1, 4), pic(2, 4), pic(3, 4), pic(3, 4)], // valid: one of each icon, covers repeat
        vec![std_si(), big_app.clone()],
        vec![std_si(), pad.clone(), big_app.clone()],
        vec![std_si(), big_app, pad.clone()],
        vec![std_si(), big_pic.clone()],
        vec![std_si(), vc.clone(), big_pic, pad.clone()],
        vec![std_si(), big_vc.clone()],
        vec![std_si(), pad.clone(), big_vc, seek],
    ];
    for l in lists {
        if ctx.mine() {
            exec(acc, "invalid", l, "slice", false);
        }
    }
}

// ---- converse over foreign bytes

fn converse_bases() -> Vec<(&'static str, Vec<Value>)> {
    let cue = |cdda: bool| CueSpec { parse: false, cdda, tracks: if cdda { 1 } else { 2 }, k: 2, idx0: true, catalog: 13, isrc: 1, pre: true, non_audio: true, lead_in: if cdda { 88200 } else { 0 }, first: 0 }.json();
    let pic = |t: u64| json!({"t":"pic","ptype":t,"media":"image/png","desc":"d","w":32,"h":32,"depth":24,"colors":2,"len":4});
    vec![
        ("si", vec![std_si()]),
        ("si+pad", vec![std_si(), json!({"t":"pad","size":3})]),
        ("si+app", vec![std_si(), json!({"t":"app","id":0x72696666u32,"len":3})]),
        ("si+seek", vec![std_si(), json!({"t":"seek","pts":[[0,0,16],[16,40,16],null]})]),
        ("si+vc", vec![std_si(), json!({"t":"vc","vendor":"v","fields":["A=b","ü=€"]})]),
        ("si+pic", vec![std_si(), pic(3)]),
        ("si+cue-cdda", vec![std_si(), cue(true)]),
        ("si+cue-non", vec![std_si(), cue(false)]),
        ("si+vc+pad+app", vec![std_si(), json!({"t":"vc","vendor":"","fields":["x"]}), json!({"t":"pad","size":2}), json!({"t":"app","id":7,"len":1})]),
        ("si+icons+seek", vec![std_si(), pic(1), pic(2), json!({"t":"seek","pts":[[5,5,5]]})]),
    ]
}

fn base_bytes(specs: &[Value]) -> Option<Vec<u8>> {
    let blocks: Vec<Block> = specs.iter().map(build).collect::<Result<_, _>>().ok()?;
    let mut v = Vec::new();
    guarded(|| write_blocks(&mut v, blocks.iter())).ok()?.ok()?;
    Some(v)
}

fn foreign_case(bytes: &[u8]) -> (String, Findings) {
    let mut f = Findings::new();
    let label = match guarded(|| BlockList::read(bytes)) {
        Err(p) => {
            // totality of the reader is C12's subject; recorded here as an outcome only
            format!("reader-panic@{}", panic_loc(&p))
        }
        Ok(Err(e)) => format!("rejected:{}", err_name(&e)),
        Ok(Ok(l)) => {
            converse(&l, "foreign", &mut f);
            if f.is_empty() { "accepted:rewritten-equal".to_string() } else { "accepted:VIOLATION".to_string() }
        }
    };
    // the block-by-block reader is a reader too: whatever sequence it accepts in full must be writable again as it is
    if let Ok(Ok(v)) = guarded(|| read_blocks(bytes).collect::<Result<Vec<Block>, _>>()) {
        let kinds = v.iter().skip(1).map(|b| format!("{}", b.block_type())).collect::<Vec<_>>().join("+");
        match guarded(|| {
            let mut out = Vec::new();
            write_blocks(&mut out, v.iter()).map(|()| out)
        }) {
            Err(p) => f.push((format!("converse|foreign|writer-panic@{}", panic_loc(&p)), format!("a sequence read_blocks accepted ({kinds}) makes write_blocks panic: {p}"))),
            Ok(Err(e)) => f.push((format!("converse|foreign|accepted-sequence-not-writable|{}", err_name(&e)), format!("a sequence read_blocks accepted ({kinds}) is refused by write_blocks: {e:?}"))),
            Ok(Ok(b2)) => match guarded(|| read_blocks(&b2[..]).collect::<Result<Vec<Block>, _>>()) {
                Ok(Ok(v2)) if v2 == v => {}
                Ok(Ok(_)) => f.push(("converse|foreign|rewritten-sequence-differs".to_string(), format!("read_blocks→write_blocks→read_blocks changes the sequence ({kinds})"))),
                Ok(Err(e)) => f.push((format!("converse|foreign|rewritten-sequence-rejected|{}", err_name(&e)), format!("a sequence read_blocks accepted ({kinds}) was written again and is now rejected: {e:?}"))),
                Err(p) => f.push((format!("converse|foreign|reader-panic@{}", panic_loc(&p)), format!("re-reading the rewritten sequence panics: {p}"))),
            },
        }
    }
    (label, f)
}

fn foreign(ctx: &Ctx, acc: &mut Acc) {
    for (name, specs) in converse_bases() {
        let Some(base) = base_bytes(&specs) else {
            if ctx.shard == 0 {
                acc.notes.push(format!("converse base '{name}' could not be written by the crate and was skipped"));
            }
            continue;
        };
        for i in 0..base.len() {
            for v in 0..=255u8 {
                if v == base[i] {
                    continue;
                }
                if !ctx.mine() {
                    continue;
                }
                let mut m = base.clone();
                m[i] = v;
                let (label, findings) = foreign_case(&m);
                acc.states += 1;
                acc.executions += 1;
                acc.transitions += 3;
                acc.dim("cases_converse_foreign", 1);
                acc.outcome(format!("converse:{label}"));
                for (clause, text) in findings {
                    acc.violation(format!("C11|{clause}"), format!("section '{name}' with byte {i} set to {v:#04x}: {text}"), json!({"kind":"c11-bytes","base":name,"pos":i,"value":v,"hex":hex(&m)}));
                }
            }
        }
        if ctx.thorough() {
            // every PAIR of positions set to each pair of values from {00, 01, 7F, 80, FF}
            for i in 0..base.len() {
                for j in i + 1..base.len() {
                    for (a, b) in [0x00u8, 0x01, 0x7F, 0x80, 0xFF].into_iter().flat_map(|a| [0x00u8, 0x01, 0x7F, 0x80, 0xFF].into_iter().map(move |b| (a, b))) {
                        if (a == base[i] && b == base[j]) || !ctx.mine() {
                            continue;
                        }
                        let mut m = base.clone();
                        m[i] = a;
                        m[j] = b;
                        let (label, findings) = foreign_case(&m);
                        acc.states += 1;
                        acc.executions += 1;
                        acc.transitions += 3;
                        acc.dim("cases_converse_foreign_pairs", 1);
                        acc.outcome(format!("converse2:{label}"));
                        for (clause, text) in findings {
                            acc.violation(format!("C11|{clause}"), format!("section '{name}' with bytes {i},{j} set to {a:#04x},{b:#04x}: {text}"), json!({"kind":"c11-bytes","base":name,"pos":i,"value":a,"hex":hex(&m)}));
                        }
                    }
                }
            }
        }
    }
}

/// Hand-assembled lists the crate's writer refuses to produce: every block kind duplicated (and STREAMINFO not first),
/// assembled from the crate-written single blocks — whatever the reader accepts here must be writable again.
fn duplicates(ctx: &Ctx, acc: &mut Acc) {
    if ctx.shard != 0 {
        return;
    }
    let split = |bytes: &[u8]| -> Vec<Vec<u8>> {
        let mut v = Vec::new();
        let mut p = 4;
        while p + 4 <= bytes.len() {
            let l = ((bytes[p + 1] as usize) << 16) | ((bytes[p + 2] as usize) << 8) | bytes[p + 3] as usize;
            if p + 4 + l > bytes.len() {
                break;
            }
            v.push(bytes[p..p + 4 + l].to_vec());
            p += 4 + l;
        }
        v
    };
    let cue = |cdda: bool| CueSpec { parse: false, cdda, tracks: if cdda { 1 } else { 2 }, k: 2, idx0: true, catalog: 13, isrc: 1, pre: true, non_audio: true, lead_in: if cdda { 88200 } else { 0 }, first: 0 }.json();
    let pic = |t: u64| json!({"t":"pic","ptype":t,"media":"image/png","desc":"d","w":32,"h":32,"depth":24,"colors":2,"len":4});
    let singles: Vec<(&str, Value)> = vec![
        ("si", std_si()),
        ("vc", json!({"t":"vc","vendor":"v","fields":["A=b"]})),
        ("seek", json!({"t":"seek","pts":[[0,0,16]]})),
        ("png-icon", pic(1)),
        ("general-icon", pic(2)),
        ("cover", pic(3)),
        ("app", json!({"t":"app","id":7,"len":1})),
        ("pad", json!({"t":"pad","size":2})),
        ("cue", cue(false)),
    ];
    let mut blocks: Vec<(&str, Vec<u8>)> = Vec::new();
    for (n, spec) in &singles {
        let list = if *n == "si" { vec![std_si()] } else { vec![std_si(), spec.clone()] };
        if let Some(b) = base_bytes(&list) {
            if let Some(last) = split(&b).pop() {
                blocks.push((n, last));
            }
        }
    }
    let assemble = |seq: &[&Vec<u8>]| -> Vec<u8> {
        let mut out = b"fLaC".to_vec();
        for (i, b) in seq.iter().enumerate() {
            let mut b = (*b).clone();
            b[0] = (b[0] & 0x7F) | if i + 1 == seq.len() { 0x80 } else { 0 };
            out.extend(b);
        }
        out
    };
    let si = blocks.iter().find(|b| b.0 == "si").map(|b| b.1.clone());
    let Some(si) = si else { return };
    let mut cases: Vec<(String, Vec<u8>)> = Vec::new();
    for (n, b) in &blocks {
        cases.push((format!("si+{n}+{n}"), assemble(&[&si, b, b])));
        cases.push((format!("{n}+si"), assemble(&[b, &si])));
        for (m, c) in &blocks {
            if m != n && *n != "si" && *m != "si" {
                cases.push((format!("si+{n}+{m}+{n}"), assemble(&[&si, b, c, b])));
            }
        }
    }
    for (name, bytes) in cases {
        let (label, findings) = foreign_case(&bytes);
        acc.states += 1;
        acc.executions += 1;
        acc.transitions += 3;
        acc.dim("cases_converse_duplicates", 1);
        acc.outcome(format!("converse-dup:{}:{label}", name.split('+').nth(1).unwrap_or("")));
        for (clause, text) in findings {
            acc.violation(format!("C11|{clause}"), format!("hand-assembled list '{name}': {text}"), json!({"kind":"c11-bytes","base":name,"pos":0,"value":0,"hex":hex(&bytes)}));
        }
    }
}

pub fn run(ctx: &Ctx, acc: &mut Acc) {
    duplicates(ctx, acc);
    let t = std::time::Instant::now();
    streaminfo_product(ctx, acc);
    acc.dim("cpu_ms_streaminfo", t.elapsed().as_millis() as u64);
    let t = std::time::Instant::now();
    singles(ctx, acc);
    acc.dim("cpu_ms_singles", t.elapsed().as_millis() as u64);
    let t = std::time::Instant::now();
    pairs(ctx, acc);
    if ctx.thorough() {
        triples(ctx, acc);
    }
    invalid(ctx, acc);
    acc.dim("cpu_ms_pairs_invalid", t.elapsed().as_millis() as u64);
    let t = std::time::Instant::now();
    foreign(ctx, acc);
    acc.dim("cpu_ms_converse_foreign", t.elapsed().as_millis() as u64);
}

pub fn replay(v: &Value) -> Option<(bool, String)> {
    let sig = v["signature"].as_str().unwrap_or("");
    let still = |f: &Findings| if sig.is_empty() { !f.is_empty() } else { f.iter().any(|(c, _)| format!("C11|{c}") == sig) };
    match v["kind"].as_str()? {
        "c11-list" => {
            let specs: Vec<Value> = v["blocks"].as_array()?.clone();
            let out = run_specs(&specs, v["via"].as_str().unwrap_or("slice"), v["lenient"].as_bool().unwrap_or(false));
            Some((still(&out.findings), format!("{}; findings: {:?}", out.label, out.findings)))
        }
        "c11-bytes" => {
            let bytes = unhex(v["hex"].as_str()?);
            let (label, f) = foreign_case(&bytes);
            Some((still(&f), format!("{label}; findings: {f:?}")))
        }
        _ => None,
    }
}
