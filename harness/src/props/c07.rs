//! C07 — exactly-once, in-order delivery under any consumption pattern and any source segmentation.
//! Shapes H × E: (1) BFS to a fixpoint over consumption histories on the non-seekable readers, over an
//! unsegmented, a 1-byte and a 7-byte source; (2) every single cut point (T: every pair on small files) of the
//! source × three drain scripts per front-end (+ the sample iterator), each followed by repeated post-EOF calls.
use crate::bfs::{self, Sys};
use crate::codec::pcm_bytes;
use crate::core::{Acc, Ctx};
use crate::corpus::{seek_file, TestFile};
use crate::readers::{model_for, open, ChunkedSource, Front, ReaderSys, FRONTS};
use flac_codec::decode::FlacSampleReader;
use serde_json::{json, Value};

pub const RULE: &str = "(1) per file and reader front-end: BFS to a fixpoint over ALL histories of {read(n), fill_buf, fill+consume(k)} on the real non-seekable reader (exact-state keys) over sources that return everything / 7 bytes / 1 byte per read; (2) per file: EVERY single cut point of the byte source and every pair of cut points on files ≤ 400 bytes (thorough ≤ 3000 bytes) × drain scripts {consume-all, 1 unit at a time, 7 units at a time} × 4 front-ends + sample iterator, each continued with 3 further calls of every kind after end-of-stream; oracle: concatenation == reference PCM exactly once (bytes in the front-end's byte order, per-channel slices de-interleaved), end-of-stream is sticky";
pub const ASSUMPTIONS: &[&str] = &["read sizes outside {1, w, w·ch−1, 16 frames, 100000} are not explored", "segmentations with more than 2 cut points are represented only by the fixed-chunk sources (1 and 7 bytes)"];
pub fn bounds(quick: bool) -> Value {
    if quick {
        json!({"files": "ch {1,2,8} × bps {8,16,24} × {no seek table, seek table} declared + 3 unknown-length", "cuts": "every single cut; every pair on files ≤ 400 bytes", "bfs_sources": ["whole", "7-byte", "1-byte"], "fixpoint": true})
    } else {
        json!({"files": "ch {1,2,3,8} × bps {8,12,16,24,32} × {no seek table, seek table} × declared/unknown", "cuts": "every single cut; every pair on files ≤ 400 bytes", "bfs_sources": ["whole", "7-byte", "1-byte"], "fixpoint": true})
    }
}

fn oplist(front: Front, f: &TestFile) -> Vec<String> {
    let ch = f.sig.ch as u64;
    let w = crate::codec::bytes_per_sample(f.sig.bps) as u64;
    let mut ops: Vec<String> = Vec::new();
    let mut push = |s: String| {
        if !ops.contains(&s) {
            ops.push(s)
        }
    };
    match front {
        Front::ByteLE | Front::ByteBE => {
            for n in [1, w, (w * ch).saturating_sub(1).max(1), 16 * w * ch, 100_000] {
                push(format!("read:{n}"));
            }
            push("fill".into());
            push("fc:1".into());
            push("fc:all".into());
        }
        Front::Sample => {
            for n in [1, ch, 16 * ch, 100_000] {
                push(format!("read:{n}"));
            }
            push("fill".into());
            push("fc:1".into());
            push("fc:all".into());
        }
        Front::Channel => {
            push("fill".into());
            push("fc:1".into());
            push("fc:7".into());
            push("fc:all".into());
        }
    }
    ops
}

fn files(quick: bool) -> Vec<(u8, u32, &'static str, bool)> {
    let mut v = Vec::new();
    if quick {
        for ch in [1u8, 2, 8] {
            for bps in [8u32, 16, 24] {
                v.push((ch, bps, "none", true));
                v.push((ch, bps, "every-frame", true));
            }
        }
        v.push((1, 16, "none", false));
        v.push((2, 24, "none", false));
        v.push((8, 8, "every-2nd", false));
        // a variable-blocksize stream (grammar-built: frames of 16, 24, 16, 40, 5 samples)
        v.push((2, 16, "fgen-variable-none", true));
        v.push((1, 24, "fgen-variable-every-frame", false));
        // 4-byte samples and depths that are not a whole number of bytes (byte width != bits/8), both byte orders
        for (ch, bps) in [(1u8, 32u32), (2, 32), (3, 20), (2, 31), (2, 12), (5, 4)] {
            v.push((ch, bps, "none", true));
        }
    } else {
        for ch in [1u8, 2, 3, 8] {
            for bps in [8u32, 12, 16, 24, 32] {
                for var in ["none", "every-frame"] {
                    for d in [true, false] {
                        v.push((ch, bps, var, d));
                    }
                }
            }
        }
    }
    v
}

fn scripts(front: Front) -> Vec<&'static str> {
    match front {
        Front::ByteLE | Front::ByteBE | Front::Sample => vec!["fc:all", "read:1", "read:7"],
        Front::Channel => vec!["fc:all", "fc:1", "fc:7"],
    }
}

/// Drain with one op until EOF, then call every op 3 more times. Returns first violation.
fn drain(f: &TestFile, front: Front, cuts: &[usize], chunk: usize, script: &str, all_ops: &[String]) -> Result<u64, (Vec<String>, String, String)> {
    let refbytes = pcm_bytes(&f.pcm, f.sig.bps, front == Front::ByteBE);
    let src = ChunkedSource::new(&f.bytes, cuts.to_vec(), chunk);
    let rd = open(front, src, false).map_err(|e| (vec![], "open".to_string(), e))?;
    let empty: Vec<String> = vec![];
    let mut sys = ReaderSys { rd, m: model_for(front, f, &refbytes), oplist: &empty };
    let mut hist: Vec<String> = Vec::new();
    let mut steps = 0u64;
    let mut run = |sys: &mut ReaderSys<ChunkedSource>, op: &str, hist: &mut Vec<String>| -> Result<(), (Vec<String>, String, String)> {
        hist.push(op.to_string());
        match crate::core::guarded(|| sys.step(op)) {
            Ok(Ok(_)) => Ok(()),
            Ok(Err((c, d))) => Err((hist.clone(), c, d)),
            Err(p) => Err((hist.clone(), format!("panic@{}", crate::core::panic_loc(&p)), p)),
        }
    };
    let limit = f.pcm.len() * 4 + 64;
    while !sys.m.eof_seen {
        run(&mut sys, script, &mut hist)?;
        steps += 1;
        if steps as usize > limit {
            return Err((hist, "no-progress".into(), "reader never signals end of stream".into()));
        }
    }
    if sys.m.pos != Some(sys.m.len) {
        return Err((hist, "premature-end".into(), format!("end of stream at {:?} of {}", sys.m.pos, sys.m.len)));
    }
    for _ in 0..3 {
        for op in all_ops {
            run(&mut sys, op, &mut hist)?;
            steps += 1;
        }
    }
    Ok(steps)
}

fn drain_iter(f: &TestFile, cuts: &[usize], chunk: usize) -> Result<u64, (Vec<String>, String, String)> {
    let src = ChunkedSource::new(&f.bytes, cuts.to_vec(), chunk);
    let r = crate::core::guarded(|| -> Result<u64, (String, String)> {
        let rd = FlacSampleReader::new(src).map_err(|e| ("open".to_string(), format!("{e:?}")))?;
        let mut it = rd.into_iter();
        let mut got = Vec::new();
        loop {
            match it.next() {
                Some(Ok(s)) => got.push(s),
                Some(Err(e)) => return Err(("read-error".into(), format!("iterator error on a valid stream after {} samples: {e:?}", got.len()))),
                None => break,
            }
            if got.len() > f.pcm.len() + 64 {
                return Err(("data-after-end".into(), "iterator yields more samples than the stream holds".into()));
            }
        }
        if got != f.pcm {
            return Err(("wrong-data".into(), format!("iterator delivered {} samples, reference {}", got.len(), f.pcm.len())));
        }
        for _ in 0..3 {
            if let Some(x) = it.next() {
                return Err(("data-after-end".into(), format!("iterator yields {x:?} after None")));
            }
        }
        Ok(got.len() as u64 + 3)
    });
    match r {
        Ok(Ok(n)) => Ok(n),
        Ok(Err((c, d))) => Err((vec!["next*".into()], c, d)),
        Err(p) => Err((vec!["next*".into()], format!("panic@{}", crate::core::panic_loc(&p)), p)),
    }
}

fn spec(ch: u8, bps: u32, var: &str, decl: bool) -> Value {
    json!({"ch":ch,"bps":bps,"variant":var,"declared":decl,"nfull":2,"tail":5})
}

pub fn run(ctx: &Ctx, acc: &mut Acc) {
    for (ch, bps, var, decl) in files(ctx.quick) {
        let f = seek_file(ch, bps, var, decl, 2, 5);
        let sp = spec(ch, bps, var, decl);
        // (1) BFS over consumption histories
        for front in FRONTS {
            for chunk in [0usize, 7, 1] {
                if !ctx.mine() {
                    continue;
                }
                let refbytes = pcm_bytes(&f.pcm, f.sig.bps, front == Front::ByteBE);
                let ops = oplist(front, &f);
                let rd = match open(front, ChunkedSource::new(&f.bytes, vec![], chunk), false) {
                    Ok(r) => r,
                    Err(e) => {
                        acc.violation(format!("C07|{front:?}|open"), format!("cannot open valid file {}: {e}", f.desc), json!({"kind":"consume-history","file":sp,"front":format!("{front:?}"),"cuts":[],"chunk":chunk,"ops":[]}));
                        continue;
                    }
                };
                let sys = ReaderSys { rd, m: model_for(front, &f, &refbytes), oplist: &ops };
                let mut viols = Vec::new();
                let mut labels = Vec::new();
                let st = bfs::explore(sys, 60_000, |op, l| labels.push(format!("{front:?}:{}:{l}", op.split(':').next().unwrap_or(op))), |h, c, d| viols.push((h, c, d)));
                for l in labels {
                    acc.outcome(l);
                }
                acc.states += st.states;
                acc.transitions += st.transitions;
                acc.executions += 1;
                acc.dim("bfs_runs", 1);
                if st.capped {
                    acc.caps.push(format!("state cap hit on {} {front:?}", f.desc));
                }
                if acc.samples.len() < 2 {
                    acc.sample(json!({"file": f.desc, "front": format!("{front:?}"), "source_chunk": chunk, "ops": ops, "states": st.states, "transitions": st.transitions}));
                }
                for (h, c, d) in viols {
                    let opk = h.last().map(|o| o.split(':').next().unwrap_or("").to_string()).unwrap_or_default();
                    acc.violation(format!("C07|{front:?}|{opk}|{c}"), format!("{front:?} on {} (source chunk {chunk}): history {h:?}: {c}: {d}", f.desc), json!({"kind":"consume-history","file":sp,"front":format!("{front:?}"),"cuts":[],"chunk":chunk,"ops":h}));
                }
            }
        }
        // (2) segmentations × drain scripts
        let n = f.bytes.len();
        let mut cutsets: Vec<Vec<usize>> = (1..n).map(|c| vec![c]).collect();
        if n <= (if ctx.quick { 400 } else { 3000 }) {
            for a in 1..n {
                for b in a + 1..n {
                    cutsets.push(vec![a, b]);
                }
            }
        }
        for cuts in &cutsets {
            if !ctx.mine() {
                continue;
            }
            acc.states += 1;
            acc.dim(if cuts.len() == 1 { "single_cuts" } else { "cut_pairs" }, 1);
            for front in FRONTS {
                let ops = oplist(front, &f);
                let scr = scripts(front);
                let scr: &[&str] = if cuts.len() == 2 { &scr[..1] } else { &scr };
                for s in scr {
                    acc.executions += 1;
                    match drain(&f, front, cuts, 0, s, &ops) {
                        Ok(k) => {
                            acc.transitions += k;
                            acc.outcome(format!("drain:{front:?}:{s}:ok"));
                        }
                        Err((h, c, d)) => {
                            let short: Vec<String> = h.iter().rev().take(6).rev().cloned().collect();
                            acc.violation(format!("C07|{front:?}|drain|{c}"), format!("{front:?} on {} with source cut at {cuts:?}, script {s}: {c}: {d} (last ops {short:?})", f.desc), json!({"kind":"consume-history","file":sp,"front":format!("{front:?}"),"cuts":cuts,"chunk":0,"ops":h}));
                        }
                    }
                }
            }
            acc.executions += 1;
            match drain_iter(&f, cuts, 0) {
                Ok(k) => {
                    acc.transitions += k;
                    acc.outcome("drain:SampleIter:ok");
                }
                Err((_, c, d)) => acc.violation(format!("C07|SampleIter|drain|{c}"), format!("sample iterator on {} with source cut at {cuts:?}: {c}: {d}", f.desc), json!({"kind":"consume-iter","file":sp,"cuts":cuts,"chunk":0})),
            }
        }
        for chunk in [1usize, 7] {
            if ctx.mine() {
                acc.executions += 1;
                match drain_iter(&f, &[], chunk) {
                    Ok(k) => acc.transitions += k,
                    Err((_, c, d)) => acc.violation(format!("C07|SampleIter|drain|{c}"), format!("sample iterator on {} with {chunk}-byte source: {c}: {d}", f.desc), json!({"kind":"consume-iter","file":sp,"cuts":[],"chunk":chunk})),
                }
            }
        }
    }
}

pub fn replay(v: &Value) -> Option<(bool, String)> {
    let s = &v["file"];
    let f = seek_file(s["ch"].as_u64()? as u8, s["bps"].as_u64()? as u32, s["variant"].as_str()?, s["declared"].as_bool()?, s["nfull"].as_u64()? as usize, s["tail"].as_u64()? as usize);
    let cuts: Vec<usize> = v["cuts"].as_array()?.iter().map(|x| x.as_u64().unwrap_or(0) as usize).collect();
    let chunk = v["chunk"].as_u64().unwrap_or(0) as usize;
    if v["kind"] == "consume-iter" {
        return Some(match drain_iter(&f, &cuts, chunk) {
            Ok(n) => (false, format!("iterator ok, {n} calls")),
            Err((_, c, d)) => (true, format!("{c}: {d}")),
        });
    }
    if v["kind"] != "consume-history" {
        return None;
    }
    let front = super::c06::front_from(v["front"].as_str()?);
    let refbytes = pcm_bytes(&f.pcm, f.sig.bps, front == Front::ByteBE);
    let ops: Vec<String> = v["ops"].as_array()?.iter().map(|o| o.as_str().unwrap_or("").to_string()).collect();
    let rd = match open(front, ChunkedSource::new(&f.bytes, cuts, chunk), false) {
        Ok(r) => r,
        Err(e) => return Some((true, e)),
    };
    let empty: Vec<String> = vec![];
    let sys = ReaderSys { rd, m: model_for(front, &f, &refbytes), oplist: &empty };
    let (viol, labels) = bfs::replay(sys, &ops);
    let tail: Vec<String> = labels.iter().rev().take(12).rev().cloned().collect();
    Some((viol.is_some(), tail.join("\n")))
}
