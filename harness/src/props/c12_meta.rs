//! C12 (a) + (c) — totality of metadata reading, of every accessor on whatever parsed, and of the image sniffers.
//!
//! (a) 21 hand-serialised valid metadata sections (one per block-type combination, ≤ 600 bytes, written here
//!     byte by byte so that they do not depend on the crate's writer) ×
//!       · the unmodified section,
//!       · EVERY single-byte substitution (all 255 other values at every position),
//!       · EVERY truncation point (prefix lengths 0..len-1),
//!       · every block-length field forced to {0, 1, actual-1, actual+1, 2^24-1},
//!       · thorough tier: EVERY pair of substitutions at two distinct "prefix positions" (block-header bytes,
//!         vorbis-comment length/count fields, picture type/string/data length fields, cue-sheet track and index
//!         counts): all 255 × 255 value pairs for every unordered position pair (≈ 344 million inputs).
//!     Entry points per input: BlockList::read, read_blocks(..).collect, read_info, read_block::<T> for all 7 T
//!     (the pair tier runs BlockList::read + read_blocks + accessors only).  On everything that parses every accessor
//!     is called: the 8 `Metadata` trait methods (on the BlockList and on the Streaminfo from read_info) and the 10
//!     cue-sheet accessors on every CUESHEET block that any entry point returned.
//! (c) Picture::new(Other, "", data) over minimal PNG (5 colour types, palette with/without PLTE, PLTE behind another
//!     chunk, odd PLTE length), JPEG (each of the 13 SOF markers, directly and behind skipped segments), GIF87a/89a
//!     × every single-byte substitution × every truncation, plus ALL byte strings of length ≤ 2 (thorough: ≤ 3)
//!     appended to each magic prefix.
//!
//! Oracle: every call returns (Ok or Err) — no panic (both build profiles; the shard's profile is recorded by the
//! driver), terminates (driver watchdog), and the peak heap of one case stays ≤ 64 MiB + 16 × input length.
//! Justification of the bound: every variable-length field is read by bitstream-io's `read_to_vec` in 4 KiB chunks, so
//! such allocations are bounded by the bytes actually present (Vec doubling ≤ 2×, our own copies and the ten entry
//! points' results stay far below 16×); the only allocation driven by a *declared* size is SEEKTABLE's
//! `Contiguous::with_capacity(size / 18)`, at most 932067 points × 24 B ≈ 21.3 MiB (mod.rs 2009-2013, 2662-2666),
//! which the 64 MiB constant covers with margin for two simultaneous results.
use crate::core::{alloc_mark, alloc_peak_since, guarded, hex, panic_loc, unhex, Acc, Ctx};
use flac_codec::metadata::{
    read_block, read_blocks, read_info, Application, Block, BlockList, Cuesheet, Metadata, Padding, Picture, PictureType, SeekTable, Streaminfo, VorbisComment,
};
use serde_json::{json, Value};
use std::hint::black_box;

const ALLOC_BASE: usize = 64 << 20;
fn alloc_bound(len: usize) -> usize {
    ALLOC_BASE + 16 * len
}

// ---------------------------------------------------------------------------------------------
// hand serialisers (independent of the crate)

pub(crate) fn be(n: u64, bytes: usize) -> Vec<u8> {
    (0..bytes).rev().map(|i| (n >> (8 * i)) as u8).collect()
}
fn le32(n: u32) -> [u8; 4] {
    n.to_le_bytes()
}

/// "fLaC" + blocks; the last flag is set on the final block only
pub(crate) fn section(blocks: &[(u8, Vec<u8>)]) -> Vec<u8> {
    let mut v = b"fLaC".to_vec();
    for (i, (ty, body)) in blocks.iter().enumerate() {
        v.push(*ty | if i + 1 == blocks.len() { 0x80 } else { 0 });
        v.extend(be(body.len() as u64, 3));
        v.extend_from_slice(body);
    }
    v
}

#[allow(clippy::too_many_arguments)]
pub(crate) fn si_body(minb: u16, maxb: u16, minf: u32, maxf: u32, rate: u32, ch: u8, bps: u8, total: u64, md5: [u8; 16]) -> Vec<u8> {
    let mut v = Vec::with_capacity(34);
    v.extend(be(minb as u64, 2));
    v.extend(be(maxb as u64, 2));
    v.extend(be(minf as u64, 3));
    v.extend(be(maxf as u64, 3));
    let packed: u64 = ((rate as u64) << 44) | (((ch - 1) as u64) << 41) | (((bps - 1) as u64) << 36) | total;
    v.extend(be(packed, 8));
    v.extend(md5);
    v
}
fn si_std() -> (u8, Vec<u8>) {
    (0, si_body(4096, 4096, 14, 9000, 44100, 2, 16, 441000, *b"0123456789abcdef"))
}
fn seek_body(points: &[Option<(u64, u64, u16)>]) -> Vec<u8> {
    let mut v = Vec::new();
    for p in points {
        let (a, b, c) = p.unwrap_or((u64::MAX, 0, 0));
        v.extend(be(a, 8));
        v.extend(be(b, 8));
        v.extend(be(c as u64, 2));
    }
    v
}
fn vc_body(vendor: &str, fields: &[&str]) -> Vec<u8> {
    let mut v = Vec::new();
    v.extend(le32(vendor.len() as u32));
    v.extend(vendor.as_bytes());
    v.extend(le32(fields.len() as u32));
    for f in fields {
        v.extend(le32(f.len() as u32));
        v.extend(f.as_bytes());
    }
    v
}
#[allow(clippy::too_many_arguments)]
fn pic_body(ptype: u32, mime: &str, desc: &str, w: u32, h: u32, depth: u32, colors: u32, data: &[u8]) -> Vec<u8> {
    let mut v = Vec::new();
    v.extend(be(ptype as u64, 4));
    v.extend(be(mime.len() as u64, 4));
    v.extend(mime.as_bytes());
    v.extend(be(desc.len() as u64, 4));
    v.extend(desc.as_bytes());
    for x in [w, h, depth, colors] {
        v.extend(be(x as u64, 4));
    }
    v.extend(be(data.len() as u64, 4));
    v.extend(data);
    v
}
struct CueTrack {
    offset: u64,
    number: u8,
    isrc: [u8; 12],
    flags: u8, // 0x80 non-audio, 0x40 pre-emphasis
    idx: Vec<(u64, u8)>,
}
fn cue_body(catalog: &[u8], lead_in: u64, cdda: bool, tracks: &[CueTrack], lead_out: u64) -> Vec<u8> {
    let mut v = vec![0u8; 128];
    v[..catalog.len()].copy_from_slice(catalog);
    v.extend(be(lead_in, 8));
    v.push(if cdda { 0x80 } else { 0 });
    v.extend([0u8; 258]);
    v.push(tracks.len() as u8 + 1);
    for t in tracks {
        v.extend(be(t.offset, 8));
        v.push(t.number);
        v.extend(t.isrc);
        v.push(t.flags);
        v.extend([0u8; 13]);
        v.push(t.idx.len() as u8);
        for (o, n) in &t.idx {
            v.extend(be(*o, 8));
            v.push(*n);
            v.extend([0u8; 3]);
        }
    }
    v.extend(be(lead_out, 8));
    v.push(if cdda { 170 } else { 255 });
    v.extend([0u8; 12]);
    v.extend([0u8; 14]);
    v.push(0);
    v
}

const S: u64 = 588;
const ISRC: [u8; 12] = *b"AA6Q72000047";

fn bases() -> Vec<(&'static str, Vec<u8>)> {
    let pad = |n: usize| (1u8, vec![0u8; n]);
    let app = |id: &[u8; 4], d: &[u8]| (2u8, [&id[..], d].concat());
    let seek = (3u8, seek_body(&[Some((0, 0, 4096)), Some((4096, 1234, 4096)), None]));
    let vc = (4u8, vc_body("vendor é", &["TITLE=x", "WAVEFORMATEXTENSIBLE_CHANNEL_MASK=0x0003", "noequals"]));
    let pic = |t: u32| (6u8, pic_body(t, "image/png", "dé", 32, 32, 24, 0, &[0x89, b'P', b'N', b'G', 1, 2, 3]));
    let cue_cdda = (
        5u8,
        cue_body(
            b"1234567890123",
            88200,
            true,
            &[
                CueTrack { offset: 0, number: 1, isrc: ISRC, flags: 0x40, idx: vec![(0, 1)] },
                CueTrack { offset: 1000 * S, number: 2, isrc: [0; 12], flags: 0x80, idx: vec![(0, 0), (150 * S, 1), (300 * S, 2)] },
            ],
            5000 * S,
        ),
    );
    let cue_non = (
        5u8,
        cue_body(
            b"42",
            0,
            false,
            &[
                CueTrack { offset: 0, number: 1, isrc: [0; 12], flags: 0, idx: vec![(0, 0), (7, 1)] },
                CueTrack { offset: 1001, number: 2, isrc: ISRC, flags: 0xC0, idx: vec![(0, 1), (13, 2)] },
            ],
            99_999,
        ),
    );
    // extremes: offsets whose sums leave u64
    let m588 = (u64::MAX / S) * S;
    let cue_cdda_x = (
        5u8,
        cue_body(
            b"",
            u64::MAX,
            true,
            &[
                CueTrack { offset: 0, number: 1, isrc: [0; 12], flags: 0, idx: vec![(0, 1)] },
                CueTrack { offset: m588, number: 2, isrc: [0; 12], flags: 0, idx: vec![(0, 0), (S, 1)] },
            ],
            m588,
        ),
    );
    let cue_non_x = (
        5u8,
        cue_body(
            &[b'9'; 128],
            0,
            false,
            &[
                CueTrack { offset: 0, number: 1, isrc: [0; 12], flags: 0, idx: vec![(0, 1)] },
                CueTrack { offset: u64::MAX - 1, number: 2, isrc: [0; 12], flags: 0, idx: vec![(0, 0), (5, 1)] },
            ],
            u64::MAX,
        ),
    );
    // only a LATER index point pushes track offset + index offset past 2^64 (INDEX 01 itself still fits)
    let cue_non_late = (
        5u8,
        cue_body(
            &[b'1'; 10],
            0,
            false,
            &[
                CueTrack { offset: 0, number: 1, isrc: [0; 12], flags: 0, idx: vec![(0, 1)] },
                CueTrack { offset: u64::MAX - 5, number: 2, isrc: [0; 12], flags: 0, idx: vec![(0, 1), (3, 2), (10, 3)] },
            ],
            u64::MAX,
        ),
    );
    let top = (u64::MAX / S) * S;
    let cue_cdda_late = (
        5u8,
        cue_body(
            b"1234567890123",
            88200,
            true,
            &[
                CueTrack { offset: 0, number: 1, isrc: ISRC, flags: 0, idx: vec![(0, 1)] },
                CueTrack { offset: top - S, number: 2, isrc: [0; 12], flags: 0x40, idx: vec![(0, 0), (S, 1), (2 * S, 2)] },
            ],
            top,
        ),
    );
    let si_rate0 = (0u8, si_body(16, 16, 0, 0, 0, 1, 8, 1000, [0; 16]));
    let si_max = (0u8, si_body(65535, 65535, 0xFF_FFFF, 0xFF_FFFF, 0xF_FFFF, 8, 32, (1 << 36) - 1, [0xFF; 16]));
    let si_min = (0u8, si_body(0, 0, 0, 0, 1, 1, 1, 0, [0; 16]));
    let mut with_frames = section(&[si_std()]);
    with_frames.extend([0xFF, 0xF8, 0xC9, 0x18, 0x00, 0xC2, 0x00, 0x00, 0x12, 0x34, 0x56, 0x78]);
    let v = vec![
        ("si", section(&[si_std()])),
        ("si0+pad", section(&[si_rate0.clone(), pad(5)])),
        ("si+app", section(&[si_std(), app(b"riff", &[1, 2, 3, 4, 5])])),
        ("si+seek", section(&[si_std(), seek.clone()])),
        ("si+vc", section(&[si_std(), vc.clone()])),
        ("si+cue-cdda", section(&[si_std(), cue_cdda])),
        ("si+cue-non", section(&[si_std(), cue_non])),
        ("si+pic", section(&[si_std(), pic(3)])),
        ("si+vc+pad", section(&[si_std(), vc.clone(), pad(9)])),
        ("si+seek+vc", section(&[si_std(), seek.clone(), (4u8, vc_body("", &[]))])),
        ("si+app+app", section(&[si_std(), app(b"aiff", &[]), app(b"\0\0\x12\x34", &[9; 3])])),
        ("si+png-icon+icon", section(&[si_std(), pic(1), pic(2)])),
        ("si+vc+pic", section(&[si_std(), (4u8, vc_body("v", &["A=b"])), pic(20)])),
        ("si+seek+app+pad", section(&[si_std(), seek.clone(), app(b"test", &[7]), pad(0)])),
        ("si+cue-cdda-extreme", section(&[si_std(), cue_cdda_x])),
        ("si+cue-non-extreme", section(&[si_std(), cue_non_x])),
        ("si+cue-non-late-overflow", section(&[si_std(), cue_non_late])),
        ("si+cue-cdda-late-overflow", section(&[si_std(), cue_cdda_late])),
        ("si-max", section(&[si_max])),
        ("si-min+vc-badmask", section(&[si_min, (4u8, vc_body("v", &["WAVEFORMATEXTENSIBLE_CHANNEL_MASK=zz", "waveformatextensible_channel_mask=0xFFFFFFFF"]))])),
        ("si+pad+pad", section(&[si_std(), pad(3), pad(2)])),
        ("si+frames", with_frames),
        ("si+vc+app+seek+pic", section(&[si_std(), (4u8, vc_body("x", &["K=v", "ü=€"])), app(b"abcd", &[1]), seek, pic(0)])),
    ];
    let mut v = v;
    // channel-mask values of every short / odd shape: the accessor parses the raw comment text
    for (i, m) in ["", "0", "x", "3", "0x", "0X3", "0xé", "é", "0x100000000", "-1", " 0x3", "0x 3"].iter().enumerate() {
        v.push((Box::leak(format!("si+vc-mask{i}").into_boxed_str()) as &str, section(&[si_std(), (4u8, vc_body("v", &[&format!("WAVEFORMATEXTENSIBLE_CHANNEL_MASK={m}")]))])));
    }
    for (n, s) in &v {
        assert!(s.len() <= 600, "base {n} is {} bytes", s.len());
    }
    v
}

/// positions of header bytes and length prefixes, and the (offset, actual length) of every block header
fn prefix_positions(sec: &[u8]) -> (Vec<usize>, Vec<(usize, u32)>) {
    let mut pos: Vec<usize> = Vec::new();
    let mut hdrs = Vec::new();
    let rd = |p: usize, n: usize, le: bool| -> Option<usize> {
        let s = sec.get(p..p + n)?;
        Some(if le { s.iter().rev().fold(0usize, |a, b| (a << 8) | *b as usize) } else { s.iter().fold(0usize, |a, b| (a << 8) | *b as usize) })
    };
    let mut o = 4;
    while o + 4 <= sec.len() {
        let ty = sec[o] & 0x7f;
        let last = sec[o] & 0x80 != 0;
        let len = rd(o + 1, 3, false).unwrap();
        pos.extend(o..o + 4);
        hdrs.push((o, len as u32));
        let b = o + 4;
        (|| -> Option<()> {
            match ty {
                4 => {
                    let mut p = b;
                    let vl = rd(p, 4, true)?;
                    pos.extend(p..p + 4);
                    p += 4 + vl;
                    let n = rd(p, 4, true)?;
                    pos.extend(p..p + 4);
                    p += 4;
                    for _ in 0..n {
                        let l = rd(p, 4, true)?;
                        pos.extend(p..p + 4);
                        p += 4 + l;
                    }
                }
                5 => {
                    pos.push(b + 395);
                    let n = rd(b + 395, 1, false)?;
                    let mut p = b + 396;
                    for _ in 0..n {
                        pos.push(p + 35);
                        let k = rd(p + 35, 1, false)?;
                        p += 36 + 12 * k;
                    }
                }
                6 => {
                    pos.extend(b..b + 4);
                    let mut p = b + 4;
                    let ml = rd(p, 4, false)?;
                    pos.extend(p..p + 4);
                    p += 4 + ml;
                    let dl = rd(p, 4, false)?;
                    pos.extend(p..p + 4);
                    p += 4 + dl + 16;
                    rd(p, 4, false)?;
                    pos.extend(p..p + 4);
                }
                _ => {}
            }
            Some(())
        })();
        if last {
            break;
        }
        o = b + len;
    }
    pos.retain(|p| *p < sec.len());
    (pos, hdrs)
}

// ---------------------------------------------------------------------------------------------
// one metadata case

type Findings = Vec<(String, String)>;

fn err_name(e: &flac_codec::Error) -> String {
    match e {
        flac_codec::Error::Io(i) => format!("Io:{:?}", i.kind()),
        flac_codec::Error::Cuesheet(c) => format!("Cuesheet:{c:?}"),
        o => format!("{o:?}").split(['(', ' ', '{']).next().unwrap_or("?").to_string(),
    }
}

macro_rules! probe {
    ($f:expr, $who:expr, $name:literal, $e:expr) => {
        if let Err(p) = guarded(|| {
            black_box($e);
        }) {
            $f.push((format!("meta|accessor|panic@{}", panic_loc(&p)), format!("{}.{} panics: {p}", $who, $name)));
        }
    };
}

fn metadata_accessors<M: Metadata>(m: &M, who: &str, f: &mut Findings) -> u64 {
    probe!(f, who, "duration", m.duration());
    probe!(f, who, "decoded_len", m.decoded_len());
    probe!(f, who, "channel_mask", m.channel_mask());
    probe!(f, who, "channel_count", m.channel_count());
    probe!(f, who, "sample_rate", m.sample_rate());
    probe!(f, who, "bits_per_sample", m.bits_per_sample());
    probe!(f, who, "total_samples", m.total_samples());
    probe!(f, who, "md5", m.md5().copied());
    8
}

fn cue_accessors(c: &Cuesheet, f: &mut Findings) -> u64 {
    let who = if c.is_cdda() { "Cuesheet[CDDA]" } else { "Cuesheet[NonCDDA]" };
    probe!(f, who, "track_count", c.track_count());
    probe!(f, who, "tracks", c.tracks().count());
    probe!(f, who, "track_sample_ranges", c.track_sample_ranges().map(|r| r.start ^ r.end).fold(0, |a, b| a ^ b));
    probe!(f, who, "track_byte_ranges(1,8)", c.track_byte_ranges(1, 8).map(|r| r.start ^ r.end).fold(0, |a, b| a ^ b));
    probe!(f, who, "track_byte_ranges(2,16)", c.track_byte_ranges(2, 16).map(|r| r.start ^ r.end).fold(0, |a, b| a ^ b));
    probe!(f, who, "track_byte_ranges(8,32)", c.track_byte_ranges(8, 32).map(|r| r.start ^ r.end).fold(0, |a, b| a ^ b));
    probe!(f, who, "display", c.display("f").to_string());
    probe!(f, who, "catalog_number", c.catalog_number().to_string());
    probe!(f, who, "lead_in_samples", c.lead_in_samples());
    probe!(f, who, "is_cdda", c.is_cdda());
    10
}

/// one finding per signature clause (= per root cause); the texts of all callers that hit it are joined
fn merge(mut f: Findings) -> Findings {
    f.sort();
    f.dedup();
    let mut out: Findings = Vec::new();
    for (c, t) in f {
        match out.last_mut() {
            Some((lc, lt)) if *lc == c => {
                lt.push_str("; ");
                lt.push_str(&t);
            }
            _ => out.push((c, t)),
        }
    }
    out
}

struct CaseOut {
    label: String,
    findings: Findings,
    steps: u64,
}

fn entry<T>(f: &mut Findings, name: &str, r: Result<T, String>) -> Option<T> {
    match r {
        Ok(v) => Some(v),
        Err(p) => {
            f.push((format!("meta|read|panic@{}", panic_loc(&p)), format!("{name} panics: {p}")));
            None
        }
    }
}

fn meta_case(bytes: &[u8], full: bool) -> CaseOut {
    let mut f: Findings = Vec::new();
    let mut steps = 0u64;
    let mark = alloc_mark();
    // BlockList::read
    steps += 1;
    let list = entry(&mut f, "BlockList::read", guarded(|| BlockList::read(bytes)));
    let label = match &list {
        None => "panic".to_string(),
        Some(Ok(l)) => format!("ok:{}blocks", l.blocks().count().min(6)),
        Some(Err(e)) => format!("err:{}", err_name(e)),
    };
    if let Some(Ok(l)) = &list {
        steps += metadata_accessors(l, "BlockList", &mut f);
        for c in l.get_all::<Cuesheet>() {
            steps += cue_accessors(c, &mut f);
        }
    }
    // read_blocks: every item the iterator yields until it ends
    steps += 1;
    // (a byte string of n bytes cannot hold more than n/4 + 1 blocks: an iterator that yields more items than that, errors
    // included, has stopped making progress — reported here instead of letting the collect exhaust memory)
    let cap = bytes.len() / 4 + 8;
    let items = entry(&mut f, "read_blocks", guarded(|| read_blocks(bytes).take(cap + 1).collect::<Vec<Result<Block, flac_codec::Error>>>()));
    if let Some(items) = &items {
        if items.len() > cap {
            f.push(("meta|read_blocks|iterator-does-not-terminate".to_string(), format!("read_blocks over {} bytes is still yielding items after {} of them (last: {:?})", bytes.len(), cap, items.last().map(|i| i.as_ref().map(|_| "block").map_err(|e| format!("{e:?}"))))));
        }
        let in_list = matches!(&list, Some(Ok(_)));
        for it in items {
            if let Ok(Block::Cuesheet(c)) = it {
                if !in_list {
                    steps += cue_accessors(c, &mut f);
                }
            }
        }
    }
    if full {
        steps += 8;
        if let Some(Ok(si)) = entry(&mut f, "read_info", guarded(|| read_info(bytes))) {
            steps += metadata_accessors(&si, "Streaminfo", &mut f);
        }
        entry(&mut f, "read_block<Streaminfo>", guarded(|| read_block::<_, Streaminfo>(bytes).is_ok()));
        entry(&mut f, "read_block<Padding>", guarded(|| read_block::<_, Padding>(bytes).is_ok()));
        entry(&mut f, "read_block<Application>", guarded(|| read_block::<_, Application>(bytes).is_ok()));
        entry(&mut f, "read_block<SeekTable>", guarded(|| read_block::<_, SeekTable>(bytes).is_ok()));
        entry(&mut f, "read_block<VorbisComment>", guarded(|| read_block::<_, VorbisComment>(bytes).is_ok()));
        if let Some(Ok(Some(c))) = entry(&mut f, "read_block<Cuesheet>", guarded(|| read_block::<_, Cuesheet>(bytes))) {
            // the first cue sheet may be reachable here even when a later block makes the list unreadable
            if !matches!(&list, Some(Ok(_))) && items.as_ref().map(|i| !i.iter().any(|x| matches!(x, Ok(Block::Cuesheet(_))))).unwrap_or(true) {
                steps += cue_accessors(&c, &mut f);
            }
        }
        entry(&mut f, "read_block<Picture>", guarded(|| read_block::<_, Picture>(bytes).is_ok()));
    }
    drop(items);
    drop(list);
    let peak = alloc_peak_since(mark);
    if peak > alloc_bound(bytes.len()) {
        f.push(("meta|alloc-bound".to_string(), format!("peak heap {peak} bytes for a {}-byte input exceeds 64 MiB + 16 × length", bytes.len())));
    }
    CaseOut { label, findings: merge(f), steps }
}

/// counter bumps without a key allocation on the hot path
fn bump(acc: &mut Acc, label: String) {
    match acc.outcomes.get_mut(&label) {
        Some(c) => *c += 1,
        None => {
            acc.outcomes.insert(label, 1);
        }
    }
}
fn bump_dim(acc: &mut Acc, key: &'static str) {
    match acc.dims.get_mut(key) {
        Some(c) => *c += 1,
        None => {
            acc.dims.insert(key.to_string(), 1);
        }
    }
}

fn exec_meta(acc: &mut Acc, base: &str, mode: &str, bytes: &[u8], full: bool) {
    let out = meta_case(bytes, full);
    acc.states += 1;
    acc.executions += 1;
    acc.transitions += out.steps;
    bump_dim(acc, match mode {
        "base" => "meta_cases_base",
        "subst1" => "meta_cases_subst1",
        "truncate" => "meta_cases_truncate",
        "utf8-overwrite" => "meta_cases_utf8-overwrite",
        "length-forced" => "meta_cases_length-forced",
        _ => "meta_cases_subst2",
    });
    let mut label = out.label;
    label.insert_str(0, "meta:");
    if !out.findings.is_empty() {
        label.push_str(":VIOLATION");
    }
    bump(acc, label);
    for (clause, text) in out.findings {
        acc.violation(format!("C12|{clause}"), format!("metadata section '{base}' ({mode}, {} bytes): {text}", bytes.len()), json!({"kind":"c12-meta","base":base,"mode":mode,"full":full,"hex":hex(bytes)}));
    }
}

fn meta(ctx: &Ctx, acc: &mut Acc) {
    for (name, sec) in bases() {
        let (pos, hdrs) = prefix_positions(&sec);
        acc.dim("meta_base_sections", if ctx.shard == 0 { 1 } else { 0 });
        if ctx.mine() {
            exec_meta(acc, name, "base", &sec, true);
            acc.sample(json!({"kind":"c12-meta","base":name,"mode":"base","hex":hex(&sec)}));
        }
        // every single-byte substitution
        for i in 0..sec.len() {
            for v in 0..=255u8 {
                if v == sec[i] {
                    continue;
                }
                if !ctx.mine() {
                    continue;
                }
                let mut m = sec.clone();
                m[i] = v;
                exec_meta(acc, name, "subst1", &m, true);
            }
        }
        // multi-byte UTF-8 sequences over every position (a character straddling a slice point of a validated text field
        // cannot come from a single-byte substitution)
        for i in 4..sec.len() {
            for seq in [&[0xC3u8, 0xA9][..], &[0xE2, 0x82, 0xAC], &[0xF0, 0x9F, 0x98, 0x80], &[0x41, 0xC3, 0xA9]] {
                if i + seq.len() > sec.len() || !ctx.mine() {
                    continue;
                }
                let mut m = sec.clone();
                m[i..i + seq.len()].copy_from_slice(seq);
                exec_meta(acc, name, "utf8-overwrite", &m, true);
            }
        }
        // every truncation
        for n in 0..sec.len() {
            if !ctx.mine() {
                continue;
            }
            exec_meta(acc, name, "truncate", &sec[..n], true);
        }
        // every block-length field forced
        for &(o, len) in &hdrs {
            let mut forced: Vec<u32> = vec![0, 1, len.wrapping_sub(1), len + 1, (1 << 24) - 1];
            forced.retain(|x| *x != len && *x < (1 << 24));
            forced.sort();
            forced.dedup();
            for x in forced {
                if !ctx.mine() {
                    continue;
                }
                let mut m = sec.clone();
                m[o + 1..o + 4].copy_from_slice(&be(x as u64, 3));
                exec_meta(acc, name, "length-forced", &m, true);
            }
        }
        // thorough: EVERY pair of substitutions at two distinct prefix positions (all 255 × 255 value pairs)
        if ctx.thorough() {
            for (a, &p) in pos.iter().enumerate() {
                for &q in &pos[a + 1..] {
                    for v in 0..=255u8 {
                        if v == sec[p] {
                            continue;
                        }
                        for w in 0..=255u8 {
                            if w == sec[q] {
                                continue;
                            }
                            if !ctx.mine() {
                                continue;
                            }
                            let mut m = sec.clone();
                            m[p] = v;
                            m[q] = w;
                            exec_meta(acc, name, "subst2", &m, false);
                        }
                    }
                }
            }
        }
    }
}

// ---------------------------------------------------------------------------------------------
// image sniffers

pub(crate) const PNG_MAGIC: [u8; 8] = [0x89, 0x50, 0x4E, 0x47, 0x0D, 0x0A, 0x1A, 0x0A];

fn chunk(ty: &[u8; 4], data: &[u8]) -> Vec<u8> {
    let mut v = be(data.len() as u64, 4);
    v.extend(ty);
    v.extend(data);
    v.extend([0xDE, 0xAD, 0xBE, 0xEF]); // CRC is not checked by the sniffer
    v
}
/// minimal PNG: signature, IHDR (16×9), optionally another chunk, optionally a PLTE with `plte` bytes
pub(crate) fn png(color_type: u8, bit_depth: u8, pre_chunk: bool, plte: Option<usize>) -> Vec<u8> {
    let mut v = PNG_MAGIC.to_vec();
    let mut ihdr = be(16, 4);
    ihdr.extend(be(9, 4));
    ihdr.extend([bit_depth, color_type, 0, 0, 0]);
    v.extend(chunk(b"IHDR", &ihdr));
    if pre_chunk {
        v.extend(chunk(b"gAMA", &[0, 0, 0xB1, 0x8F]));
    }
    if let Some(n) = plte {
        v.extend(chunk(b"PLTE", &vec![0x55; n]));
    }
    v
}
/// minimal JPEG: SOI, optional skipped segments, SOF marker `sof`
pub(crate) fn jpeg(sof: u8, skipped: usize) -> Vec<u8> {
    let mut v = vec![0xFF, 0xD8];
    if skipped >= 1 {
        v.extend([0xFF, 0xE0, 0x00, 0x10]);
        v.extend(b"JFIF\0\x01\x01\0\0\x01\0\x01\0\0");
    }
    if skipped >= 2 {
        v.extend([0xFF, 0xDB, 0x00, 0x02]); // empty segment (length covers itself only)
        v.extend([0xFF, 0xFE, 0x00, 0x05, b'h', b'i', b'!']);
    }
    v.extend([0xFF, sof, 0x00, 0x11, 8, 0x00, 0x4B, 0x00, 0x64, 3, 1, 0x22, 0, 2, 0x11, 1, 3, 0x11, 1]);
    v
}
pub(crate) fn gif(version: &[u8; 3]) -> Vec<u8> {
    let mut v = b"GIF".to_vec();
    v.extend(version);
    v.extend([0x90, 0x01, 0x2C, 0x01, 0xF7, 0x00, 0x00]);
    v
}

const SOF: [u8; 13] = [0xC0, 0xC1, 0xC2, 0xC3, 0xC5, 0xC6, 0xC7, 0xC9, 0xCA, 0xCB, 0xCD, 0xCE, 0xCF];

fn image_bases() -> Vec<(String, Vec<u8>)> {
    let mut v: Vec<(String, Vec<u8>)> = Vec::new();
    for (ct, depth) in [(0u8, 8u8), (0, 16), (2, 8), (2, 16), (4, 8), (6, 8), (6, 16)] {
        v.push((format!("png-ct{ct}-d{depth}"), png(ct, depth, false, None)));
    }
    v.push(("png-ct3-plte".into(), png(3, 8, false, Some(12))));
    v.push(("png-ct3-no-plte".into(), png(3, 8, false, None)));
    v.push(("png-ct3-chunk-then-plte".into(), png(3, 4, true, Some(6))));
    v.push(("png-ct3-odd-plte".into(), png(3, 8, false, Some(4))));
    v.push(("png-ct2-with-plte".into(), png(2, 8, true, Some(3))));
    for s in SOF {
        v.push((format!("jpeg-sof{s:02x}"), jpeg(s, 0)));
    }
    v.push(("jpeg-app0-sofc0".into(), jpeg(0xC0, 1)));
    v.push(("jpeg-app0-dqt-com-sofc2".into(), jpeg(0xC2, 2)));
    v.push(("gif87a".into(), gif(b"87a")));
    v.push(("gif89a".into(), gif(b"89a")));
    v
}

fn img_case(data: &[u8]) -> (String, Findings) {
    let mut f = Findings::new();
    let mark = alloc_mark();
    let r = guarded(|| Picture::new(PictureType::Other, "", data.to_vec()));
    let label = match &r {
        Err(p) => {
            f.push((format!("img|Picture::new|panic@{}", panic_loc(p)), format!("Picture::new panics: {p}")));
            "panic".to_string()
        }
        Ok(Ok(p)) => format!("ok:{}", p.media_type),
        Ok(Err(e)) => {
            let s = format!("{e:?}");
            if s.starts_with("Io") { "err:Io".to_string() } else { format!("err:{}", s.replace('"', "")) }
        }
    };
    drop(r);
    let peak = alloc_peak_since(mark);
    if peak > alloc_bound(data.len()) {
        f.push(("img|alloc-bound".to_string(), format!("peak heap {peak} bytes for {} image bytes", data.len())));
    }
    (label, f)
}

fn exec_img(acc: &mut Acc, base: &str, mode: &str, data: &[u8]) {
    let (label, findings) = img_case(data);
    acc.states += 1;
    acc.executions += 1;
    acc.transitions += 1;
    bump_dim(acc, match mode {
        "base" => "img_cases_base",
        "subst1" => "img_cases_subst1",
        "truncate" => "img_cases_truncate",
        _ => "img_cases_suffix",
    });
    bump(acc, format!("img:{label}"));
    for (clause, text) in findings {
        acc.violation(format!("C12|{clause}"), format!("image '{base}' ({mode}, {} bytes {}): {text}", data.len(), hex(&data[..data.len().min(48)])), json!({"kind":"c12-img","base":base,"mode":mode,"hex":hex(data)}));
    }
}

fn sniffers(ctx: &Ctx, acc: &mut Acc) {
    for (name, img) in image_bases() {
        if ctx.mine() {
            exec_img(acc, &name, "base", &img);
            acc.sample(json!({"kind":"c12-img","base":name,"mode":"base","hex":hex(&img)}));
        }
        for i in 0..img.len() {
            for v in 0..=255u8 {
                if v == img[i] {
                    continue;
                }
                if !ctx.mine() {
                    continue;
                }
                let mut m = img.clone();
                m[i] = v;
                exec_img(acc, &name, "subst1", &m);
            }
        }
        for n in 0..img.len() {
            if !ctx.mine() {
                continue;
            }
            exec_img(acc, &name, "truncate", &img[..n]);
        }
    }
    // all byte strings of length ≤ 2 (thorough: ≤ 3) appended to each magic prefix
    let maxlen = if ctx.quick { 2 } else { 3 };
    for (name, magic) in [("png-magic", PNG_MAGIC.to_vec()), ("jpeg-magic", vec![0xFF, 0xD8, 0xFF]), ("gif-magic", b"GIF".to_vec())] {
        for len in 0..=maxlen {
            let total: u32 = 1 << (8 * len);
            for n in 0..total {
                if !ctx.mine() {
                    continue;
                }
                let mut m = magic.clone();
                m.extend(&be(n as u64, len));
                exec_img(acc, name, "suffix", &m);
            }
        }
    }
}

pub fn run(ctx: &Ctx, acc: &mut Acc) {
    let t = std::time::Instant::now();
    meta(ctx, acc);
    acc.dim("cpu_ms_meta", t.elapsed().as_millis() as u64);
    let t = std::time::Instant::now();
    sniffers(ctx, acc);
    acc.dim("cpu_ms_sniffers", t.elapsed().as_millis() as u64);
}

pub fn replay(v: &Value) -> Option<(bool, String)> {
    let kind = v["kind"].as_str()?;
    let sig = v["signature"].as_str().unwrap_or("");
    let still = |f: &Findings| if sig.is_empty() { !f.is_empty() } else { f.iter().any(|(c, _)| format!("C12|{c}") == sig) };
    match kind {
        "c12-meta" => {
            let bytes = unhex(v["hex"].as_str()?);
            let out = meta_case(&bytes, v["full"].as_bool().unwrap_or(true));
            Some((still(&out.findings), format!("BlockList::read → {}; findings: {:?}", out.label, out.findings)))
        }
        "c12-img" => {
            let bytes = unhex(v["hex"].as_str()?);
            let (label, f) = img_case(&bytes);
            Some((still(&f), format!("Picture::new → {label}; findings: {f:?}")))
        }
        _ => None,
    }
}
