//! C13 — success is only reported when the output really reached the underlying stream.
//! Shape E: for every scenario a fault-free run records N targeted calls; then EVERY n < N × kind ∈ {permanent,
//! once, Interrupted, short} (deviation bound 1) and pairs (bound 2) are executed on the real code over an
//! in-memory fault device. Oracle: no panic; API Ok ⇒ device contents / result identical to the fault-free run.
use crate::codec::{pcm_bytes, Opt, Pad, Seek, Sig};
use crate::core::{guarded, Acc, Ctx};
use crate::corpus::ident_pcm;
use crate::devices::{FaultDevice, FaultKind, MemDevice, Target, FAULT_KINDS};
use flac_codec::byteorder::LittleEndian;
use flac_codec::decode::{verify_reader, FlacByteReader, FlacChannelReader, FlacSampleReader};
use flac_codec::encode::{generate_seektable, FlacByteWriter, FlacChannelWriter, FlacSampleWriter, FlacStreamWriter, SeekTableInterval};
use flac_codec::metadata::{update_file, write_blocks, BlockList, Padding, VorbisComment};
use serde_json::{json, Value};
use std::cell::RefCell;
use std::io::{BufWriter, Read, Seek as IoSeek, SeekFrom, Write};
use std::rc::Rc;

pub const RULE: &str = "scenarios: encode+finalize through sample/byte/channel writers (stereo: seek table on/off × declared/undeclared; mono, 3 and 6 channels: sample and channel writers; raw frames with 3 channels) directly over the device (at offset 0 and behind a 24-byte foreign prefix) and over BufWriter<device> passed by value (as the crate's own create(path) does); FlacStreamWriter::write ×2; write_blocks; update_file in place (shrink / equal / grow into padding) and rebuilt; decode through 3 readers, the raw-frame reader (FlacStreamReader over a 16-byte BufReader), the structural frame iterator, a seek, verify_reader, generate_seektable, BlockList::read and update_file (in place, and the rebuild of a 9 KB file that is copied in several reads) under failing reads. For each scenario EVERY index n of the n-th write/flush/seek (resp. read) call × {permanent from n, once at n, Interrupted at n, 1-byte short transfer at n}; every pair of faults on all scenarios; thorough adds every triple on scenarios with ≤ 64 targeted calls. A state is one (scenario, fault schedule); outcomes = (scenario, kind, api result, contents equal?)";
pub const ASSUMPTIONS: &[&str] = &["fault sequences with more than 2 (thorough: 3 on short scenarios) faults are not explored", "File-backed entry points (create/open/update(path)) are the same generic code over BufWriter<File>/File; they are represented by the BufWriter<device> scenarios"];
pub fn bounds(quick: bool) -> Value {
    json!({"single_faults": "every call index × 4 kinds, all scenarios", "pairs": "all scenarios, all kinds", "triples": if quick { "none" } else { "scenarios with <= 40 targeted calls" }})
}

#[derive(Clone)]
pub struct Handle(pub Rc<RefCell<FaultDevice>>);
impl Write for Handle {
    fn write(&mut self, b: &[u8]) -> std::io::Result<usize> {
        self.0.borrow_mut().write(b)
    }
    fn flush(&mut self) -> std::io::Result<()> {
        self.0.borrow_mut().flush()
    }
}
impl Read for Handle {
    fn read(&mut self, b: &mut [u8]) -> std::io::Result<usize> {
        self.0.borrow_mut().read(b)
    }
}
impl IoSeek for Handle {
    fn seek(&mut self, p: SeekFrom) -> std::io::Result<u64> {
        self.0.borrow_mut().seek(p)
    }
}

struct Env {
    primary: Handle,
    secondary: Handle, // never faulty (e.g. the rebuilt sink when the original is the faulty one, or vice versa)
}

type Scen = (String, Target, bool /*faults on secondary*/, Vec<u8> /*initial primary contents*/, Box<dyn Fn(&Env) -> Result<Vec<u8>, String>>);

fn test_file(pad: usize, comment: &str) -> Vec<u8> {
    let sig = Sig { rate: 44100, bps: 16, ch: 2 };
    let opt = Opt { seek: Seek::Frames(1), pad: if pad == 0 { Pad::None } else { Pad::Size(pad as u32) }, ..Opt::base16() };
    let base = crate::codec::encode(crate::codec::WriterKind::Sample, &opt, &sig, &ident_pcm(2, 16, 40)).expect("c13 corpus");
    // add a comment through the crate's own metadata API
    let mut blocks = BlockList::read(&base[..]).unwrap();
    let flen = {
        let mut tmp = Vec::new();
        write_blocks(&mut tmp, blocks.blocks()).unwrap();
        tmp.len()
    };
    let mut vc = VorbisComment::default();
    vc.insert("TITLE", comment);
    blocks.insert(vc);
    let mut out = Vec::new();
    write_blocks(&mut out, blocks.blocks()).unwrap();
    out.extend_from_slice(&base[flen..]);
    out
}

fn e(x: flac_codec::Error) -> String {
    format!("{x:?}")
}
fn ioe(x: std::io::Error) -> String {
    format!("io:{:?}", x.kind())
}

fn scenarios() -> Vec<Scen> {
    let mut v: Vec<Scen> = Vec::new();
    let sig = Sig { rate: 44100, bps: 16, ch: 2 };
    let pcm = ident_pcm(2, 16, 53);
    // ---- encode + finalize
    for wk in ["sample", "byte", "channel"] {
        for seek in [Seek::Frames(1), Seek::Off] {
            for declared in [true, false] {
                for (buffered, offset) in [(false, 0usize), (true, 0), (false, 24)] {
                    let (pcm, sig) = (pcm.clone(), sig.clone());
                    let name = format!("encode-{wk}-{}-{}-{}{}", if seek == Seek::Off { "noseek" } else { "seek" }, if declared { "declared" } else { "undeclared" }, if buffered { "bufwriter" } else { "direct" }, if offset > 0 { "-offset24" } else { "" });
                    // "-offset24": the stream does not start at offset 0 of the writer (a 24-byte foreign prefix precedes it)
                    let initial: Vec<u8> = (0..offset).map(|i| 0xC0 + i as u8).collect();
                    v.push((name, Target::Writes, false, initial, Box::new(move |env: &Env| {
                        env.primary.0.borrow_mut().inner.pos = offset as u64;
                        let opt = Opt { seek, declared, pad: if buffered { Pad::Size(5) } else { Pad::Size(64) }, ..Opt::base16() };
                        let o = opt.to_options()?;
                        macro_rules! drive {
                            ($dev:expr) => {{
                                match wk {
                                    "sample" => {
                                        let mut w = FlacSampleWriter::new($dev, o, sig.rate, sig.bps, sig.ch, declared.then_some(pcm.len() as u64)).map_err(e)?;
                                        w.write(&pcm[..40]).map_err(e)?;
                                        w.write(&pcm[40..]).map_err(e)?;
                                        w.finalize().map_err(e)?;
                                    }
                                    "byte" => {
                                        let bytes = pcm_bytes(&pcm, sig.bps, false);
                                        let mut w = FlacByteWriter::endian($dev, LittleEndian, o, sig.rate, sig.bps, sig.ch, declared.then_some(bytes.len() as u64)).map_err(e)?;
                                        w.write_all(&bytes[..81]).map_err(ioe)?;
                                        w.write_all(&bytes[81..]).map_err(ioe)?;
                                        w.flush().map_err(ioe)?;
                                        w.finalize().map_err(e)?;
                                    }
                                    _ => {
                                        let ch = crate::codec::deinterleave(&pcm, 2);
                                        let mut w = FlacChannelWriter::new($dev, o, sig.rate, sig.bps, sig.ch, declared.then_some(53)).map_err(e)?;
                                        w.write(&[&ch[0][..20], &ch[1][..20]]).map_err(e)?;
                                        w.write(&[&ch[0][20..], &ch[1][20..]]).map_err(e)?;
                                        w.finalize().map_err(e)?;
                                    }
                                }
                            }};
                        }
                        if buffered {
                            drive!(BufWriter::with_capacity(37, env.primary.clone()));
                        } else {
                            drive!(env.primary.clone());
                        }
                        Ok(vec![])
                    })));
                }
            }
        }
    }
    // ---- the other channel layouts (mono, and the 3..8-channel path that encodes its subframes through a different loop)
    for chn in [1u8, 3, 6] {
        for wk in ["sample", "channel"] {
            let sigc = Sig { rate: 48000, bps: 16, ch: chn };
            let pcmc = ident_pcm(chn, 16, 37);
            v.push((format!("encode-{wk}-{chn}ch-seek-declared-direct"), Target::Writes, false, vec![], Box::new(move |env: &Env| {
                let opt = Opt { seek: Seek::Frames(1), declared: true, pad: Pad::Size(64), ..Opt::base16() };
                let o = opt.to_options()?;
                if wk == "sample" {
                    let mut w = FlacSampleWriter::new(env.primary.clone(), o, sigc.rate, sigc.bps, sigc.ch, Some(pcmc.len() as u64)).map_err(e)?;
                    w.write(&pcmc[..20 * chn as usize]).map_err(e)?;
                    w.write(&pcmc[20 * chn as usize..]).map_err(e)?;
                    w.finalize().map_err(e)?;
                } else {
                    let ch = crate::codec::deinterleave(&pcmc, chn as usize);
                    let mut w = FlacChannelWriter::new(env.primary.clone(), o, sigc.rate, sigc.bps, sigc.ch, Some(37)).map_err(e)?;
                    w.write(ch.iter().map(|c| &c[..20]).collect::<Vec<_>>()).map_err(e)?;
                    w.write(ch.iter().map(|c| &c[20..]).collect::<Vec<_>>()).map_err(e)?;
                    w.finalize().map_err(e)?;
                }
                Ok(vec![])
            })));
        }
    }
    {
        let pcm3 = ident_pcm(3, 16, 20);
        v.push(("stream-writer-3ch+mono".into(), Target::Writes, false, vec![], Box::new(move |env: &Env| {
            let mut w = FlacStreamWriter::new(env.primary.clone(), flac_codec::encode::Options::default());
            w.write(44100, 3, 16, &pcm3).map_err(e)?;
            w.write(8000, 1, 16, &pcm3[..17]).map_err(e)?;
            Ok(vec![])
        })));
    }
    // ---- raw frames
    {
        let pcm = pcm.clone();
        v.push(("stream-writer-2-frames".into(), Target::Writes, false, vec![], Box::new(move |env: &Env| {
            let mut w = FlacStreamWriter::new(env.primary.clone(), flac_codec::encode::Options::default());
            w.write(44100, 2, 16, &pcm[..40]).map_err(e)?;
            w.write(8000, 1, 16, &pcm[40..53]).map_err(e)?;
            Ok(vec![])
        })));
    }
    // ---- write_blocks
    v.push(("write_blocks".into(), Target::Writes, false, vec![], Box::new(move |env: &Env| {
        let f = test_file(40, "abc");
        let blocks = BlockList::read(&f[..]).map_err(e)?;
        write_blocks(env.primary.clone(), blocks.blocks()).map_err(e)?;
        Ok(vec![])
    })));
    // ---- update_file: in place (shrink, equal, grow) and rebuilt; faults on the original's write side
    for (nm, newtitle, pad) in [("shrink", "a", 40usize), ("equal", "xyz", 40), ("grow", "abcdefghij", 40), ("rebuild", "abcdefghijklmnopqrstuvwxyzabcdefghijklmnopqrstuvwxyzabcdefghijklmnopqrstuvwxyz", 10)] {
        for faulty_secondary in [false, true] {
            if faulty_secondary && nm != "rebuild" {
                continue;
            }
            let title = newtitle.to_string();
            v.push((format!("update_file-{nm}-{}", if faulty_secondary { "faulty-sink" } else { "faulty-original" }), Target::Writes, faulty_secondary, test_file(pad, "abc"), Box::new(move |env: &Env| {
                let t = title.clone();
                let sink = env.secondary.clone();
                let r: Result<bool, flac_codec::Error> = update_file(env.primary.clone(), move || Ok(sink), move |b: &mut BlockList| {
                    b.update::<VorbisComment>(|vc| vc.set("TITLE", &t));
                    Ok(())
                });
                r.map(|rebuilt| vec![rebuilt as u8]).map_err(e)
            })));
        }
        // failing reads on the original
        let title = newtitle.to_string();
        v.push((format!("update_file-{nm}-failing-reads"), Target::Reads, false, test_file(pad, "abc"), Box::new(move |env: &Env| {
            let t = title.clone();
            let sink = env.secondary.clone();
            let r: Result<bool, flac_codec::Error> = update_file(env.primary.clone(), move || Ok(sink), move |b: &mut BlockList| {
                b.update::<VorbisComment>(|vc| vc.set("TITLE", &t));
                Ok(())
            });
            r.map(|rebuilt| vec![rebuilt as u8]).map_err(e)
        })));
    }
    // ---- a file larger than any I/O buffer (9 KB of incompressible audio), no padding, a growing edit: the rebuild path copies
    //      the frames behind the new blocks in several reads — each of them may fail
    {
        let sig = Sig { rate: 44100, bps: 16, ch: 2 };
        let mut g = crate::core::Lcg(0xC13);
        let pcm: Vec<i32> = (0..2100 * 2).map(|_| (g.next() % 65536) as i32 - 32768).collect();
        let base = crate::codec::encode(crate::codec::WriterKind::Sample, &Opt { seek: Seek::Off, pad: Pad::None, block: 256, ..Opt::base16() }, &sig, &pcm).expect("c13 corpus");
        assert!(base.len() > 8400, "C13 large file is not larger than an 8 KiB buffer");
        v.push(("update_file-rebuild-large-failing-reads".into(), Target::Reads, false, base, Box::new(move |env: &Env| {
            let sink = env.secondary.clone();
            let r: Result<bool, flac_codec::Error> = update_file(env.primary.clone(), move || Ok(sink), move |b: &mut BlockList| {
                let mut vc = VorbisComment::default();
                vc.insert("TITLE", "a title that does not fit anywhere");
                b.insert(vc);
                Ok(())
            });
            // the rebuilt file itself is the result that has to equal the fault-free run's
            r.map(|rebuilt| { let mut out = vec![rebuilt as u8]; out.extend_from_slice(&env.secondary.0.borrow().inner.data); out }).map_err(e)
        })));
    }
    // ---- failing reads: decoders
    for total_known in [true, false] {
        let file = {
            let f = test_file(16, "abc");
            if total_known { f } else {
                let mut b = BlockList::read(&f[..]).unwrap();
                let mut old = Vec::new();
                write_blocks(&mut old, b.blocks()).unwrap();
                b.streaminfo_mut().total_samples = None;
                let mut out = Vec::new();
                write_blocks(&mut out, b.blocks()).unwrap();
                out.extend_from_slice(&f[old.len()..]);
                out
            }
        };
        let tk = if total_known { "known" } else { "unknown" };
        v.push((format!("decode-sample-reader-total-{tk}"), Target::Reads, false, file.clone(), Box::new(|env: &Env| {
            let mut r = FlacSampleReader::new(env.primary.clone()).map_err(e)?;
            let mut out = Vec::new();
            r.read_to_end(&mut out).map_err(e)?;
            Ok(out.iter().flat_map(|s| s.to_le_bytes()).collect())
        })));
        v.push((format!("decode-byte-reader-total-{tk}"), Target::Reads, false, file.clone(), Box::new(|env: &Env| {
            let mut r = FlacByteReader::endian(env.primary.clone(), LittleEndian).map_err(e)?;
            let mut out = Vec::new();
            r.read_to_end(&mut out).map_err(ioe)?;
            Ok(out)
        })));
        v.push((format!("decode-channel-reader-total-{tk}"), Target::Reads, false, file.clone(), Box::new(|env: &Env| {
            let mut r = FlacChannelReader::new(env.primary.clone()).map_err(e)?;
            let mut out = Vec::new();
            loop {
                let b = r.fill_buf().map_err(e)?;
                let n = b[0].len();
                if n == 0 {
                    break;
                }
                for c in &b {
                    out.extend(c.iter().flat_map(|s| s.to_le_bytes()));
                }
                drop(b);
                r.consume(n);
            }
            Ok(out)
        })));
        // the raw-frame reader (a BufRead consumer with its own retry loop) and the structural frame iterator
        {
            let first = {
                let b = BlockList::read(&file[..]).unwrap();
                let mut t = Vec::new();
                write_blocks(&mut t, b.blocks()).unwrap();
                t.len()
            };
            v.push((format!("decode-stream-reader-total-{tk}"), Target::Reads, false, file[first..].to_vec(), Box::new(|env: &Env| {
                let mut r = flac_codec::decode::FlacStreamReader::new(std::io::BufReader::with_capacity(16, env.primary.clone()));
                let mut out = Vec::new();
                loop {
                    match r.read() {
                        Ok(f) => out.extend(f.samples.iter().flat_map(|s| s.to_le_bytes())),
                        Err(flac_codec::Error::Io(x)) if x.kind() == std::io::ErrorKind::UnexpectedEof => break,
                        Err(x) => return Err(e(x)),
                    }
                }
                Ok(out)
            })));
        }
        v.push((format!("decode-frame-iterator-total-{tk}"), Target::Reads, false, file.clone(), Box::new(|env: &Env| {
            let it = flac_codec::stream::FrameIterator::new(env.primary.clone()).map_err(e)?;
            let mut out = Vec::new();
            for f in it {
                let (frame, off) = f.map_err(e)?;
                out.extend(off.to_le_bytes());
                out.extend(u16::from(frame.header.block_size).to_le_bytes());
            }
            Ok(out)
        })));
        v.push((format!("decode-seekable-seek-total-{tk}"), Target::Reads, false, file.clone(), Box::new(|env: &Env| {
            let mut r = FlacSampleReader::new_seekable(env.primary.clone()).map_err(e)?;
            r.seek(33).map_err(e)?;
            let mut out = Vec::new();
            r.read_to_end(&mut out).map_err(e)?;
            Ok(out.iter().flat_map(|s| s.to_le_bytes()).collect())
        })));
        v.push((format!("verify_reader-total-{tk}"), Target::Reads, false, file.clone(), Box::new(|env: &Env| verify_reader(env.primary.clone()).map(|v| format!("{v:?}").into_bytes()).map_err(e))));
        v.push((format!("generate_seektable-total-{tk}"), Target::Reads, false, file.clone(), Box::new(|env: &Env| generate_seektable(env.primary.clone(), SeekTableInterval::Frames(std::num::NonZero::new(1).unwrap())).map(|t| format!("{t:?}").into_bytes()).map_err(e))));
        v.push((format!("blocklist-read-total-{tk}"), Target::Reads, false, file.clone(), Box::new(|env: &Env| BlockList::read(env.primary.clone()).map(|b| format!("{:?}", b.blocks().count()).into_bytes()).map_err(e))));
    }
    let _ = Padding { size: 0u8.into() };
    v
}

struct RunOut {
    api: Result<Vec<u8>, String>,
    primary: Vec<u8>,
    secondary: Vec<u8>,
    calls: usize,
    injected: usize,
}

fn run_scen(s: &Scen, faults: &[(usize, FaultKind)]) -> Result<RunOut, String> {
    let (_, target, on_secondary, initial, f) = s;
    let mk = |init: Vec<u8>, fl: Vec<(usize, FaultKind)>| Handle(Rc::new(RefCell::new(FaultDevice::new(MemDevice::new(init, 0), *target, fl))));
    let env = if *on_secondary { Env { primary: mk(initial.clone(), vec![]), secondary: mk(vec![], faults.to_vec()) } } else { Env { primary: mk(initial.clone(), faults.to_vec()), secondary: mk(vec![], vec![]) } };
    let api = guarded(|| f(&env))?;
    let faulty = if *on_secondary { &env.secondary } else { &env.primary };
    let (calls, injected) = (faulty.0.borrow().count, faulty.0.borrow().injected);
    Ok(RunOut { api, primary: env.primary.0.borrow().inner.data.clone(), secondary: env.secondary.0.borrow().inner.data.clone(), calls, injected })
}

fn kind_name(k: FaultKind) -> &'static str {
    match k {
        FaultKind::Permanent => "permanent",
        FaultKind::Once => "once",
        FaultKind::Interrupted => "interrupted",
        FaultKind::Short => "short",
    }
}
fn kind_from(s: &str) -> FaultKind {
    match s {
        "permanent" => FaultKind::Permanent,
        "once" => FaultKind::Once,
        "interrupted" => FaultKind::Interrupted,
        _ => FaultKind::Short,
    }
}

fn judge(name: &str, reference: &RunOut, faults: &[(usize, FaultKind)], s: &Scen) -> (String, Option<(String, String)>) {
    let kinds: Vec<&str> = faults.iter().map(|f| kind_name(f.1)).collect();
    match run_scen(s, faults) {
        Err(p) => (format!("{name}:panic"), Some((format!("C13|{name}|panic@{}", crate::core::panic_loc(&p)), format!("{name} with faults {faults:?}: panic: {p}")))),
        Ok(out) => match &out.api {
            Err(_) => (format!("{}:{}:Err", scen_class(name), kinds.join("+")), None),
            Ok(res) => {
                let same = out.primary == reference.primary && out.secondary == reference.secondary && Some(res) == reference.api.as_ref().ok();
                if same {
                    (format!("{}:{}:Ok-complete{}", scen_class(name), kinds.join("+"), if out.injected == 0 { "-fault-not-reached" } else { "" }), None)
                } else {
                    let what = if out.primary != reference.primary { "device contents differ from the fault-free run" } else if out.secondary != reference.secondary { "rebuilt sink contents differ from the fault-free run" } else { "returned result differs from the fault-free run" };
                    (format!("{}:{}:Ok-INCOMPLETE", scen_class(name), kinds.join("+")), Some((format!("C13|{name}|ok-but-incomplete|{}", kinds.join("+")), format!("{name} with faults {faults:?} returned Ok but {what} ({} of {} bytes on the device)", out.primary.len(), reference.primary.len()))))
                }
            }
        },
    }
}
fn scen_class(name: &str) -> String {
    name.split('-').take(2).collect::<Vec<_>>().join("-")
}

pub fn run(ctx: &Ctx, acc: &mut Acc) {
    let scens = scenarios();
    for s in &scens {
        let name = s.0.clone();
        let reference = match run_scen(s, &[]) {
            Ok(r) if r.api.is_ok() => r,
            Ok(r) => {
                acc.violation(format!("C13|{name}|fault-free-run-fails"), format!("{name}: fault-free run returns {:?}", r.api), json!({"kind":"fault","scenario":name,"faults":[]}));
                continue;
            }
            Err(p) => {
                acc.violation(format!("C13|{name}|panic@{}", crate::core::panic_loc(&p)), format!("{name}: fault-free run panics: {p}"), json!({"kind":"fault","scenario":name,"faults":[]}));
                continue;
            }
        };
        let n = reference.calls;
        acc.dim("targeted_calls_total", if ctx.shard == 0 { n as u64 } else { 0 });
        let mut schedules: Vec<Vec<(usize, FaultKind)>> = Vec::new();
        for i in 0..n {
            for k in FAULT_KINDS {
                schedules.push(vec![(i, k)]);
            }
        }
        for i in 0..n {
            for j in i + 1..n {
                for &k1 in &[FaultKind::Once, FaultKind::Interrupted, FaultKind::Short] {
                    for &k2 in &FAULT_KINDS {
                        schedules.push(vec![(i, k1), (j, k2)]);
                    }
                }
            }
        }
        // deviation bound 3 where the scenario is short enough (thorough)
        if ctx.thorough() && n <= 64 {
            for i in 0..n {
                for j in i + 1..n {
                    for l in j + 1..n {
                        for &k1 in &[FaultKind::Once, FaultKind::Interrupted, FaultKind::Short] {
                            for &k2 in &[FaultKind::Once, FaultKind::Interrupted, FaultKind::Short] {
                                for &k3 in &FAULT_KINDS {
                                    schedules.push(vec![(i, k1), (j, k2), (l, k3)]);
                                }
                            }
                        }
                    }
                }
            }
        }
        for sch in schedules {
            if !ctx.mine() {
                continue;
            }
            acc.states += 1;
            acc.executions += 1;
            acc.transitions += n as u64;
            let (out, v) = judge(&name, &reference, &sch, s);
            acc.outcome(out);
            if let Some((sig, what)) = v {
                acc.violation(sig, what, json!({"kind":"fault","scenario":name,"faults":sch.iter().map(|(i,k)| json!([i, kind_name(*k)])).collect::<Vec<_>>() }));
            }
        }
        if acc.samples.len() < 4 && ctx.shard == 0 {
            acc.sample(json!({"scenario": name, "targeted_calls": n, "example_schedule": [[n / 2, "once"]]}));
        }
    }
}

pub fn replay(v: &Value) -> Option<(bool, String)> {
    if v["kind"] != "fault" {
        return None;
    }
    let name = v["scenario"].as_str()?;
    let faults: Vec<(usize, FaultKind)> = v["faults"].as_array()?.iter().map(|f| (f[0].as_u64().unwrap_or(0) as usize, kind_from(f[1].as_str().unwrap_or("")))).collect();
    let scens = scenarios();
    let s = scens.iter().find(|s| s.0 == name)?;
    let reference = run_scen(s, &[]).ok()?;
    let (out, viol) = judge(name, &reference, &faults, s);
    Some((viol.is_some(), format!("{out} {}", viol.map(|x| x.1).unwrap_or_default())))
}
