//! C01 — encoding is lossless.  Shape G: bounded-exhaustive inputs × option lattice × front-ends;
//! oracle: identity on the PCM vector through the crate's own decoders.
use crate::codec::{self, case_json, decode, encode, err_class, Opt, ReaderKind, READERS};
use crate::core::{Acc, Ctx};
use crate::encspace::{enumerate, EncCase};
use serde_json::{json, Value};

pub const RULE: &str = "every case of the C01 space (a) all mono sequences over Σ(bps) up to length L for bps 1..32, (b) all stereo PCM-frame sequences over Σ5×Σ5 × mid-side × correlation mode, (c) 3..8 channels over {MIN,0,MAX}, (d) 16-sample carrier + every tail over Σ × max-LPC, (e) every option vector with ≤d deviations × small inputs, (f) sample-rate codings, (g) writer × reader front-ends, (h) signal-family grid (incl. period-32/period-12 signals that drive the encoder to LPC orders up to 32, and 12/20-bit depths) on block sizes 16/192/576/4096 (thorough + 17, 100, 1000, 1152, 65535), 1/2 channels everywhere and 3/8 channels on the small blocks, (j) channel-heterogeneous inputs: every assignment of 8 per-channel traits (noise, 4 / 1 wasted bits, constant, silence, ramp, shared noise ± offset, shared noise) to 2 channels × 4 correlation modes and of 4 traits to 3 channels, depths 8/16/24, blocks 16/192, (k) the presets Options::fast() and Options::best() taken whole × signal families × lengths around one and two blocks × all four writers, (l) steep low-pass multi-sine signals that drive the LPC quantiser to shift 0 and into its negative-shift branch; (p) the path-based front-ends on real scratch files (open(path) of the three readers incl. a seek, FrameIterator::open, verify(path), BlockList::open, metadata::info/blocks/block/blocks_of) against their in-memory counterparts, 5 formats × 4 lengths × 3 header shapes; a case is one (writer, options, signal parameters, PCM) tuple; distinct outcomes = distinct (set, result class, frame-shape) keys";
pub const ASSUMPTIONS: &[&str] = &["sample values outside Σ(bps) and the signal-family grid are not explored", "the crate's own decoder is the oracle here; C02 judges the same files with the independent decoder"];
pub fn bounds(quick: bool) -> Value {
    if quick {
        json!({"mono_len": "6 for bps in {1,4,8,12,16,17,20,24,31,32}, 5 otherwise", "stereo_frames": 3, "multichannel_samples": 8, "tail_len": 3, "option_deviations": 2, "family_blocks": [16,192,576,4096]})
    } else {
        json!({"mono_len": 8, "stereo_frames": 4, "multichannel_samples": 12, "tail_len": 5, "option_deviations": 3, "family_blocks": [16,17,100,192,576,1000,1152,4096,65535]})
    }
}

/// Returns None if the property holds on this case, else (signature, description).
pub fn check_case(c: &EncCase, readers: &[ReaderKind]) -> (String, Option<(String, String)>) {
    let bytes = match encode(c.w, &c.opt, &c.sig, c.pcm) {
        Ok(b) => b,
        Err(e) => {
            let cl = err_class(&e);
            return (format!("encode-{cl}"), Some((format!("C01|encode|{cl}"), format!("encoding a valid input failed: {e}"))));
        }
    };
    for &r in readers {
        match decode(r, &bytes) {
            Ok(d) => {
                if d.pcm != c.pcm {
                    let at = d.pcm.iter().zip(c.pcm).position(|(a, b)| a != b).unwrap_or(d.pcm.len().min(c.pcm.len()));
                    return ("mismatch".into(), Some((format!("C01|decode-mismatch|{r:?}"), format!("{r:?} returned different PCM (first difference at sample {at}; got {} samples, wrote {})", d.pcm.len(), c.pcm.len()))));
                }
                if d.ch != c.sig.ch || d.rate != c.sig.rate || d.bps != c.sig.bps {
                    return ("params".into(), Some((format!("C01|params|{r:?}"), format!("{r:?} reports ch/rate/bps {}/{}/{} for {}/{}/{}", d.ch, d.rate, d.bps, c.sig.ch, c.sig.rate, c.sig.bps))));
                }
            }
            Err((e, _)) => {
                let cl = err_class(&e);
                return (format!("decode-{cl}"), Some((format!("C01|decode|{cl}"), format!("{r:?} cannot decode the crate's own output: {e}"))));
            }
        }
    }
    ("ok".into(), None)
}


/// The path-based front-ends (`open(path)` of the three readers and of the frame iterator, `verify(path)`, `BlockList::open`,
/// `metadata::info / blocks / block / blocks_of`) on real scratch files: each must agree with its in-memory counterpart.
fn path_case(bytes: &[u8], pcm: &[i32], sig: &codec::Sig) -> Result<(), (String, String)> {
    use flac_codec::byteorder::{BigEndian, LittleEndian};
    use flac_codec::decode::{verify, verify_reader, FlacByteReader, FlacChannelReader, FlacSampleReader};
    use flac_codec::metadata::{self, BlockList, Streaminfo, VorbisComment};
    use std::io::Read;
    let dir = std::path::Path::new("/verif/target/tmp").join(format!("c01-path-{}", std::process::id()));
    std::fs::create_dir_all(&dir).map_err(|e| ("machinery".to_string(), e.to_string()))?;
    let path = dir.join("in.flac");
    std::fs::write(&path, bytes).map_err(|e| ("machinery".to_string(), e.to_string()))?;
    let p = path.clone();
    let want_bytes_le = codec::pcm_bytes(pcm, sig.bps, false);
    let want_bytes_be = codec::pcm_bytes(pcm, sig.bps, true);
    let bytes2 = bytes.to_vec();
    let pcm2 = pcm.to_vec();
    let ch = sig.ch as usize;
    let r = crate::core::guarded(move || -> Result<(), (String, String)> {
        let e = |w: &str, x: flac_codec::Error| (format!("path|{w}|err"), format!("{w} fails on a file its reader counterpart decodes: {x:?}"));
        let mut got = Vec::new();
        FlacSampleReader::open(&p).map_err(|x| e("FlacSampleReader::open", x))?.read_to_end(&mut got).map_err(|x| e("FlacSampleReader::open", x))?;
        if got != pcm2 {
            return Err(("path|FlacSampleReader::open|pcm".into(), "FlacSampleReader::open decodes different samples".into()));
        }
        let mut b = Vec::new();
        FlacByteReader::open(&p, LittleEndian).map_err(|x| e("FlacByteReader::open", x))?.read_to_end(&mut b).map_err(|x| ("path|FlacByteReader::open|io".to_string(), x.to_string()))?;
        if b != want_bytes_le {
            return Err(("path|FlacByteReader::open|bytes".into(), "FlacByteReader::open(LittleEndian) returns different bytes".into()));
        }
        b.clear();
        FlacByteReader::open(&p, BigEndian).map_err(|x| e("FlacByteReader::open", x))?.read_to_end(&mut b).map_err(|x| ("path|FlacByteReader::open|io".to_string(), x.to_string()))?;
        if b != want_bytes_be {
            return Err(("path|FlacByteReader::open|bytes-be".into(), "FlacByteReader::open(BigEndian) returns different bytes".into()));
        }
        let mut cr = FlacChannelReader::open(&p).map_err(|x| e("FlacChannelReader::open", x))?;
        let mut inter = Vec::new();
        loop {
            let buf = cr.fill_buf().map_err(|x| e("FlacChannelReader::open", x))?;
            let n = buf.first().map(|c| c.len()).unwrap_or(0);
            if n == 0 {
                break;
            }
            for i in 0..n {
                for c in 0..ch {
                    inter.push(buf[c][i]);
                }
            }
            drop(buf);
            cr.consume(n);
        }
        if inter != pcm2 {
            return Err(("path|FlacChannelReader::open|pcm".into(), "FlacChannelReader::open decodes different samples".into()));
        }
        // seeking through the path-based reader (it is the seekable flavour)
        let mut sr = FlacSampleReader::open(&p).map_err(|x| e("FlacSampleReader::open", x))?;
        let frames = pcm2.len() / ch;
        if frames > 3 {
            sr.seek((frames / 2) as u64).map_err(|x| e("FlacSampleReader::open + seek", x))?;
            let mut tail = Vec::new();
            sr.read_to_end(&mut tail).map_err(|x| e("FlacSampleReader::open + seek", x))?;
            if tail != pcm2[(frames / 2) * ch..] {
                return Err(("path|FlacSampleReader::open|seek".into(), "seek on the path-based reader lands elsewhere".into()));
            }
        }
        let v1 = verify(&p).map_err(|x| e("verify", x))?;
        let v2 = verify_reader(&bytes2[..]).map_err(|x| e("verify_reader", x))?;
        if v1 != v2 {
            return Err(("path|verify".into(), format!("verify(path) = {v1:?}, verify_reader = {v2:?}")));
        }
        let n1 = flac_codec::stream::FrameIterator::open(&p).map_err(|x| e("FrameIterator::open", x))?.map(|f| f.map(|(fr, off)| (off, u16::from(fr.header.block_size)))).collect::<Result<Vec<_>, _>>().map_err(|x| e("FrameIterator::open", x))?;
        let n2 = flac_codec::stream::FrameIterator::new(&bytes2[..]).map_err(|x| e("FrameIterator::new", x))?.map(|f| f.map(|(fr, off)| (off, u16::from(fr.header.block_size)))).collect::<Result<Vec<_>, _>>().map_err(|x| e("FrameIterator::new", x))?;
        if n1 != n2 {
            return Err(("path|FrameIterator::open".into(), "FrameIterator::open yields different frames".into()));
        }
        let l1 = BlockList::open(&p).map_err(|x| e("BlockList::open", x))?;
        let l2 = BlockList::read(&bytes2[..]).map_err(|x| e("BlockList::read", x))?;
        if l1.blocks().collect::<Vec<_>>() != l2.blocks().collect::<Vec<_>>() {
            return Err(("path|BlockList::open".into(), "BlockList::open differs from BlockList::read".into()));
        }
        if metadata::info(&p).map_err(|x| e("metadata::info", x))? != metadata::read_info(&bytes2[..]).map_err(|x| e("read_info", x))? {
            return Err(("path|metadata::info".into(), "metadata::info(path) differs from read_info".into()));
        }
        let b1 = metadata::blocks(&p).map_err(|x| ("path|metadata::blocks|io".to_string(), x.to_string()))?.collect::<Result<Vec<_>, _>>().map_err(|x| e("metadata::blocks", x))?;
        let b2 = metadata::read_blocks(&bytes2[..]).collect::<Result<Vec<_>, _>>().map_err(|x| e("read_blocks", x))?;
        if b1 != b2 {
            return Err(("path|metadata::blocks".into(), "metadata::blocks(path) differs from read_blocks".into()));
        }
        if metadata::block::<_, Streaminfo>(&p).map_err(|x| e("metadata::block", x))? != metadata::read_block::<_, Streaminfo>(&bytes2[..]).map_err(|x| e("read_block", x))? {
            return Err(("path|metadata::block".into(), "metadata::block::<Streaminfo>(path) differs from read_block".into()));
        }
        if metadata::block::<_, VorbisComment>(&p).map_err(|x| e("metadata::block", x))? != l2.get::<VorbisComment>().cloned() {
            return Err(("path|metadata::block".into(), "metadata::block::<VorbisComment>(path) differs from the block list".into()));
        }
        let a1 = metadata::blocks_of::<_, flac_codec::metadata::Application>(&p).collect::<Result<Vec<_>, _>>().map_err(|x| e("metadata::blocks_of", x))?;
        let a2: Vec<_> = l2.get_all::<flac_codec::metadata::Application>().cloned().collect();
        if a1 != a2 {
            return Err(("path|metadata::blocks_of".into(), "metadata::blocks_of::<Application>(path) differs from the block list".into()));
        }
        Ok(())
    });
    let _ = std::fs::remove_dir_all(&dir);
    match r {
        Ok(x) => x,
        Err(p) => Err((format!("path|panic@{}", crate::core::panic_loc(&p)), format!("panic: {p}"))),
    }
}

fn paths(ctx: &Ctx, acc: &mut Acc) {
    let mut n = 0u64;
    for sig in [codec::Sig { rate: 44100, bps: 16, ch: 2 }, codec::Sig { rate: 8000, bps: 8, ch: 1 }, codec::Sig { rate: 96000, bps: 24, ch: 3 }, codec::Sig { rate: 48000, bps: 32, ch: 8 }, codec::Sig { rate: 22050, bps: 12, ch: 2 }] {
        for frames in [1usize, 16, 37, 70] {
            for (declared, seek, rich) in [(true, codec::Seek::Frames(1), false), (false, codec::Seek::Off, false), (true, codec::Seek::Default, true)] {
                n += 1;
                if !ctx.mine() {
                    continue;
                }
                let pcm = crate::corpus::ident_pcm(sig.ch, sig.bps, frames);
                let opt = Opt { declared, seek, ..Opt::base16() };
                let Ok(mut bytes) = encode(codec::WriterKind::Sample, &opt, &sig, &pcm) else { continue };
                if rich {
                    bytes = crate::corpus::rich_metadata(&bytes, true);
                }
                acc.states += 1;
                acc.executions += 1;
                acc.transitions += 12;
                match path_case(&bytes, &pcm, &sig) {
                    Ok(()) => acc.outcome(format!("p:ok:ch{}:bps{}", sig.ch, sig.bps)),
                    Err((c, d)) if c == "machinery" => acc.notes.push(format!("machinery: path case: {d}")),
                    Err((c, d)) => {
                        acc.outcome("p:DIFF".to_string());
                        acc.violation(format!("C01|{c}"), format!("{}ch/{}bit, {frames} PCM frames: {d}", sig.ch, sig.bps), json!({"kind":"path-frontends","rate":sig.rate,"bps":sig.bps,"ch":sig.ch,"frames":frames,"opt":opt.to_json(),"rich":rich}));
                    }
                }
            }
        }
    }
    let _ = n;
}

pub fn run(ctx: &Ctx, acc: &mut Acc) {
    paths(ctx, acc);
    let only = [ReaderKind::SampleFill];
    enumerate(ctx, "abcdefghjkl", &mut |c: &EncCase| {
        let readers: &[ReaderKind] = if c.set == "g" { &READERS } else { &only };
        let (out, v) = check_case(c, readers);
        acc.states += 1;
        acc.executions += 1;
        acc.transitions += 1 + readers.len() as u64;
        acc.dim(&format!("set_{}", c.set), 1);
        acc.outcome(format!("{}:{}:ch{}:bps{}", c.set, out, c.sig.ch, c.sig.bps));
        if acc.states % 50_000 == 1 {
            acc.sample(case_json("enc-roundtrip", c.w, &c.opt, &c.sig, &c.pcm[..c.pcm.len().min(64)]));
        }
        if let Some((sig, what)) = v {
            let mut case = case_json("enc-roundtrip", c.w, &c.opt, &c.sig, c.pcm);
            case["readers"] = json!(readers.iter().map(|r| format!("{r:?}")).collect::<Vec<_>>());
            acc.violation(sig, what, case);
        }
    });
}

pub fn replay(v: &Value) -> Option<(bool, String)> {
    if v["kind"] == "path-frontends" {
        let sig = codec::sig_from(v);
        let pcm = crate::corpus::ident_pcm(sig.ch, sig.bps, v["frames"].as_u64()? as usize);
        let mut bytes = encode(codec::WriterKind::Sample, &Opt::from_json(&v["opt"]), &sig, &pcm).ok()?;
        if v["rich"].as_bool().unwrap_or(false) {
            bytes = crate::corpus::rich_metadata(&bytes, true);
        }
        let r = path_case(&bytes, &pcm, &sig);
        return Some((r.is_err(), format!("{r:?}")));
    }
    if v["kind"] != "enc-roundtrip" {
        return None;
    }
    let pcm = crate::core::ivec(&v["pcm"]);
    let readers: Vec<ReaderKind> = v["readers"].as_array().map(|a| a.iter().map(|r| codec::reader_from(r.as_str().unwrap_or(""))).collect()).unwrap_or(vec![ReaderKind::SampleFill]);
    let c = EncCase { set: "replay", w: codec::writer_from(v["writer"].as_str().unwrap_or("")), opt: Opt::from_json(&v["opt"]), sig: codec::sig_from(v), pcm: &pcm };
    let (out, viol) = check_case(&c, &readers);
    Some((viol.is_some(), format!("outcome={out} {}", viol.map(|(s, w)| format!("signature={s} :: {w}")).unwrap_or_default())))
}
