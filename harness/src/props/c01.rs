//! C01 — encoding is lossless.  Shape G: bounded-exhaustive inputs × option lattice × front-ends;
//! oracle: identity on the PCM vector through the crate's own decoders.
use crate::codec::{self, case_json, decode, encode, err_class, Opt, ReaderKind, READERS};
use crate::core::{Acc, Ctx};
use crate::encspace::{enumerate, EncCase};
use serde_json::{json, Value};

pub const RULE: &str = "every case of the C01 space (a) all mono sequences over Σ(bps) up to length L for bps 1..32, (b) all stereo PCM-frame sequences over Σ5×Σ5 × mid-side × correlation mode, (c) 3..8 channels over {MIN,0,MAX}, (d) 16-sample carrier + every tail over Σ × max-LPC, (e) every option vector with ≤d deviations × small inputs, (f) sample-rate codings, (g) writer × reader front-ends, (h) signal-family grid (incl. period-32/period-12 signals that drive the encoder to LPC orders up to 32, and 12/20-bit depths) on block sizes 16/192/576/4096 (thorough + 17, 100, 1000, 1152, 65535), 1/2 channels everywhere and 3/8 channels on the small blocks, (j) channel-heterogeneous inputs: every assignment of 8 per-channel traits (noise, 4 / 1 wasted bits, constant, silence, ramp, shared noise ± offset, shared noise) to 2 channels × 4 correlation modes and of 4 traits to 3 channels, depths 8/16/24, blocks 16/192, (k) the presets Options::fast() and Options::best() taken whole × signal families × lengths around one and two blocks × all four writers, (l) steep low-pass multi-sine signals that drive the LPC quantiser to shift 0 and into its negative-shift branch; a case is one (writer, options, signal parameters, PCM) tuple; distinct outcomes = distinct (set, result class, frame-shape) keys";
pub const ASSUMPTIONS: &[&str] = &["sample values outside Σ(bps) and the signal-family grid are not explored", "the crate's own decoder is the oracle here; C02 judges the same files with the independent decoder"];
pub fn bounds(quick: bool) -> Value {
    if quick {
        json!({"mono_len": "6 for bps in {1,4,8,12,16,17,20,24,31,32}, 5 otherwise", "stereo_frames": 3, "multichannel_samples": 8, "tail_len": 3, "option_deviations": 2, "family_blocks": [16,192,576,4096]})
    } else {
        json!({"mono_len": 8, "stereo_frames": 4, "multichannel_samples": 12, "tail_len": 5, "option_deviations": 3, "family_blocks": [16,17,100,192,576,1000,1152,4096,65535]})
    }
}

/// Returns None if the property holds on this case, else (signature, description).
pub fn check_case(c: &EncCase, readers: &[ReaderKind]) -> (String, Option<(String, String)>) {
    let bytes = match encode(c.w, &c.opt, &c.sig, c.pcm) {
        Ok(b) => b,
        Err(e) => {
            let cl = err_class(&e);
            return (format!("encode-{cl}"), Some((format!("C01|encode|{cl}"), format!("encoding a valid input failed: {e}"))));
        }
    };
    for &r in readers {
        match decode(r, &bytes) {
            Ok(d) => {
                if d.pcm != c.pcm {
                    let at = d.pcm.iter().zip(c.pcm).position(|(a, b)| a != b).unwrap_or(d.pcm.len().min(c.pcm.len()));
                    return ("mismatch".into(), Some((format!("C01|decode-mismatch|{r:?}"), format!("{r:?} returned different PCM (first difference at sample {at}; got {} samples, wrote {})", d.pcm.len(), c.pcm.len()))));
                }
                if d.ch != c.sig.ch || d.rate != c.sig.rate || d.bps != c.sig.bps {
                    return ("params".into(), Some((format!("C01|params|{r:?}"), format!("{r:?} reports ch/rate/bps {}/{}/{} for {}/{}/{}", d.ch, d.rate, d.bps, c.sig.ch, c.sig.rate, c.sig.bps))));
                }
            }
            Err((e, _)) => {
                let cl = err_class(&e);
                return (format!("decode-{cl}"), Some((format!("C01|decode|{cl}"), format!("{r:?} cannot decode the crate's own output: {e}"))));
            }
        }
    }
    ("ok".into(), None)
}

pub fn run(ctx: &Ctx, acc: &mut Acc) {
    let only = [ReaderKind::SampleFill];
    enumerate(ctx, "abcdefghjkl", &mut |c: &EncCase| {
        let readers: &[ReaderKind] = if c.set == "g" { &READERS } else { &only };
        let (out, v) = check_case(c, readers);
        acc.states += 1;
        acc.executions += 1;
        acc.transitions += 1 + readers.len() as u64;
        acc.dim(&format!("set_{}", c.set), 1);
        acc.outcome(format!("{}:{}:ch{}:bps{}", c.set, out, c.sig.ch, c.sig.bps));
        if acc.states % 50_000 == 1 {
            acc.sample(case_json("enc-roundtrip", c.w, &c.opt, &c.sig, &c.pcm[..c.pcm.len().min(64)]));
        }
        if let Some((sig, what)) = v {
            let mut case = case_json("enc-roundtrip", c.w, &c.opt, &c.sig, c.pcm);
            case["readers"] = json!(readers.iter().map(|r| format!("{r:?}")).collect::<Vec<_>>());
            acc.violation(sig, what, case);
        }
    });
}

pub fn replay(v: &Value) -> Option<(bool, String)> {
    if v["kind"] != "enc-roundtrip" {
        return None;
    }
    let pcm = crate::core::ivec(&v["pcm"]);
    let readers: Vec<ReaderKind> = v["readers"].as_array().map(|a| a.iter().map(|r| codec::reader_from(r.as_str().unwrap_or(""))).collect()).unwrap_or(vec![ReaderKind::SampleFill]);
    let c = EncCase { set: "replay", w: codec::writer_from(v["writer"].as_str().unwrap_or("")), opt: Opt::from_json(&v["opt"]), sig: codec::sig_from(v), pcm: &pcm };
    let (out, viol) = check_case(&c, &readers);
    Some((viol.is_some(), format!("outcome={out} {}", viol.map(|(s, w)| format!("signature={s} :: {w}")).unwrap_or_default())))
}
