//! C05 — damaged or invalid streams are reported as errors, never decoded silently.
//! Shapes G + E: every single-bit flip in the audio frames and every truncation point of every corpus file;
//! every must-reject class built by fgen with valid checksums (singles, and pairs with every valid deviation).
use crate::codec::{decode, err_class, ReaderKind};
use crate::core::{for_each_deviation, guarded, hex, unhex, Acc, Ctx};
use crate::corpus::{damage_corpus, TestFile};
use crate::gspace::{bad_knobs, make_spec, menus, NAMES};
use flac_codec::decode::{verify_reader, Verified};
use serde_json::{json, Value};
use vph::fgen;
use vph::refdec;

pub const RULE: &str = "(3) STREAMINFO contradictions: two-frame streams of 1..8 independent channels and the three stereo decorrelations at 8/16/24 bits whose STREAMINFO channel count is overwritten with every other value 1..8, depth with 10 other values, rate with 6 other values (checksums valid): nothing may be delivered; (1) for each file of the damage corpus (crate-encoded mono/stereo/multichannel files with and without seek table and with unknown total; fgen-built files covering verbatim/constant/fixed/LPC subframes, wasted bits, escaped partitions, 5-bit Rice method, variable blocking and all stereo modes): EVERY single-bit flip at or after the first frame byte and EVERY truncation length, decoded through 4 reader front-ends + verify_reader, plus every bit of the stored MD5; (2) every must-reject class (bad sync, reserved header bit, reserved/illegal block-size, rate, channel, depth codes, malformed coded numbers, wrong CRC-8/CRC-16, header fields inconsistent with STREAMINFO, frame exceeding the declared total, subframe pad bit, reserved subframe types, wasted bits ≥ depth, precision 1111, negative shift, reserved coding methods, illegal partition orders, non-final blocks of 1..14 samples in fixed- and variable-blocksize streams) generated with valid checksums in frame 0 and in the last frame of the plain stream and of every stream within 2 (thorough 4) valid deviations; oracle: Ok ⇒ the independent decoder accepts the altered bytes with the same PCM; Err ⇒ samples delivered before it are a whole-frame prefix of the original and contain nothing of a must-reject frame; MD5Match only if the decoded PCM hashes to the stored digest, NoMD5 only for bytes the independent decoder accepts (the corpus holds files without a stored digest)";
pub const ASSUMPTIONS: &[&str] = &["damage limited to one bit flip or one truncation per file; two simultaneous malformations only as (malformation × valid deviation)", "codes a decoder may but need not reject (non-zero padding, residual = -2^31, out-of-range reconstructed samples, a non-final block of exactly 15 samples, zero-length first partition) impose no verdict; non-final blocks of <= 14 samples must be rejected (the crate's short-block rule)"];
pub fn bounds(quick: bool) -> Value {
    json!({"corpus_files": crate::corpus::damage_corpus(false).len(), "bit_flips": "every bit from the first frame byte on", "truncations": "every length", "malformed_pairs": if quick { "bad × ≤2 valid deviations" } else { "bad × ≤4 valid deviations" }})
}

const READERS: [ReaderKind; 4] = [ReaderKind::SampleFill, ReaderKind::ByteLE, ReaderKind::Channel, ReaderKind::SampleRead];
const MAY_ACCEPT: [&str; 4] = ["residual-min", "residual-range", "sample-range", "short-nonfinal-block"];

/// "only the last block may be shorter than 16 samples": the crate enforces <= 14 (a 15-sample non-final block is a grey
/// zone between the RFC's < 16 and the crate's rule and gets no verdict); shorter non-final blocks must be rejected.
fn short_block_must_reject(rej: &refdec::Reject) -> bool {
    if rej.code != "short-nonfinal-block" {
        return false;
    }
    // message: "... has block size N but is not the last frame"
    rej.msg.split("block size ").nth(1).and_then(|t| t.split_whitespace().next()).and_then(|n| n.parse::<u32>().ok()).map(|n| n <= 14).unwrap_or(false)
}

/// `orig_pcm` + cumulative interleaved sample counts per original frame; `bad_from`: index of the first frame whose
/// samples must not be delivered (usize::MAX = none).
pub fn judge(altered: &[u8], orig_pcm: &[i32], cum: &[usize], bad_from: usize) -> Option<(String, String)> {
    let reference = guarded(|| refdec::decode(altered));
    let reference = match reference {
        Ok(r) => r,
        Err(p) => return Some(("machinery-refdec-panic".into(), p)),
    };
    for r in READERS {
        match decode(r, altered) {
            Ok(d) => match &reference {
                Ok(st) => {
                    if st.pcm != d.pcm {
                        return Some(("decodes-differently-from-independent-decoder".into(), format!("{r:?} returns Ok with {} samples, the independent decoder gives {} (first difference at {:?})", d.pcm.len(), st.pcm.len(), d.pcm.iter().zip(&st.pcm).position(|(a, b)| a != b))));
                    }
                }
                Err(rej) if MAY_ACCEPT.contains(&rej.code) && !short_block_must_reject(rej) => {}
                Err(rej) => return Some((format!("invalid-stream-decoded-silently|{}", rej.code), format!("{r:?} returns Ok ({} samples) for bytes the independent decoder rejects: {} ({})", d.pcm.len(), rej.code, rej.msg))),
            },
            Err((e, got)) => {
                if e.starts_with("panic:") {
                    return Some((format!("panic@{}", crate::core::panic_loc(&e)), format!("{r:?}: {e}")));
                }
                // delivered-before-error must be a whole-frame prefix of the original audio
                let ok_prefix = got.len() <= orig_pcm.len() && got[..] == orig_pcm[..got.len()] && (got.is_empty() || cum.contains(&got.len()));
                if !ok_prefix {
                    return Some(("garbage-delivered-before-error".into(), format!("{r:?} delivered {} samples before '{}' that are not a whole-frame prefix of the original ({:?})", got.len(), err_class(&e), cum)));
                }
                if bad_from != usize::MAX {
                    let limit = if bad_from == 0 { 0 } else { cum[bad_from - 1] };
                    if got.len() > limit {
                        return Some(("must-reject-frame-delivered".into(), format!("{r:?} delivered {} samples (frames up to #{}) although frame #{bad_from} is illegal; error afterwards: {}", got.len(), cum.iter().position(|c| *c == got.len()).unwrap_or(99), err_class(&e))));
                    }
                }
            }
        }
    }
    // verify_reader: "no digest stored" is only a truthful verdict for bytes that decode at all — NoMD5 for bytes the
    // independent decoder rejects is a damaged stream decoded silently
    if let Ok(Ok(Verified::NoMD5)) = guarded(|| verify_reader(altered)) {
        if let Err(rej) = &reference {
            if !(MAY_ACCEPT.contains(&rej.code) && !short_block_must_reject(rej)) {
                return Some((format!("verify-accepts-invalid-stream|{}", rej.code), format!("verify_reader returns Ok(NoMD5) for bytes the independent decoder rejects: {} ({})", rej.code, rej.msg)));
            }
        }
    }
    // verify_reader: MD5Match only for PCM that really hashes to the stored digest
    if let Ok(Ok(Verified::MD5Match)) = guarded(|| verify_reader(altered)) {
        let ok = match &reference {
            Ok(st) => refdec::pcm_md5(&st.pcm, st.info.bps) == st.info.md5,
            // streams a decoder may accept although the strict reference does not: no verdict
            Err(rej) => MAY_ACCEPT.contains(&rej.code) && !short_block_must_reject(rej),
        };
        if !ok {
            return Some(("false-md5-match".into(), "verify_reader reports MD5Match although the bytes do not decode to PCM with the stored digest".into()));
        }
    }
    None
}

fn cum_of(f: &TestFile) -> Vec<usize> {
    let mut c = 0;
    f.frames.iter().map(|(_, _, _, bs)| { c += *bs as usize * f.sig.ch as usize; c }).collect()
}

pub fn run(ctx: &Ctx, acc: &mut Acc) {
    // ---- (1) bit flips and truncations
    for f in damage_corpus(ctx.quick) {
        let cum = cum_of(&f);
        let case = |kind: &str, at: usize| json!({"kind":"damage","file":f.desc,"quick":ctx.quick,"how":kind,"at":at});
        // unaltered file must decode (sanity; a failure here is C03's business but would make the rest vacuous)
        if ctx.shard == 0 {
            if let Some((c, d)) = judge(&f.bytes, &f.pcm, &cum, usize::MAX) {
                acc.violation(format!("C05|pristine|{c}"), format!("{}: {d}", f.desc), case("none", 0));
            }
        }
        for bit in f.first_frame * 8..f.bytes.len() * 8 {
            if !ctx.mine() {
                continue;
            }
            let mut a = f.bytes.clone();
            a[bit / 8] ^= 0x80 >> (bit % 8);
            // frame containing the flipped bit: its samples must not be delivered
            let fi = f.frames.iter().position(|(o, l, _, _)| bit / 8 >= *o && bit / 8 < o + l).unwrap_or(usize::MAX);
            acc.states += 1;
            acc.executions += 1;
            acc.transitions += 5;
            match judge(&a, &f.pcm, &cum, fi) {
                None => acc.outcome("flip:reported"),
                Some((c, d)) => {
                    acc.outcome(format!("flip:{}", c.split('|').next().unwrap()));
                    acc.violation(format!("C05|bit-flip|{c}"), format!("{} bit {bit} (byte {}, frame #{fi}): {d}", f.desc, bit / 8), case("flip", bit));
                }
            }
        }
        for len in 0..f.bytes.len() {
            if !ctx.mine() {
                continue;
            }
            acc.states += 1;
            acc.executions += 1;
            acc.transitions += 5;
            // frames not completely inside the prefix must not be delivered
            let fi = f.frames.iter().position(|(o, l, _, _)| o + l > len).unwrap_or(usize::MAX);
            match judge(&f.bytes[..len], &f.pcm, &cum, fi) {
                None => acc.outcome(if f.total_known { "cut:known-total:reported" } else { "cut:unknown-total:consistent" }),
                Some((c, d)) => {
                    acc.outcome(format!("cut:{}", c.split('|').next().unwrap()));
                    acc.violation(format!("C05|truncation|{c}"), format!("{} cut at {len}: {d}", f.desc), case("cut", len));
                }
            }
        }
        // stored MD5 bits (STREAMINFO body offset 8+18 .. +16)
        if f.total_known {
            for bit in 0..128usize {
                if !ctx.mine() {
                    continue;
                }
                let mut a = f.bytes.clone();
                a[8 + 18 + bit / 8] ^= 0x80 >> (bit % 8);
                acc.states += 1;
                acc.executions += 1;
                acc.transitions += 1;
                match guarded(|| verify_reader(&a[..])) {
                    Ok(Ok(Verified::MD5Mismatch)) => acc.outcome("md5bit:mismatch-reported"),
                    Ok(Ok(Verified::NoMD5)) if a[26..42].iter().all(|b| *b == 0) => acc.outcome("md5bit:nomd5"),
                    other => {
                        acc.outcome("md5bit:BAD");
                        acc.violation("C05|md5|corrupted-digest-not-reported".to_string(), format!("{}: stored MD5 bit {bit} flipped, verify_reader says {other:?}", f.desc), case("md5bit", bit));
                    }
                }
            }
        }
    }
    // ---- (2) must-reject classes with valid checksums
    let m = menus();
    let knobs = bad_knobs();
    for_each_deviation(&m, if ctx.quick { 2 } else { 4 }, |k| {
        let base = match make_spec(k) {
            Ok(s) => s,
            Err(_) => return,
        };
        for (ki, knob) in knobs.iter().enumerate() {
            for which in 0..2usize {
                if !ctx.mine() {
                    continue;
                }
                let fidx = if which == 0 { 0 } else { base.frames.len() - 1 };
                if which == 1 && base.frames.len() == 1 {
                    continue;
                }
                let mut spec = base.clone();
                (knob.apply)(&mut spec, fidx);
                let clean = match fgen::build(&base) {
                    Ok(b) => b,
                    Err(_) => continue,
                };
                let b = match fgen::build(&spec) {
                    Ok(b) => b,
                    Err(_) => {
                        acc.dim("unbuildable", 1);
                        continue;
                    }
                };
                let ch = base.channels as usize;
                let mut c = 0;
                let cum: Vec<usize> = base.frames.iter().map(|f| { c += f.pcm[0].len() * ch; c }).collect();
                // first frame that must not be delivered
                let bad_from = if !knob.must_reject { usize::MAX } else { match knob.name {
                    "total-too-small" => base.frames.len() - 1,
                    "total-too-large" | "total-too-large-by-2^32" | "total-too-large-by-2^35" => usize::MAX,
                    "short-nonfinal-block-5" | "short-nonfinal-block-14" => 0,
                    "block>info-max" => { let mx = base.frames.iter().map(|f| f.pcm[0].len()).max().unwrap(); base.frames.iter().position(|f| f.pcm[0].len() == mx).unwrap() }
                    _ => fidx,
                } };
                acc.states += 1;
                acc.executions += 1;
                acc.transitions += 5;
                let axes: Vec<&str> = k.iter().enumerate().filter(|(_, v)| **v != 0).map(|(i, _)| NAMES[i]).collect();
                let verdict = judge(&b.bytes, &clean.pcm, &cum, bad_from);
                // a must-reject stream that every reader nevertheless decodes "Ok" is caught inside judge through refdec
                match verdict {
                    None => acc.outcome(format!("bad:{}:{}", knob.name, if knob.must_reject { "reported" } else { "consistent" })),
                    Some((c, d)) => {
                        acc.outcome(format!("bad:{}:{}", knob.name, c.split('|').next().unwrap()));
                        acc.violation(format!("C05|{}|{c}", knob.name), format!("malformation '{}' in frame #{fidx} of stream {:?}+{axes:?}: {d}", knob.name, k), json!({"kind":"malformed","bytes":hex(&b.bytes),"pcm":clean.pcm,"cum":cum,"bad_from":bad_from as u64,"knob":ki,"vector":k}));
                    }
                }
            }
        }
    });
    streaminfo_contradictions(ctx, acc);
    acc.sample(json!({"kind":"damage","file":"enc-ch1-bps16-seek0","how":"flip","at":4000}));
}

/// (3) every frame of a checksum-valid stream contradicts STREAMINFO: the channel count, depth or rate field of the
/// STREAMINFO block is overwritten with every other value; nothing may be delivered (bad_from = frame 0).
fn streaminfo_contradictions(ctx: &Ctx, acc: &mut Acc) {
    use vph::fgen::{plain_frame, plain_stream, Assign, Md5Spec};
    let mut bases: Vec<(u8, u8, Assign)> = Vec::new();
    for bps in [8u8, 16, 24] {
        for ch in 1..=8u8 {
            bases.push((ch, bps, Assign::Independent));
        }
        for a in [Assign::LeftSide, Assign::SideRight, Assign::MidSide] {
            bases.push((2, bps, a));
        }
    }
    for (ch, bps, assign) in bases {
        let mk = |base: usize| {
            let mut f = plain_frame((0..ch as usize).map(|c| crate::gspace::target(0, bps, c, 16, base, 0)).collect());
            f.assign = assign.clone();
            f
        };
        let mut spec = plain_stream(ch, bps, 48000, vec![mk(0), mk(16)]);
        spec.md5 = Md5Spec::Zero;
        let clean = match fgen::build(&spec) {
            Ok(b) => b,
            Err(_) => {
                acc.dim("unbuildable", 1);
                continue;
            }
        };
        let cum = vec![16 * ch as usize, 32 * ch as usize];
        // STREAMINFO body starts at byte 8: rate = 20 bits at body+10, channels-1 = 3 bits, bps-1 = 5 bits
        let mut patches: Vec<(String, Vec<u8>)> = Vec::new();
        let put = |b: &mut Vec<u8>, rate: u32, c: u8, d: u8| {
            let v: u32 = (rate << 12) | ((c as u32 - 1) << 9) | ((d as u32 - 1) << 4);
            let keep = b[21] & 0x0F;
            b[18] = (v >> 24) as u8;
            b[19] = (v >> 16) as u8;
            b[20] = (v >> 8) as u8;
            b[21] = (v as u8 & 0xF0) | keep;
        };
        for c2 in 1..=8u8 {
            if c2 != ch {
                let mut b = clean.bytes.clone();
                put(&mut b, 48000, c2, bps);
                patches.push((format!("channels {ch}->{c2}"), b));
            }
        }
        for d2 in [4u8, 8, 12, 15, 16, 17, 20, 24, 25, 32] {
            if d2 != bps {
                let mut b = clean.bytes.clone();
                put(&mut b, 48000, ch, d2);
                patches.push((format!("depth {bps}->{d2}"), b));
            }
        }
        for r2 in [44100u32, 47999, 48001, 96000, 4800, 1048575] {
            let mut b = clean.bytes.clone();
            put(&mut b, r2, ch, bps);
            patches.push((format!("rate 48000->{r2}"), b));
        }
        // the builder's own STREAMINFO must be reproduced by `put` with the true values (guards the offsets used here)
        let mut same = clean.bytes.clone();
        put(&mut same, 48000, ch, bps);
        if same != clean.bytes {
            acc.notes.push(format!("machinery: C05 stage 3: STREAMINFO offsets do not reproduce the builder's header for {ch}ch/{bps}bit"));
            continue;
        }
        for (what, bytes) in patches {
            if !ctx.mine() {
                continue;
            }
            acc.states += 1;
            acc.executions += 1;
            acc.transitions += 5;
            match judge(&bytes, &clean.pcm, &cum, 0) {
                None => acc.outcome(format!("info-contradiction:{}:reported", what.split(' ').next().unwrap())),
                Some((c, d)) => {
                    acc.outcome(format!("info-contradiction:{}:{}", what.split(' ').next().unwrap(), c.split('|').next().unwrap()));
                    acc.violation(format!("C05|streaminfo-contradiction|{}|{c}", what.split(' ').next().unwrap()), format!("{ch}-channel {bps}-bit 48000 Hz frames ({assign:?}) behind a STREAMINFO patched to {what}: {d}"), json!({"kind":"malformed","bytes":hex(&bytes),"pcm":clean.pcm,"cum":cum,"bad_from":0,"what":what}));
                }
            }
        }
    }
}

pub fn replay(v: &Value) -> Option<(bool, String)> {
    match v["kind"].as_str()? {
        "damage" => {
            let name = v["file"].as_str()?;
            let f = damage_corpus(v["quick"].as_bool().unwrap_or(false)).into_iter().find(|f| f.desc == name)?;
            let cum = cum_of(&f);
            let at = v["at"].as_u64()? as usize;
            let r = match v["how"].as_str()? {
                "flip" => {
                    let mut a = f.bytes.clone();
                    a[at / 8] ^= 0x80 >> (at % 8);
                    let fi = f.frames.iter().position(|(o, l, _, _)| at / 8 >= *o && at / 8 < o + l).unwrap_or(usize::MAX);
                    judge(&a, &f.pcm, &cum, fi)
                }
                "cut" => {
                    let fi = f.frames.iter().position(|(o, l, _, _)| o + l > at).unwrap_or(usize::MAX);
                    judge(&f.bytes[..at], &f.pcm, &cum, fi)
                }
                "md5bit" => {
                    let mut a = f.bytes.clone();
                    a[26 + at / 8] ^= 0x80 >> (at % 8);
                    match guarded(|| verify_reader(&a[..])) {
                        Ok(Ok(Verified::MD5Mismatch)) => None,
                        other => Some(("md5".into(), format!("{other:?}"))),
                    }
                }
                _ => judge(&f.bytes, &f.pcm, &cum, usize::MAX),
            };
            Some((r.is_some(), format!("{r:?}")))
        }
        "malformed" => {
            let bytes = unhex(v["bytes"].as_str()?);
            let pcm = crate::core::ivec(&v["pcm"]);
            let cum: Vec<usize> = v["cum"].as_array()?.iter().map(|x| x.as_u64().unwrap_or(0) as usize).collect();
            let bf = v["bad_from"].as_u64()? as usize;
            let r = judge(&bytes, &pcm, &cum, bf);
            Some((r.is_some(), format!("{r:?}")))
        }
        _ => None,
    }
}
