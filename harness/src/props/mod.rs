//! Property dispatch table.
use crate::core::{Acc, Ctx};
use serde_json::Value;

pub mod c01;
pub mod c02;
pub mod c03;
pub mod c04;
pub mod c05;
pub mod c06;
pub mod c07;
pub mod c08;
pub mod c09;
pub mod c10;
pub mod c11;
pub mod c12;
pub mod c12_cue;
pub mod c12_meta;
pub mod c13;
pub mod c14;
pub mod c15;
pub mod c16;
pub mod c17;
pub mod c19;
pub mod c20;

pub fn run(ctx: &Ctx, acc: &mut Acc) -> bool {
    match ctx.prop.as_str() {
        "C01" => c01::run(ctx, acc),
        "C02" => c02::run(ctx, acc),
        "C03" => c03::run(ctx, acc),
        "C04" => c04::run(ctx, acc),
        "C05" => c05::run(ctx, acc),
        "C06" => c06::run(ctx, acc),
        "C07" => c07::run(ctx, acc),
        "C08" => c08::run(ctx, acc),
        "C09" => c09::run(ctx, acc),
        "C10" => c10::run(ctx, acc),
        "C11" => c11::run(ctx, acc),
        "C12" => c12::run(ctx, acc),
        "C13" => c13::run(ctx, acc),
        "C14" => c14::run(ctx, acc),
        "C15" => c15::run(ctx, acc),
        "C16" => c16::run(ctx, acc),
        "C17" => c17::run(ctx, acc),
        "C19" => c19::run(ctx, acc),
        "C20" => c20::run(ctx, acc),
        _ => return false,
    }
    true
}

/// Build profiles a property is explored under.
pub fn profiles(id: &str) -> Vec<String> {
    let both = ["C03", "C04", "C12", "C15"];
    let known = ["C01", "C02", "C05", "C06", "C07", "C08", "C09", "C10", "C11", "C13", "C14", "C16", "C17", "C19", "C20"];
    if both.contains(&id) {
        vec!["opt".into(), "chk".into()]
    } else if known.contains(&id) {
        vec!["opt".into()]
    } else {
        vec![]
    }
}

/// For totality properties a worker that aborts or hangs *is* a verdict; elsewhere it is a machinery failure.
pub fn worker_death_is_violation(id: &str) -> bool {
    matches!(id, "C04" | "C12")
}

pub fn replay(id: &str, v: &Value) -> Option<(bool, String)> {
    match id {
        "C01" => c01::replay(v),
        "C02" => c02::replay(v),
        "C03" => c03::replay(v),
        "C04" => c04::replay(v),
        "C05" => c05::replay(v),
        "C06" => c06::replay(v),
        "C07" => c07::replay(v),
        "C08" => c08::replay(v),
        "C09" => c09::replay(v),
        "C10" => c10::replay(v),
        "C11" => c11::replay(v),
        "C12" => c12::replay(v),
        "C13" => c13::replay(v),
        "C14" => c14::replay(v),
        "C15" => c15::replay(v),
        "C16" => c16::replay(v),
        "C17" => c17::replay(v),
        "C19" => c19::replay(v),
        "C20" => c20::replay(v),
        _ => None,
    }
}

pub fn rule(id: &str) -> &'static str {
    match id {
        "C01" => c01::RULE,
        "C02" => c02::RULE,
        "C03" => c03::RULE,
        "C04" => c04::RULE,
        "C05" => c05::RULE,
        "C06" => c06::RULE,
        "C07" => c07::RULE,
        "C08" => c08::RULE,
        "C09" => c09::RULE,
        "C10" => c10::RULE,
        "C11" => c11::RULE,
        "C12" => c12::RULE,
        "C13" => c13::RULE,
        "C14" => c14::RULE,
        "C15" => c15::RULE,
        "C16" => c16::RULE,
        "C17" => c17::RULE,
        "C19" => c19::RULE,
        "C20" => c20::RULE,
        _ => "",
    }
}
pub fn bounds(id: &str, quick: bool) -> Value {
    match id {
        "C01" => c01::bounds(quick),
        "C02" => c02::bounds(quick),
        "C03" => c03::bounds(quick),
        "C04" => c04::bounds(quick),
        "C05" => c05::bounds(quick),
        "C06" => c06::bounds(quick),
        "C07" => c07::bounds(quick),
        "C08" => c08::bounds(quick),
        "C09" => c09::bounds(quick),
        "C10" => c10::bounds(quick),
        "C11" => c11::bounds(quick),
        "C12" => c12::bounds(quick),
        "C13" => c13::bounds(quick),
        "C14" => c14::bounds(quick),
        "C15" => c15::bounds(quick),
        "C16" => c16::bounds(quick),
        "C17" => c17::bounds(quick),
        "C19" => c19::bounds(quick),
        "C20" => c20::bounds(quick),
        _ => Value::Null,
    }
}
pub fn assumptions(id: &str) -> Vec<&'static str> {
    let mut v = vec![
        "the crate is deterministic (no clocks, RNG, globals): one execution per (input, history, environment) tuple is exhaustive for that tuple; violations are replayed twice before being reported",
        "behaviour outside the enumerated alphabets / bounds listed in coverage.bounds_completed is not covered",
    ];
    v.extend(match id {
        "C01" => c01::ASSUMPTIONS,
        "C02" => c02::ASSUMPTIONS,
        "C03" => c03::ASSUMPTIONS,
        "C04" => c04::ASSUMPTIONS,
        "C05" => c05::ASSUMPTIONS,
        "C06" => c06::ASSUMPTIONS,
        "C07" => c07::ASSUMPTIONS,
        "C08" => c08::ASSUMPTIONS,
        "C09" => c09::ASSUMPTIONS,
        "C10" => c10::ASSUMPTIONS,
        "C11" => c11::ASSUMPTIONS,
        "C12" => c12::ASSUMPTIONS,
        "C13" => c13::ASSUMPTIONS,
        "C14" => c14::ASSUMPTIONS,
        "C15" => c15::ASSUMPTIONS,
        "C16" => c16::ASSUMPTIONS,
        "C17" => c17::ASSUMPTIONS,
        "C19" => c19::ASSUMPTIONS,
        "C20" => c20::ASSUMPTIONS,
        _ => &[],
    });
    v
}

/// parent-side checks over the merged results (cross-process comparisons)
pub fn post_merge(id: &str, acc: &mut Acc) {
    if id == "C08" {
        c08::post_merge(acc)
    }
}

/// Reference-model self-binding (run by `./check setup`): a failure here is a machinery error, never a verdict.
/// (a) the independent decoder must decode the libFLAC-made fixtures of the repository with its own MD5 equal to the
///     MD5 stored in their STREAMINFO; (b) generator and reference decoder must invert each other on the plain
///     stream and every single-deviation stream of the grammar space.
pub fn selftest() -> i32 {
    use vph::{fgen, refdec};
    let mut bad = 0;
    let mut n = 0;
    if let Ok(rd) = std::fs::read_dir("/repo/tests/data") {
        let mut files: Vec<_> = rd.filter_map(|e| e.ok()).map(|e| e.path()).filter(|p| p.extension().map(|x| x == "flac").unwrap_or(false)).collect();
        files.sort();
        for p in files {
            // cuesheet.flac declares 48.7M samples (≈2 GiB in the reference decoder's per-frame bookkeeping): skipped here
            if p.file_name().map(|f| f == "cuesheet.flac").unwrap_or(false) {
                continue;
            }
            let bytes = match std::fs::read(&p) {
                Ok(b) => b,
                Err(_) => continue,
            };
            n += 1;
            match crate::core::guarded(|| refdec::decode(&bytes)) {
                Ok(Ok(st)) => {
                    if st.info.md5 != [0; 16] && refdec::pcm_md5(&st.pcm, st.info.bps) != st.info.md5 {
                        eprintln!("MACHINERY: refdec decodes {} to PCM whose MD5 differs from STREAMINFO", p.display());
                        bad += 1;
                    }
                }
                Ok(Err(r)) => {
                    eprintln!("MACHINERY: refdec rejects fixture {}: {} {}", p.display(), r.code, r.msg);
                    bad += 1;
                }
                Err(pn) => {
                    eprintln!("MACHINERY: refdec panics on {}: {pn}", p.display());
                    bad += 1;
                }
            }
        }
    }
    let menus = crate::gspace::menus();
    let mut built = 0;
    crate::core::for_each_deviation(&menus, 1, |k| {
        if let Ok(spec) = crate::gspace::make_spec(k) {
            if let Ok(b) = fgen::build(&spec) {
                built += 1;
                match crate::core::guarded(|| refdec::decode(&b.bytes)) {
                    Ok(Ok(st)) if st.pcm == b.pcm => {}
                    other => {
                        eprintln!("MACHINERY: fgen/refdec disagree on vector {k:?}: {:?}", other.map(|r| r.map(|s| s.pcm.len()).map_err(|e| e.code)));
                        bad += 1;
                    }
                }
            }
        }
    });
    println!("selftest: {n} fixtures decoded with matching MD5, {built} generated streams inverted by the reference decoder, {bad} failures");
    if bad > 0 || n == 0 || built == 0 { 2 } else { 0 }
}
