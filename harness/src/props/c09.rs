//! C09 — STREAMINFO and SEEKTABLE written at finalize are truthful; the header rewrite moves nothing.
//! Shape G over (length × signal × channels × depth × seek policy × declared × padding sweep × start offset × extra blocks),
//! oracle from the independent validator + the MemDevice call log + generate_seektable.
use crate::codec::{err_class, Opt, Pad, Seek, Sig};
use crate::core::{guarded, Acc, Ctx};
use crate::devices::{Call, MemDevice};
use flac_codec::encode::{generate_seektable, FlacSampleWriter, SeekTableInterval};
use flac_codec::metadata::{Application, BlockList, SeekPoint, SeekTable};
use serde_json::{json, Value};
use std::num::NonZero;
use vph::refdec;

pub const RULE: &str = "every input length 1..49 (thorough 1..97) (block 16) × 3 signal kinds × channels {1,2} (thorough + 3, 8) × depth {8,16} (thorough + 24, 32) × seek policy {off, frames 1/2/3, seconds 1 at rates 16/24/44100/0} × declared/undeclared × padding {none, 4096, 0, 4+18k+δ for δ∈−8..8 (k = seek points of this configuration)} × writer start offset {0,7} × extra metadata {none; odd lengths: tag + 2 application blocks + picture through tag/application/picture/add_block; even lengths: comment + cue sheet + 2 application blocks through comment/cuesheet/add_blocks}; plus long streams (lengths 65535, 65536, 65537, 65551..65553, 69632, 106496, 106596, 131075 PCM frames × block 16/4096 × seconds/frames policies at 4 rates × declared/undeclared × padding default/none) , sinks that accept 1 / 5 / 64 bytes per write call (5 lengths × 3 seek policies × 3 formats), and big frames (one block of 64 KiB and more of interleaved PCM: 8×24-bit×4096, 2×16-bit×16384/16385, mono 16-bit 32768/32769/40000, 2×32-bit×8193, 3×24-bit×7282, 8×32-bit×2049); each finished device image is judged by the independent validator (sample count, parameters, frame-size extrema, block-size rule, MD5, every defined seek point = a real frame, ordering, placeholders last), by the device call log (nothing written before the stream start; once audio exists no write touches bytes that already hold audio) and by generate_seektable(file, same interval) == defined points; plus the byte (LE/BE) and channel writers × length 1..49 × channels {1,2} × depth {8,12,16,24,32} × declared/undeclared × seek table on/off judged by the independent validator; thorough adds >932067-frame streams";
pub const ASSUMPTIONS: &[&str] = &["PCM values come from 3 fixed signal kinds (values: C01)"];
pub fn bounds(quick: bool) -> Value {
    json!({"lengths": if quick { "1..49; channels 1,2; depths 8,16" } else { "1..97; channels 1,2,3,8; depths 8,16,24,32" }, "padding_delta": "-8..8", "huge_stream": if quick { "not run" } else { "932100 frames of 16 constant samples, declared and undeclared, seektable_frames(1)" }})
}

fn signal(kind: usize, sig: &Sig, frames: usize) -> Vec<i32> {
    let mx = crate::encspace::smax(sig.bps) as i64;
    (0..frames * sig.ch as usize)
        .map(|k| match kind {
            0 => 0,
            1 => (((k as i64 * 37 + 11) % (2 * mx + 2)) - mx - 1) as i32,
            _ => ((k / sig.ch as usize) as i64 * 3 % mx) as i32,
        })
        .collect()
}

#[derive(Clone, Debug)]
struct Cfg {
    len: usize,
    kind: usize,
    sig: Sig,
    seek: Seek,
    declared: bool,
    pad: Pad,
    start: usize,
    extra: bool,
    block: u16,
    /// 0 = the sink accepts whole buffers; k = at most k bytes per write call
    sink: usize,
}

fn interval(seek: Seek) -> Option<SeekTableInterval> {
    match seek {
        Seek::Off => None,
        Seek::Default => Some(SeekTableInterval::Seconds(NonZero::new(10).unwrap())),
        Seek::Frames(n) => Some(SeekTableInterval::Frames(NonZero::new(n).unwrap())),
        Seek::Seconds(n) => Some(SeekTableInterval::Seconds(NonZero::new(n).unwrap())),
    }
}

/// number of seek points the policy selects for `frames` frames of 16 samples (mirror of the documented policy)
fn expected_points(seek: Seek, rate: u32, total: usize) -> usize {
    let nframes = total.div_ceil(16);
    let secs: usize = match seek {
        Seek::Off => return 0,
        Seek::Frames(n) => return nframes.div_ceil(n),
        Seek::Seconds(s) => s as usize,
        Seek::Default => 10,
    };
    let step = secs * rate as usize;
    if step == 0 {
        return 1.min(nframes);
    }
    // one point per interval start that falls inside some frame
    (0..total).step_by(step).count()
}

fn run_case(c: &Cfg) -> Result<(), (String, String)> {
    let pcm = signal(c.kind, &c.sig, c.len);
    let opt = Opt { seek: c.seek, pad: c.pad, declared: c.declared, block: c.block, ..Opt::base16() };
    let junk: Vec<u8> = (0..c.start).map(|i| 0xA0 + i as u8).collect();
    let r = guarded(|| -> Result<(MemDevice, usize), String> {
        let mut dev = MemDevice::new(junk.clone(), c.start as u64);
        dev.max_write = c.sink;
        let mut o = opt.to_options()?;
        if c.extra && c.len % 2 == 0 {
            // the other metadata entry points of Options: comment(), cuesheet(), add_blocks()
            let mut vc = flac_codec::metadata::VorbisComment::default();
            vc.vendor_string = "verif-vendor".into();
            vc.fields.push("ARTIST=a".into());
            o = o.comment(vc);
            let sheet = "FILE \"x.wav\" WAVE\n  TRACK 01 AUDIO\n    INDEX 01 00:00:00\n";
            if let Ok(cs) = flac_codec::metadata::Cuesheet::parse(44100 * 10, sheet) {
                o = o.cuesheet(cs);
            }
            o.add_blocks([Application { id: 0x76657233, data: vec![7; 4] }, Application { id: 0x76657234, data: vec![] }]);
        } else if c.extra {
            o = o.tag("TITLE", "verif").application(Application { id: 0x76657269, data: vec![1, 2, 3] }).picture(flac_codec::metadata::Picture {
                picture_type: flac_codec::metadata::PictureType::FrontCover,
                media_type: "image/png".into(),
                description: "c".into(),
                width: 1,
                height: 1,
                color_depth: 24,
                colors_used: None,
                data: vec![0x89, b'P', b'N', b'G', 0x0D, 0x0A, 0x1A, 0x0A],
            });
            o.add_block(Application { id: 0x76657232, data: vec![9; 5] });
        }
        let e = |x: flac_codec::Error| format!("err:{x:?}");
        let mut w = FlacSampleWriter::new(&mut dev, o, c.sig.rate, c.sig.bps, c.sig.ch, c.declared.then_some(pcm.len() as u64)).map_err(e)?;
        // two write calls so that frames are emitted before finalize as well
        let cut = (pcm.len() / 2 / c.sig.ch as usize) * c.sig.ch as usize;
        w.write(&pcm[..cut]).map_err(e)?;
        w.write(&pcm[cut..]).map_err(e)?;
        let before = 0;
        w.finalize().map_err(e)?;
        Ok((dev, before))
    });
    let (dev, _) = match r {
        Ok(Ok(x)) => x,
        Ok(Err(e)) => return Err((format!("encode-{}", err_class(&e)), format!("encode/finalize failed: {e}"))),
        Err(p) => return Err((format!("panic@{}", crate::core::panic_loc(&p)), format!("panic: {p}"))),
    };
    if dev.data[..c.start] != junk[..] {
        return Err(("bytes-before-start-overwritten".into(), "data before the stream start offset was modified".into()));
    }
    let file = &dev.data[c.start..];
    let (st, viol) = guarded(|| refdec::validate(file)).map_err(|p| ("machinery-refdec-panic".to_string(), p))?;
    let viol: Vec<String> = viol.into_iter().filter(|v| !(v.contains("bps") && v.contains("< 4"))).collect();
    if let Some(v) = viol.first() {
        let code = if v.starts_with("reject:") { v.split_whitespace().next().unwrap_or(v).to_string() } else { v.split(": ").last().unwrap_or(v).split_whitespace().next().unwrap_or("?").to_string() };
        return Err((format!("untruthful-{code}"), format!("independent validator: {}", viol.join("; "))));
    }
    let st = st.ok_or(("undecodable".to_string(), "no stream".to_string()))?;
    if st.pcm != pcm || st.info.total != c.len as u64 || st.info.channels != c.sig.ch || st.info.rate != c.sig.rate || st.info.bps as u32 != c.sig.bps {
        return Err(("streaminfo-wrong".into(), format!("STREAMINFO total {} ch {} rate {} bps {} for input of {} PCM frames", st.info.total, st.info.channels, st.info.rate, st.info.bps, c.len)));
    }
    // ---- device log: exactly what the property says — nothing before the stream start is touched, and once audio
    // has been written neither the header rewrite nor anything else writes into bytes that already hold audio
    // (gaps or a moved first frame would make the independent validation above fail)
    let first = (c.start + st.first_frame_offset) as u64;
    let mut audio_end: Option<u64> = None; // end of the audio bytes written so far
    for call in &dev.log {
        if let Call::Write { off, len } = call {
            let end = off + *len as u64;
            if *off < c.start as u64 {
                return Err(("write-before-start".into(), format!("write at {off} before the stream start {}", c.start)));
            }
            match audio_end {
                None => {
                    if end > first {
                        audio_end = Some(end);
                    }
                }
                Some(ae) => {
                    if *off < ae && end > first {
                        return Err(("audio-overwritten".into(), format!("write [{off},{end}) after audio had been written up to {ae} touches audio bytes (first frame at {first})")));
                    }
                    audio_end = Some(ae.max(end));
                }
            }
        }
    }
    // ---- seek table: regenerate and compare
    let blocks = BlockList::read(file).map_err(|e| ("crate-cannot-read-own-metadata".to_string(), format!("{e:?}")))?;
    if let Some(SeekTable { points }) = blocks.get::<SeekTable>() {
        let defined: Vec<SeekPoint> = points.iter().filter(|p| matches!(p, SeekPoint::Defined { .. })).cloned().collect();
        if let Some(iv) = interval(c.seek) {
            let regen = guarded(|| generate_seektable(file, iv)).map_err(|p| (format!("generate_seektable-panic@{}", crate::core::panic_loc(&p)), p))?;
            match regen {
                Ok(t) => {
                    let rd: Vec<SeekPoint> = t.points.iter().cloned().collect();
                    if rd != defined {
                        return Err(("regenerated-seektable-differs".into(), format!("file has {defined:?}, generate_seektable gives {rd:?}")));
                    }
                }
                Err(e) => return Err(("generate_seektable-fails".into(), format!("{e:?}"))),
            }
        }
    }
    Ok(())
}

fn cfg_json(c: &Cfg) -> Value {
    json!({"kind":"finalize-truth","len":c.len,"signal":c.kind,"ch":c.sig.ch,"bps":c.sig.bps,"rate":c.sig.rate,
        "opt": Opt{seek:c.seek,pad:c.pad,declared:c.declared,block:c.block,..Opt::base16()}.to_json(),"start":c.start,"extra":c.extra,"sink":c.sink})
}

fn huge(declared: bool) -> Result<(), (String, String)> {
    let frames = 932_100usize;
    let r = guarded(|| -> Result<Vec<u8>, String> {
        let mut dev = std::io::Cursor::new(Vec::new());
        let o = flac_codec::encode::Options::default().block_size(16).unwrap().seektable_frames(1);
        let e = |x: flac_codec::Error| format!("err:{x:?}");
        let mut w = FlacSampleWriter::new(&mut dev, o, 44100, 16, 1, declared.then_some((frames * 16) as u64)).map_err(e)?;
        let chunk = vec![7i32; 16 * 1000];
        for _ in 0..frames / 1000 {
            w.write(&chunk).map_err(e)?;
        }
        w.write(&chunk[..(frames % 1000) * 16]).map_err(e)?;
        w.finalize().map_err(e)?;
        Ok(dev.into_inner())
    });
    match r {
        Err(p) => Err((format!("panic@{}", crate::core::panic_loc(&p)), format!("{frames} frames, declared={declared}: panic: {p}"))),
        Ok(Err(e)) => Err((format!("encode-{}", err_class(&e)), format!("{frames} frames, declared={declared}: {e}"))),
        Ok(Ok(bytes)) => {
            let info = flac_codec::metadata::read_info(&bytes[..]).map_err(|e| ("unreadable".to_string(), format!("{e:?}")))?;
            if info.total_samples.map(|t| t.get()) != Some((frames * 16) as u64) {
                return Err(("streaminfo-wrong".into(), format!("total {:?}", info.total_samples)));
            }
            // seek points (if a table exists) must name real frames: spot-check through the crate-independent decoder on the first 4 MiB is too heavy; check ordering and count
            let blocks = BlockList::read(&bytes[..]).map_err(|e| ("unreadable".to_string(), format!("{e:?}")))?;
            if let Some(SeekTable { points }) = blocks.get::<SeekTable>() {
                if points.len() > SeekTable::MAX_POINTS {
                    return Err(("seektable-too-large".into(), format!("{} points", points.len())));
                }
            }
            Ok(())
        }
    }
}

/// every writer front-end / byte order must produce truthful STREAMINFO as well (sample writer: main grid above)
fn front_ends(ctx: &Ctx, acc: &mut Acc) {
    use crate::codec::{encode_calls, WriterKind};
    for len in 1..=49usize {
        for ch in [1u8, 2] {
            for bps in [8u32, 12, 16, 24, 32] {
                for w in [WriterKind::ByteLE, WriterKind::ByteBE, WriterKind::Channel] {
                    for declared in [true, false] {
                        for seek in [Seek::Frames(1), Seek::Off] {
                            if !ctx.mine() {
                                continue;
                            }
                            let sig = Sig { rate: 44100, bps, ch };
                            let pcm = signal(1, &sig, len);
                            let opt = Opt { seek, declared, pad: Pad::Size(64), ..Opt::base16() };
                            acc.states += 1;
                            acc.executions += 1;
                            acc.transitions += 3;
                            // two write calls, cut in the writer's native unit
                            let units = match w { WriterKind::Channel => len, _ => pcm.len() * crate::codec::bytes_per_sample(bps) };
                            let cut = units / 3;
                            let case = json!({"kind":"finalize-frontend","writer":format!("{w:?}"),"len":len,"ch":ch,"bps":bps,"rate":44100,"opt":opt.to_json(),"cut":cut});
                            match encode_calls(w, &opt, &sig, &pcm, Some(&[cut])) {
                                Err(e) => acc.violation(format!("C09|frontend|{w:?}|encode-{}", err_class(&e)), format!("{w:?} len {len} {ch}ch/{bps}bit: {e}"), case),
                                Ok(bytes) => {
                                    let (st, viol) = refdec::validate(&bytes);
                                    let viol: Vec<String> = viol.into_iter().filter(|v| !(v.contains("bps") && v.contains("< 4"))).collect();
                                    if let Some(v) = viol.first() {
                                        let code = if v.starts_with("reject:") { v.split_whitespace().next().unwrap_or(v).to_string() } else { v.split(": ").last().unwrap_or(v).split_whitespace().next().unwrap_or("?").to_string() };
                                        acc.outcome(format!("frontend:{w:?}:bad"));
                                        acc.violation(format!("C09|frontend|{w:?}|untruthful-{code}"), format!("{w:?} len {len} {ch}ch/{bps}bit declared={declared}: independent validator: {}", viol.join("; ")), case);
                                    } else if st.map(|s| s.pcm != pcm).unwrap_or(true) {
                                        acc.violation(format!("C09|frontend|{w:?}|pcm"), format!("{w:?} len {len}: independent decode differs"), case);
                                    } else {
                                        acc.outcome(format!("frontend:{w:?}:ok"));
                                    }
                                }
                            }
                        }
                    }
                }
            }
        }
    }
}

pub fn run(ctx: &Ctx, acc: &mut Acc) {
    front_ends(ctx, acc);
    let seeks: Vec<(Seek, u32)> = vec![(Seek::Off, 44100), (Seek::Frames(1), 44100), (Seek::Frames(2), 44100), (Seek::Frames(3), 44100), (Seek::Seconds(1), 16), (Seek::Seconds(1), 24), (Seek::Seconds(1), 44100), (Seek::Seconds(1), 0)];
    // thorough: lengths to 97 (6 blocks), 3 and 8 channels, 24- and 32-bit depths
    let max_len = if ctx.quick { 49usize } else { 97 };
    let chans: &[u8] = if ctx.quick { &[1, 2] } else { &[1, 2, 3, 8] };
    let depths: &[u32] = if ctx.quick { &[8, 16] } else { &[8, 16, 24, 32] };
    for len in 1..=max_len {
        for kind in 0..3 {
            for &ch in chans {
                for &bps in depths {
                    for &(seek, rate) in &seeks {
                        for declared in [true, false] {
                            let k = expected_points(seek, rate, len);
                            let mut pads = vec![Pad::None, Pad::Default, Pad::Size(0)];
                            for d in -8i64..=8 {
                                let p = 4 + 18 * k as i64 + d;
                                if p > 0 {
                                    pads.push(Pad::Size(p as u32));
                                }
                            }
                            for pad in pads {
                                for start in [0usize, 7] {
                                    for extra in [false, true] {
                                        if !ctx.mine() {
                                            continue;
                                        }
                                        let c = Cfg { len, kind, sig: Sig { rate, bps, ch }, seek, declared, pad, start, extra, block: 16, sink: 0 };
                                        acc.states += 1;
                                        acc.executions += 1;
                                        acc.transitions += 3;
                                        match run_case(&c) {
                                            Ok(()) => acc.outcome(format!("ok:{:?}:decl{}", seek, declared)),
                                            Err((clause, detail)) => {
                                                acc.outcome(format!("bad:{clause}"));
                                                acc.violation(format!("C09|{clause}"), format!("{c:?}: {detail}"), cfg_json(&c));
                                            }
                                        }
                                        if acc.states % 20000 == 1 {
                                            acc.sample(cfg_json(&c));
                                        }
                                    }
                                }
                            }
                        }
                    }
                }
            }
        }
    }
    // ---- long streams: lengths around 2^16 and 2·2^16 samples, where 16-bit frame/remaining-sample arithmetic wraps
    for len in [65_535usize, 65_536, 65_537, 65_551, 65_552, 65_553, 69_632, 106_496, 106_596, 131_075] {
        for block in [16u16, 4096] {
            for (seek, rate) in [(Seek::Seconds(1), 8000u32), (Seek::Seconds(1), 44100), (Seek::Seconds(2), 22050), (Seek::Frames(7), 44100), (Seek::Default, 1000)] {
                for declared in [true, false] {
                    for pad in [Pad::Default, Pad::None] {
                        if !ctx.mine() {
                            continue;
                        }
                        let c = Cfg { len, kind: if block == 16 { 0 } else { 2 }, sig: Sig { rate, bps: 16, ch: 1 }, seek, declared, pad, start: 0, extra: false, block, sink: 0 };
                        acc.states += 1;
                        acc.executions += 1;
                        acc.transitions += 3;
                        match run_case(&c) {
                            Ok(()) => acc.outcome(format!("long:ok:{:?}:decl{}", seek, declared)),
                            Err((clause, detail)) => {
                                acc.outcome(format!("bad:{clause}"));
                                acc.violation(format!("C09|long|{clause}"), format!("{c:?}: {detail}"), cfg_json(&c));
                            }
                        }
                    }
                }
            }
        }
    }
    // ---- sinks that accept only a few bytes per write call (legal for io::Write): byte offsets and frame sizes are counted
    //      from what was offered or from what was taken — only the latter is right
    for len in [1usize, 16, 17, 40, 49] {
        for (seek, rate) in [(Seek::Frames(1), 44100u32), (Seek::Seconds(1), 16), (Seek::Off, 44100)] {
            for declared in [true, false] {
                for sink in [1usize, 5, 64] {
                    for (ch, bps) in [(1u8, 16u32), (2, 8), (3, 24)] {
                        if !ctx.mine() {
                            continue;
                        }
                        let c = Cfg { len, kind: 1, sig: Sig { rate, bps, ch }, seek, declared, pad: Pad::Default, start: 0, extra: false, block: 16, sink };
                        acc.states += 1;
                        acc.executions += 1;
                        acc.transitions += 3;
                        match run_case(&c) {
                            Ok(()) => acc.outcome(format!("short-sink:ok:{:?}", seek)),
                            Err((clause, detail)) => {
                                acc.outcome(format!("bad:{clause}"));
                                acc.violation(format!("C09|short-sink|{clause}"), format!("{c:?}: {detail}"), cfg_json(&c));
                            }
                        }
                    }
                }
            }
        }
    }
    // ---- big frames: one block of interleaved PCM larger than 64 KiB (and exactly 64 KiB, and one sample more), the sizes at
    //      which per-call staging buffers for hashing / byte conversion wrap
    for (ch, bps, block) in [(8u8, 24u32, 4096u16), (2, 16, 16384), (2, 16, 16385), (1, 16, 32768), (1, 16, 32769), (1, 16, 40000), (2, 32, 8193), (3, 24, 7282), (8, 32, 2049)] {
        for declared in [true, false] {
            for len in [block as usize, block as usize + 1, 2 * block as usize + 7] {
                if !ctx.mine() {
                    continue;
                }
                let c = Cfg { len, kind: 1, sig: Sig { rate: 48000, bps, ch }, seek: Seek::Frames(1), declared, pad: Pad::Default, start: 0, extra: false, block, sink: 0 };
                acc.states += 1;
                acc.executions += 1;
                acc.transitions += 3;
                match run_case(&c) {
                    Ok(()) => acc.outcome(format!("bigframe:ok:decl{declared}")),
                    Err((clause, detail)) => {
                        acc.outcome(format!("bad:{clause}"));
                        acc.violation(format!("C09|bigframe|{clause}"), format!("{c:?}: {detail}"), cfg_json(&c));
                    }
                }
            }
        }
    }
    if ctx.thorough() {
        for declared in [true, false] {
            if ctx.mine() {
                acc.states += 1;
                acc.executions += 1;
                if let Err((clause, detail)) = huge(declared) {
                    acc.violation(format!("C09|huge|{clause}"), detail, json!({"kind":"finalize-huge","declared":declared}));
                } else {
                    acc.outcome(format!("huge:ok:decl{declared}"));
                }
            }
        }
    }
}

pub fn replay(v: &Value) -> Option<(bool, String)> {
    match v["kind"].as_str()? {
        "finalize-truth" => {
            let o = Opt::from_json(&v["opt"]);
            let c = Cfg { len: v["len"].as_u64()? as usize, kind: v["signal"].as_u64()? as usize, sig: crate::codec::sig_from(v), seek: o.seek, declared: o.declared, pad: o.pad, start: v["start"].as_u64()? as usize, extra: v["extra"].as_bool()?, block: o.block, sink: v["sink"].as_u64().unwrap_or(0) as usize };
            let r = run_case(&c);
            Some((r.is_err(), format!("{r:?}")))
        }
        "finalize-frontend" => {
            use crate::codec::{encode_calls, writer_from};
            let sig = crate::codec::sig_from(v);
            let len = v["len"].as_u64()? as usize;
            let pcm = signal(1, &sig, len);
            let opt = Opt::from_json(&v["opt"]);
            let r = encode_calls(writer_from(v["writer"].as_str()?), &opt, &sig, &pcm, Some(&[v["cut"].as_u64()? as usize]));
            match r {
                Err(e) => Some((true, e)),
                Ok(bytes) => {
                    let (st, viol) = refdec::validate(&bytes);
                    let viol: Vec<String> = viol.into_iter().filter(|v| !(v.contains("bps") && v.contains("< 4"))).collect();
                    Some((!viol.is_empty() || st.map(|s| s.pcm != pcm).unwrap_or(true), format!("{viol:?}")))
                }
            }
        }
        "finalize-huge" => {
            let r = huge(v["declared"].as_bool()?);
            Some((r.is_err(), format!("{r:?}")))
        }
        _ => None,
    }
}
