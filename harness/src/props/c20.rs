//! C20 — cue sheet text import reproduces the layout the text describes.
//! Shape G (bounded-exhaustive generation from a reference model).  The reference model is an abstract
//! `Layout` (tracks, index numbers, absolute sector positions, flags, ISRCs, catalog, stream length)
//! which this file renders to cue text itself, in every surface form the crate's grammar accepts; the
//! expected block is computed from the layout with this file's own arithmetic
//! (samples = ((mm*60+ss)*75+ff)*588) and compared with what `Cuesheet::parse` built.
//!
//! What the grammar accepts (read off src/metadata/mod.rs:3630-3733, the only documentation is the
//! doc-example and tests/data/cuesheets/OK-*.cue): each line is `trim()`med (any leading / trailing
//! white space, so any indentation, a trailing blank, the `\r` of CRLF), `str::lines()` accepts LF, CRLF
//! and a missing final newline; keyword and first argument are separated by exactly ONE blank
//! (`split_once(' ')`), so several inner blanks or an inner tab are *not* part of the accepted grammar and
//! are not generated; CATALOG and ISRC arguments may be bare or enclosed in double quotes; every line with
//! another keyword (REM, TITLE, PERFORMER, FILE, blank) is skipped.  A CD-DA sheet needs: first track number
//! 1, consecutive track numbers, first index of the first track at 00:00:00, first index of a track numbered
//! 00 or 01, consecutive index numbers, strictly increasing positions, lead-out beyond the last index,
//! CATALOG of exactly 13 digits, FLAGS / ISRC before the track's first INDEX.  All generated texts satisfy
//! these (they are what "well-formed" means for a single-file CD-DA sheet).
use crate::core::{guarded, panic_loc, Acc, Ctx};
use flac_codec::metadata::Cuesheet;
use serde_json::{json, Value};

pub const RULE: &str = "reference-model generation: abstract layout -> cue text (own renderer) -> Cuesheet::parse(588*total_sectors) -> compare every field with own arithmetic ((mm*60+ss)*75+ff)*588, track_byte_ranges for 7 (channels, depth) pairs = sample ranges × channels × ceil(depth/8), then display() -> parse -> same track/index layout. Block P: EVERY layout with 1..3 tracks x per-track index shape {01; 01-02; 01-03; 00-01; 00-02} x every gap between consecutive positions and the final gap to the lead-out drawn from the tier's gap menu, first position 00:00:00, x attribute patterns (quick: FLAGS PRE on all/no tracks x ISRC on all/no tracks x CATALOG on/off, plus two alternating per-track patterns = 10; thorough: nothing / everything / the two alternating patterns = 4, the rest being subsumed by block A), canonical surface. Block A: every layout of block P over the quick gap menu (quick: <=2 tracks, thorough: <=3 tracks) x EVERY per-track assignment of FLAGS PRE / ISRC x CATALOG on/off. Block S: every track/index shape (<=3 tracks) x 10 attribute patterns x gap vectors (each menu value uniformly + cyclic mixes) x EVERY surface form: indentation {none, 2/4 blanks, tabs} x line ends {LF, CRLF, LF without final newline, CRLF without final newline} x CATALOG/ISRC {bare, quoted} x decoration {no other lines, FILE line, REM+TITLE+PERFORMER+FILE header and per-track TITLE/PERFORMER/REM/blank lines} x {FLAGS before ISRC, ISRC before FLAGS} x track numbers {zero padded, unpadded} x {no trailing blank, trailing blank on every line} = 576 forms. Block X (boundary singletons x 4 surfaces): 99 tracks (1 index each; mixed shapes), 99 and 100 indices in one track (first, second, all of three tracks), 99 tracks x 100 indices, minutes {99,100,101,255,256,999,1000,65535,65536,2^32,6*10^12} reached from mm-1:59:74, pre-gap on the first track, ISRC written with dashes, FLAGS lines carrying several flags";
pub const ASSUMPTIONS: &[&str] = &[
    "well-formed = what the crate's line grammar accepts: one blank between keyword and argument, keywords in upper case, one FILE, tracks numbered from 1, AUDIO tracks; inner multiple blanks / tabs, lower-case keywords, a byte-order mark and multi-FILE sheets are outside the accepted grammar and not generated",
    "surface forms are crossed with every track/index shape and attribute pattern but only with uniform/cyclic gap vectors (block S); every gap combination is crossed with the canonical surface (block P): the parser tokenises each line independently of the others, so surface form and position arithmetic do not interact",
    "beyond 3 tracks x 3 indices only the listed boundary singletons are run",
    "the re-import comparison covers track numbers, track offsets, index numbers and index offsets (display() does not emit CATALOG / FLAGS / ISRC, and the property only claims the track and index layout)",
];
pub fn bounds(quick: bool) -> Value {
    json!({
        "tracks": "1..3 exhaustive, 99 as singletons",
        "indices_per_track": "1..3 exhaustive (with and without pre-gap), 99 and 100 as singletons",
        "gap_menu_sectors": if quick { json!(QUICK_GAPS) } else { json!(THOR_GAPS) },
        "block_P_attribute_patterns": if quick { 10 } else { 4 },
        "block_A": if quick { "<=2 tracks, gap menu [1,75,4500], all per-track PRE/ISRC assignments x CATALOG" } else { "<=3 tracks, gap menu [1,75,4500], all per-track PRE/ISRC assignments x CATALOG" },
        "block_S_surface_forms": 576,
        "block_S_gap_vectors": if quick { 4 } else { 7 },
        "max_minutes": "6*10^12 (singleton); 900 in the exhaustive blocks of the thorough tier",
    })
}

const QUICK_GAPS: [u64; 3] = [1, 75, 4500];
const THOR_GAPS: [u64; 5] = [1, 74, 75, 4500, 450000];
/// (has pre-gap, number of index points)
const SHAPES: [(bool, usize); 5] = [(false, 1), (false, 2), (false, 3), (true, 2), (true, 3)];
const CATALOG: &str = "0123456789012";

// ---------------------------------------------------------------------------------------------
// reference model

#[derive(Clone, Debug, PartialEq)]
struct Tr {
    number: u8,
    indices: Vec<(u8, u64)>, // (index number, absolute sector)
    pre: bool,
    isrc: Option<String>,
}
#[derive(Clone, Debug, PartialEq)]
struct Layout {
    tracks: Vec<Tr>,
    catalog: Option<String>,
    total: u64, // sectors
}
#[derive(Clone, Copy, Debug, PartialEq)]
struct Surface {
    indent: u8,    // 0 none, 1 blanks (2 for TRACK, 4 below), 2 tabs
    eol: u8,       // 0 LF, 1 CRLF, 2 LF no final newline, 3 CRLF no final newline
    quote: u8,     // 0 bare, 1 quoted (CATALOG and ISRC)
    deco: u8,      // 0 nothing else, 1 FILE line, 2 REM/TITLE/PERFORMER/FILE header + per-track TITLE/PERFORMER/REM/blank
    order: u8,     // 0 FLAGS then ISRC, 1 ISRC then FLAGS
    pad: u8,       // 0 "TRACK 01", 1 "TRACK 1"
    trail: u8,     // 1 = trailing blank on every line
    flags: u8,     // 0 "FLAGS PRE"; 1 "FLAGS DCP PRE"; 2 "FLAGS PRE DCP"; 3 as 0 and tracks without PRE carry "FLAGS DCP 4CH"
    isrc_dash: u8, // 1 = ISRC written CC-XXX-YY-NNNNN
}
const CANON: Surface = Surface { indent: 1, eol: 0, quote: 0, deco: 1, order: 0, pad: 0, trail: 0, flags: 0, isrc_dash: 0 };
const N_SURF: u64 = 3 * 4 * 2 * 3 * 2 * 2 * 2;
fn surface_from(mut i: u64) -> Surface {
    let mut d = |n: u64| {
        let r = (i % n) as u8;
        i /= n;
        r
    };
    Surface { indent: d(3), eol: d(4), quote: d(2), deco: d(3), order: d(2), pad: d(2), trail: d(2), flags: 0, isrc_dash: 0 }
}

fn isrc_for(k: usize) -> String {
    // 2 letters, 3 alphanumerics, 2-digit year, 5-digit designation
    format!("GBAY7{:02}{:05}", 10 + k % 90, (k * 137) % 100000)
}

fn msf(sector: u64) -> (u64, u64, u64) {
    (sector / 4500, (sector / 75) % 60, sector % 75)
}
fn msf_text(sector: u64) -> String {
    let (m, s, f) = msf(sector);
    format!("{m:02}:{s:02}:{f:02}")
}
/// the property's arithmetic, on the numbers that are written in the text
fn samples_of(sector: u64) -> u64 {
    let (m, s, f) = msf(sector);
    let v = ((m as u128 * 60 + s as u128) * 75 + f as u128) * 588;
    assert!(v <= u64::MAX as u128 && v == sector as u128 * 588, "machinery: layout beyond u64 samples");
    v as u64
}

fn render(l: &Layout, s: &Surface) -> String {
    let mut lines: Vec<String> = Vec::new();
    let (i1, i2) = match s.indent {
        0 => ("", ""),
        1 => ("  ", "    "),
        _ => ("\t", "\t\t"),
    };
    let q = |v: &str| if s.quote == 1 { format!("\"{v}\"") } else { v.to_string() };
    if s.deco == 2 {
        lines.push("REM GENRE Test".into());
        lines.push("REM COMMENT \"INDEX 01 00:00:00\"".into());
    }
    if let Some(c) = &l.catalog {
        lines.push(format!("CATALOG {}", q(c)));
    }
    if s.deco == 2 {
        lines.push("PERFORMER \"The Performer\"".into());
        lines.push("TITLE \"The Album\"".into());
    }
    if s.deco >= 1 {
        lines.push("FILE \"cdimage.wav\" WAVE".into());
    }
    for t in &l.tracks {
        if s.pad == 0 {
            lines.push(format!("{i1}TRACK {:02} AUDIO", t.number));
        } else {
            lines.push(format!("{i1}TRACK {} AUDIO", t.number));
        }
        if s.deco == 2 {
            lines.push(format!("{i2}TITLE \"Song {}\"", t.number));
            lines.push(format!("{i2}PERFORMER \"TRACK {} AUDIO\"", t.number));
        }
        let flags = if t.pre {
            Some(match s.flags {
                1 => "FLAGS DCP PRE",
                2 => "FLAGS PRE DCP",
                _ => "FLAGS PRE",
            })
        } else if s.flags == 3 {
            Some("FLAGS DCP 4CH")
        } else {
            None
        };
        let isrc = t.isrc.as_ref().map(|v| {
            let v = if s.isrc_dash == 1 && v.len() == 12 { format!("{}-{}-{}-{}", &v[0..2], &v[2..5], &v[5..7], &v[7..12]) } else { v.clone() };
            format!("{i2}ISRC {}", q(&v))
        });
        let flags = flags.map(|f| format!("{i2}{f}"));
        if s.order == 0 {
            lines.extend(flags);
            lines.extend(isrc);
        } else {
            lines.extend(isrc);
            lines.extend(flags);
        }
        for (k, (n, sec)) in t.indices.iter().enumerate() {
            lines.push(format!("{i2}INDEX {:02} {}", n, msf_text(*sec)));
            if s.deco == 2 && k == 0 {
                lines.push(format!("{i2}REM after index {n:02}"));
            }
        }
        if s.deco == 2 {
            lines.push(String::new());
        }
    }
    let (nl, fin) = match s.eol {
        0 => ("\n", true),
        1 => ("\r\n", true),
        2 => ("\n", false),
        _ => ("\r\n", false),
    };
    if !fin {
        // a text "without final newline" must end in its last meaningful line
        while lines.last().is_some_and(|x| x.is_empty()) {
            lines.pop();
        }
    }
    let mut out = String::new();
    for (k, line) in lines.iter().enumerate() {
        out.push_str(line);
        if s.trail == 1 {
            out.push(' ');
        }
        if fin || k + 1 < lines.len() {
            out.push_str(nl);
        }
    }
    out
}

// ---------------------------------------------------------------------------------------------
// oracle

type Obs = Vec<(Option<u8>, u64, Vec<(u8, u64)>)>; // (number, offset, [(index number, relative offset)])
fn observe(c: &Cuesheet) -> Obs {
    c.tracks().map(|t| (t.number, t.offset, t.index_points.iter().map(|i| (i.number, i.offset)).collect())).collect()
}

/// Err((signature tail "<clause>|<detail-class>", human text))
fn check(l: &Layout, s: &Surface) -> Result<(), (String, String)> {
    let text = render(l, s);
    let total_samples = samples_of(l.total);
    let first = match guarded(|| Cuesheet::parse(total_samples, &text)) {
        Err(p) => return Err((format!("import|panic@{}", panic_loc(&p)), format!("Cuesheet::parse panics: {p}"))),
        Ok(Err(e)) => return Err((format!("import|rejected-{e:?}"), format!("well-formed text is rejected with {e:?} ({e})"))),
        Ok(Ok(c)) => c,
    };
    let r = guarded(|| -> Result<(), (String, String)> {
        let c = &first;
        if !c.is_cdda() {
            return Err(("import|not-cdda".into(), "stream length is a whole number of sectors but the block is not CD-DA".into()));
        }
        if c.track_count() != l.tracks.len() + 1 {
            return Err(("track-count|wrong".into(), format!("track_count() = {}, text has {} tracks + lead-out", c.track_count(), l.tracks.len())));
        }
        let got: Vec<_> = c.tracks().collect();
        if got.len() != l.tracks.len() + 1 {
            return Err(("track-count|tracks-iterator".into(), format!("tracks() yields {} items, text has {} tracks + lead-out", got.len(), l.tracks.len())));
        }
        for (g, w) in got.iter().zip(&l.tracks) {
            let pg = if w.indices[0].0 == 0 { "pregap" } else { "nopregap" };
            if g.number != Some(w.number) {
                return Err(("track-number|wrong".into(), format!("track number {:?}, text says {}", g.number, w.number)));
            }
            if g.non_audio {
                return Err(("track-mode|audio-reported-non-audio".into(), format!("track {} is AUDIO in the text, non_audio in the block", w.number)));
            }
            if g.index_points.len() != w.indices.len() {
                return Err((format!("index-count|{pg}"), format!("track {}: {} index points, text has {}", w.number, g.index_points.len(), w.indices.len())));
            }
            if g.offset != samples_of(w.indices[0].1) {
                return Err((format!("track-offset|{pg}"), format!("track {}: offset {} but its first index is at {} = sample {}", w.number, g.offset, msf_text(w.indices[0].1), samples_of(w.indices[0].1))));
            }
            for (gi, (n, sec)) in g.index_points.iter().zip(&w.indices) {
                if gi.number != *n {
                    return Err((format!("index-number|{pg}"), format!("track {}: index number {}, text says {:02}", w.number, gi.number, n)));
                }
                let abs = g.offset.checked_add(gi.offset);
                if abs != Some(samples_of(*sec)) {
                    return Err((format!("index-position|{pg}"), format!("track {} INDEX {:02} {}: absolute position {:?} (track {} + index {}), expected {}", w.number, n, msf_text(*sec), abs, g.offset, gi.offset, samples_of(*sec))));
                }
            }
            if g.pre_emphasis != w.pre {
                let class = match (s.flags, w.pre) {
                    (0, _) => "single-flag-line",
                    (3, false) => "other-flags-line",
                    (3, true) => "single-flag-line",
                    _ => "multi-flag-line",
                };
                return Err((format!("pre-emphasis|{class}"), format!("track {}: pre_emphasis {} in the block, text {}", w.number, g.pre_emphasis, if w.pre { "has the PRE flag" } else { "has no PRE flag" })));
            }
            let gi: &str = g.isrc.as_ref();
            if gi != w.isrc.as_deref().unwrap_or("") {
                return Err((format!("isrc|{}", if s.isrc_dash == 1 { "dashed" } else { "plain" }), format!("track {}: ISRC {:?} in the block, {:?} in the text", w.number, gi, w.isrc)));
            }
        }
        let lo = got.last().unwrap();
        if lo.number.is_some() || lo.offset != total_samples || !lo.index_points.is_empty() {
            return Err(("lead-out|wrong".into(), format!("lead-out number {:?} offset {} with {} index points; stream length is {}", lo.number, lo.offset, lo.index_points.len(), total_samples)));
        }
        let cat = c.catalog_number().to_string();
        if cat != l.catalog.as_deref().unwrap_or("") {
            return Err(("catalog|wrong".into(), format!("catalog number {:?}, text says {:?}", cat, l.catalog)));
        }
        // ranges: index 01 of each track to index 01 of the next, the last one to the lead-out
        let starts: Vec<u64> = l.tracks.iter().map(|t| samples_of(t.indices.iter().find(|(n, _)| *n == 1).unwrap().1)).chain(std::iter::once(total_samples)).collect();
        let want: Vec<std::ops::Range<u64>> = starts.windows(2).map(|w| w[0]..w[1]).collect();
        let ranges: Vec<std::ops::Range<u64>> = c.track_sample_ranges().collect();
        if ranges != want {
            let pg = if l.tracks.iter().any(|t| t.indices[0].0 == 0) { "pregap" } else { "nopregap" };
            return Err((format!("track-ranges|{pg}"), format!("track_sample_ranges() = {ranges:?}, expected {want:?}")));
        }
        // the same ranges in bytes of decoded PCM (every sample padded to whole bytes, as all of the crate's byte front-ends do)
        for (ch, bps) in [(2u8, 16u32), (1, 8), (2, 24), (8, 32), (2, 12), (3, 20), (8, 7)] {
            let m = ch as u64 * bps.div_ceil(8) as u64;
            let wantb: Vec<std::ops::Range<u64>> = want.iter().map(|r| r.start.saturating_mul(m)..r.end.saturating_mul(m)).collect();
            let gotb: Vec<std::ops::Range<u64>> = c.track_byte_ranges(ch, bps).collect();
            if gotb != wantb {
                return Err((format!("track-byte-ranges|{}", if bps % 8 == 0 { "whole-bytes" } else { "padded-depth" }), format!("track_byte_ranges({ch}, {bps}) = {gotb:?}, expected {wantb:?} (sample ranges × {ch} × {} bytes)", bps.div_ceil(8))));
            }
        }
        // export and re-import
        let exported = c.display("x.flac").to_string();
        match Cuesheet::parse(total_samples, &exported) {
            Err(e) => Err((format!("reimport|rejected-{e:?}"), format!("the exported text is rejected with {e:?}: {:?}", clip(&exported, 400)))),
            Ok(c2) => {
                let (a, b) = (observe(c), observe(&c2));
                if a != b || c2.is_cdda() != c.is_cdda() {
                    let at = a.iter().zip(&b).position(|(x, y)| x != y);
                    Err(("reimport|layout-differs".into(), format!("re-imported layout differs at track slot {at:?}: imported {:?} / re-imported {:?}; exported text {:?}", at.map(|i| &a[i]), at.map(|i| &b[i]), clip(&exported, 400))))
                } else {
                    Ok(())
                }
            }
        }
    });
    match r {
        Ok(x) => x,
        Err(p) => Err((format!("accessor|panic@{}", panic_loc(&p)), format!("accessor / display / re-import panics: {p}"))),
    }
}

fn clip(s: &str, n: usize) -> String {
    if s.len() <= n {
        s.to_string()
    } else {
        let mut e = n;
        while !s.is_char_boundary(e) {
            e -= 1;
        }
        format!("{}… ({} bytes)", &s[..e], s.len())
    }
}

// ---------------------------------------------------------------------------------------------
// JSON (replayable case)

fn layout_json(l: &Layout) -> Value {
    json!({
        "tracks": l.tracks.iter().map(|t| json!({"n": t.number, "idx": t.indices.iter().map(|(n, s)| json!([n, s])).collect::<Vec<_>>(), "pre": t.pre, "isrc": t.isrc})).collect::<Vec<_>>(),
        "catalog": l.catalog, "total": l.total,
    })
}
fn layout_from(v: &Value) -> Option<Layout> {
    let mut tracks = Vec::new();
    for t in v["tracks"].as_array()? {
        let mut indices = Vec::new();
        for i in t["idx"].as_array()? {
            indices.push((i[0].as_u64()? as u8, i[1].as_u64()?));
        }
        tracks.push(Tr { number: t["n"].as_u64()? as u8, indices, pre: t["pre"].as_bool()?, isrc: t["isrc"].as_str().map(|s| s.to_string()) });
    }
    Some(Layout { tracks, catalog: v["catalog"].as_str().map(|s| s.to_string()), total: v["total"].as_u64()? })
}
fn surface_json(s: &Surface) -> Value {
    json!([s.indent, s.eol, s.quote, s.deco, s.order, s.pad, s.trail, s.flags, s.isrc_dash])
}
fn surface_from_json(v: &Value) -> Option<Surface> {
    let a: Vec<u8> = v.as_array()?.iter().map(|x| x.as_u64().unwrap_or(0) as u8).collect();
    if a.len() != 9 {
        return None;
    }
    Some(Surface { indent: a[0], eol: a[1], quote: a[2], deco: a[3], order: a[4], pad: a[5], trail: a[6], flags: a[7], isrc_dash: a[8] })
}
fn case_json(l: &Layout, s: &Surface) -> Value {
    json!({"kind": "cue-layout", "layout": layout_json(l), "surface": surface_json(s), "stream_samples": samples_of(l.total), "text": clip(&render(l, s), 1500)})
}

// ---------------------------------------------------------------------------------------------
// generators

/// positions: first at sector 0, then `gaps[k]` between consecutive positions, last gap to the lead-out
fn build(shapes: &[usize], gaps: &[u64], pre: &[bool], isrc: &[bool], cat: bool) -> Layout {
    let mut pos = 0u64;
    let mut k = 0usize;
    let mut first = true;
    let mut tracks = Vec::with_capacity(shapes.len());
    for (ti, &sh) in shapes.iter().enumerate() {
        let (pregap, n) = SHAPES[sh];
        let mut indices = Vec::with_capacity(n);
        for j in 0..n {
            if !first {
                pos += gaps[k % gaps.len()];
                k += 1;
            }
            first = false;
            let num = if pregap { j } else { j + 1 };
            indices.push((num as u8, pos));
        }
        tracks.push(Tr { number: (ti + 1) as u8, indices, pre: pre[ti % pre.len()], isrc: isrc[ti % isrc.len()].then(|| isrc_for(ti + 1)) });
    }
    let total = pos + gaps[k % gaps.len()];
    Layout { tracks, catalog: cat.then(|| CATALOG.to_string()), total }
}

/// the 10 attribute patterns of blocks P and S: (pre per track, isrc per track, catalog)
fn pattern(p: usize) -> ([bool; 2], [bool; 2], bool) {
    match p {
        0..=7 => ([p & 1 != 0; 2], [p & 2 != 0; 2], p & 4 != 0),
        8 => ([true, false], [false, true], true), // PRE on odd tracks, ISRC on even tracks
        _ => ([false, true], [true, false], false),
    }
}

fn npos(shapes: &[usize]) -> usize {
    shapes.iter().map(|&s| SHAPES[s].1).sum()
}
fn decode_shapes(mut i: u64, t: usize) -> Vec<usize> {
    (0..t)
        .map(|_| {
            let r = (i % 5) as usize;
            i /= 5;
            r
        })
        .collect()
}
fn decode_gaps(mut i: u64, n: usize, menu: &[u64]) -> Vec<u64> {
    (0..n)
        .map(|_| {
            let r = menu[(i % menu.len() as u64) as usize];
            i /= menu.len() as u64;
            r
        })
        .collect()
}

fn exec(acc: &mut Acc, block: &str, l: &Layout, s: &Surface) -> bool {
    acc.states += 1;
    acc.executions += 1;
    let np: u64 = l.tracks.iter().map(|t| t.indices.len() as u64).sum();
    acc.transitions += 2 * (np + l.tracks.len() as u64) + 4; // lines imported, lines re-imported, accessors
    let pg = l.tracks.iter().filter(|t| t.indices[0].0 == 0).count().min(4);
    let mm = if l.total > 100 * 4500 { "mm>=100" } else if l.total > 4500 { "mm<100" } else { "mm<1" };
    let tcls = if l.tracks.len() <= 3 { format!("t{}", l.tracks.len()) } else { "t>3".into() };
    let ok = match check(l, s) {
        Ok(()) => {
            acc.outcome(format!("{block}:ok:{tcls}:pregaps{pg}:{mm}"));
            true
        }
        Err((tail, what)) => {
            acc.outcome(format!("{block}:bad:{}", tail.split('|').next().unwrap_or("?")));
            acc.violation(format!("C20|{tail}"), format!("{what}; text: {:?}", clip(&render(l, s), 300)), case_json(l, s));
            false
        }
    };
    if acc.states % 50000 == 1 {
        acc.sample(case_json(l, s));
    }
    ok
}

fn singletons() -> Vec<(&'static str, Layout, Surface)> {
    let surfaces = [
        CANON,
        Surface { indent: 2, eol: 1, quote: 1, deco: 2, order: 1, pad: 1, trail: 1, flags: 0, isrc_dash: 0 },
        Surface { indent: 0, eol: 2, quote: 0, deco: 0, order: 0, pad: 0, trail: 0, flags: 0, isrc_dash: 0 },
        Surface { indent: 1, eol: 3, quote: 1, deco: 2, order: 0, pad: 0, trail: 0, flags: 0, isrc_dash: 0 },
    ];
    let mut v: Vec<(&'static str, Layout)> = Vec::new();
    let cyc: Vec<u64> = vec![1, 4500, 74, 75, 450000, 1, 75];
    // a track with `n` indices starting at number `first`, appended at the running position
    fn chain(specs: &[(u8, usize)], gaps: &[u64], pre: bool, isrc: bool, cat: bool) -> Layout {
        let mut pos = 0u64;
        let mut k = 0usize;
        let mut started = false;
        let mut tracks = Vec::new();
        for (ti, &(first, n)) in specs.iter().enumerate() {
            let mut indices = Vec::new();
            for j in 0..n {
                if started {
                    pos += gaps[k % gaps.len()];
                    k += 1;
                }
                started = true;
                indices.push((first + j as u8, pos));
            }
            tracks.push(Tr { number: (ti + 1) as u8, indices, pre: pre && ti % 2 == 0, isrc: isrc.then(|| isrc_for(ti + 1)) });
        }
        Layout { tracks, catalog: cat.then(|| CATALOG.to_string()), total: pos + gaps[k % gaps.len()] }
    }
    v.push(("99-tracks-1-index", chain(&[(1, 1); 99], &cyc, true, true, true)));
    v.push(("99-tracks-1-index-gap1", chain(&[(1, 1); 99], &[1], false, false, false)));
    let mixed: Vec<(u8, usize)> = (0..99).map(|i| [(1u8, 1usize), (0, 2), (1, 3), (0, 3), (1, 2)][i % 5]).collect();
    v.push(("99-tracks-mixed-shapes", chain(&mixed, &cyc, true, true, true)));
    v.push(("1-track-99-indices", chain(&[(1, 99)], &cyc, false, true, false)));
    v.push(("1-track-100-indices", chain(&[(0, 100)], &cyc, true, false, true)));
    v.push(("1-track-100-indices-gap1", chain(&[(0, 100)], &[1], false, false, false)));
    v.push(("2-tracks-second-100-indices", chain(&[(1, 1), (0, 100)], &cyc, true, true, true)));
    v.push(("2-tracks-second-99-indices", chain(&[(0, 2), (1, 99)], &cyc, false, false, true)));
    v.push(("3-tracks-100-99-100-indices", chain(&[(0, 100), (1, 99), (0, 100)], &cyc, true, true, false)));
    v.push(("99-tracks-100-indices", chain(&[(0, 100); 99], &cyc, true, true, true)));
    v.push(("99-tracks-100-indices-gap1", chain(&[(0, 100); 99], &[1], false, false, false)));
    v.push(("first-track-pregap-2s", chain(&[(0, 2), (0, 2), (1, 1)], &[150, 4500 * 3, 150, 4500 * 4, 4500 * 5], true, true, true)));
    for (name, m) in [
        ("minute-99", 99u64),
        ("minute-100", 100),
        ("minute-101", 101),
        ("minute-255", 255),
        ("minute-256", 256),
        ("minute-999", 999),
        ("minute-1000", 1000),
        ("minute-65535", 65535),
        ("minute-65536", 65536),
        ("minute-2^32", 1 << 32),
        ("minute-6e12", 6_000_000_000_000),
    ] {
        // track 1: 01 @ 00:00:00, 02 @ (m-1):59:74 ; track 2: 00 @ m:00:00, 01 @ m:02:00 ; lead-out @ (m+1):02:00
        let l = Layout {
            tracks: vec![
                Tr { number: 1, indices: vec![(1, 0), (2, m * 4500 - 1)], pre: false, isrc: None },
                Tr { number: 2, indices: vec![(0, m * 4500), (1, m * 4500 + 150)], pre: true, isrc: Some(isrc_for(2)) },
            ],
            catalog: Some(CATALOG.into()),
            total: m * 4500 + 150 + 4500,
        };
        v.push((name, l));
    }
    let mut out: Vec<(&'static str, Layout, Surface)> = Vec::new();
    for (name, l) in v {
        for s in surfaces {
            out.push((name, l.clone(), s));
        }
    }
    // spelling variants of single lines
    let base = build(&[3, 1, 0], &[150, 4500, 75, 1, 4500], &[true, false], &[true], true);
    out.push(("isrc-with-dashes-quoted", base.clone(), Surface { quote: 1, isrc_dash: 1, ..CANON }));
    out.push(("isrc-with-dashes-bare", base, Surface { quote: 0, isrc_dash: 1, ..CANON }));
    // smallest layout for the FLAGS spellings: track 1 carries PRE, track 2 does not
    let small = build(&[0, 0], &[4500], &[true, false], &[false], false);
    out.push(("flags-line-without-pre", small.clone(), Surface { flags: 3, deco: 0, ..CANON }));
    out.push(("flags-dcp-pre", small.clone(), Surface { flags: 1, deco: 0, ..CANON }));
    out.push(("flags-pre-dcp", small, Surface { flags: 2, deco: 0, ..CANON }));
    out
}

pub fn run(ctx: &Ctx, acc: &mut Acc) {
    let menu: &[u64] = if ctx.quick { &QUICK_GAPS } else { &THOR_GAPS };
    // ---- block P: every position layout x attribute patterns, canonical surface.
    // quick: all 10 patterns; thorough (5-value menu, 28.5 M layouts): none / all / the two alternating patterns -
    // the other six all-or-nothing combinations are subsumed by block A, which in the thorough tier covers
    // every per-track assignment for <=3 tracks.
    let pats: &[usize] = if ctx.quick { &[0, 1, 2, 3, 4, 5, 6, 7, 8, 9] } else { &[0, 7, 8, 9] };
    for t in 1..=3usize {
        for sh in 0..5u64.pow(t as u32) {
            let shapes = decode_shapes(sh, t);
            let n = npos(&shapes);
            let combos = (menu.len() as u64).pow(n as u32);
            for g in 0..combos {
                for &p in pats {
                    if !ctx.mine() {
                        continue;
                    }
                    let gaps = decode_gaps(g, n, menu);
                    let (pre, isrc, cat) = pattern(p);
                    let l = build(&shapes, &gaps, &pre, &isrc, cat);
                    exec(acc, "P", &l, &CANON);
                }
            }
        }
    }
    // ---- block A: every per-track attribute assignment (quick gap menu)
    let tmax = if ctx.quick { 2 } else { 3 };
    for t in 1..=tmax {
        for sh in 0..5u64.pow(t as u32) {
            let shapes = decode_shapes(sh, t);
            let n = npos(&shapes);
            let combos = (QUICK_GAPS.len() as u64).pow(n as u32);
            for g in 0..combos {
                for a in 0..(1u64 << (2 * t + 1)) {
                    if !ctx.mine() {
                        continue;
                    }
                    let gaps = decode_gaps(g, n, &QUICK_GAPS);
                    let pre: Vec<bool> = (0..t).map(|i| a >> (2 * i) & 1 != 0).collect();
                    let isrc: Vec<bool> = (0..t).map(|i| a >> (2 * i + 1) & 1 != 0).collect();
                    let l = build(&shapes, &gaps, &pre, &isrc, a >> (2 * t) & 1 != 0);
                    exec(acc, "A", &l, &CANON);
                }
            }
        }
    }
    // ---- block S: every shape x attribute pattern x gap vector x every surface form
    let mut gapvecs: Vec<Vec<u64>> = menu.iter().map(|&g| vec![g]).collect();
    gapvecs.push(menu.to_vec());
    if ctx.thorough() {
        let mut r = menu.to_vec();
        r.reverse();
        gapvecs.push(r);
    }
    for t in 1..=3usize {
        for sh in 0..5u64.pow(t as u32) {
            let shapes = decode_shapes(sh, t);
            for gv in &gapvecs {
                for p in 0..10usize {
                    for sf in 0..N_SURF {
                        if !ctx.mine() {
                            continue;
                        }
                        let (pre, isrc, cat) = pattern(p);
                        let l = build(&shapes, gv, &pre, &isrc, cat);
                        exec(acc, "S", &l, &surface_from(sf));
                    }
                }
            }
        }
    }
    // ---- block X: boundary singletons
    for (name, l, s) in singletons() {
        if !ctx.mine() {
            continue;
        }
        let ok = exec(acc, "X", &l, &s);
        acc.outcome(format!("X:{name}:{}", if ok { "holds" } else { "violated" }));
    }
}

pub fn replay(v: &Value) -> Option<(bool, String)> {
    if v["kind"].as_str()? != "cue-layout" {
        return None;
    }
    let l = layout_from(&v["layout"])?;
    let s = surface_from_json(&v["surface"])?;
    let r = check(&l, &s);
    Some((r.is_err(), format!("{r:?}")))
}
