//! stub — to be written
use crate::core::{Acc, Ctx};
use serde_json::Value;
pub const RULE: &str = "";
pub const ASSUMPTIONS: &[&str] = &[];
pub fn bounds(_quick: bool) -> Value { Value::Null }
pub fn run(_ctx: &Ctx, _acc: &mut Acc) {}
pub fn replay(_v: &Value) -> Option<(bool, String)> { None }
