//! C03 — the decoder follows RFC 9639 on every valid stream (not just its own encoder's).
//! Shape G over the `fgen` frame grammar: all choice vectors with ≤ d deviations + full single-axis sweeps;
//! every stream is valid by construction, the expected decode is the target PCM; both build profiles.
use crate::codec::{decode, err_class, ReaderKind};
use crate::core::{for_each_deviation, guarded, hex, Acc, Ctx};
use crate::gspace::{self, make_spec, menus, NAMES};
use flac_codec::decode::{verify_reader, Verified};
use serde_json::{json, Value};
use vph::fgen::{self, *};
use vph::refdec;

pub const RULE: &str = "streams are built by the structure-aware generator fgen from a 23-axis choice vector (channels, depth incl. STREAMINFO-referenced depths, rate and its header coding, depth coding, total known/unknown, MD5 correct/zero/wrong, fixed/variable blocking, seek-table shape, frame count, block size and its coding, short/equal last block, coded-number length, padding, target PCM, subframe kind incl. LPC to order 32 with 15-bit coefficients, which subframes, wasted bits, residual method, partition order, Rice/escape parameters, stereo assignment incl. 33-bit side): ALL vectors with ≤3 (thorough ≤5) deviations from the plain stream, plus full single-axis sweeps (every LPC order × precision × shift class, every Rice parameter for both methods, every escape width, every wasted-bit count at every depth, every depth 1..32, every legal partition order for block sizes 16..64 and every order 0..15 on blocks of 512 / 4096 / 32768 samples, all stereo modes at 32 bit) and a header code-table sweep (every block-size code — 192, 576·2^k, 256·2^k, both explicit forms at 16/255/256/257/4096/65535 — × every sample-rate code — the 11 tabulated rates and the kHz / Hz / 10 Hz / STREAMINFO forms at their boundaries; every depth code × every channel-assignment code × fixed/variable blocking); each stream is first checked against the independent decoder (generator and reference must invert each other), then decoded by 7 reader front-ends and verify_reader in both build profiles; distinct outcomes = (deviating axes, verdict)";
pub const ASSUMPTIONS: &[&str] = &["target PCM limited to 5 signal kinds per stream; residual magnitudes follow from them", "vectors with more than 3 simultaneous deviations are only reached through the sweeps"];
pub fn bounds(quick: bool) -> Value {
    json!({"deviations": if quick { 3 } else { 5 }, "sweeps": "full", "header_tables": "every block-size / sample-rate / depth / channel-assignment code"})
}

const READERS: [ReaderKind; 7] = [ReaderKind::SampleFill, ReaderKind::SampleRead, ReaderKind::SampleIter, ReaderKind::ByteLE, ReaderKind::ByteBE, ReaderKind::ByteFillLE, ReaderKind::Channel];

/// Some(violation) / None. `label` names the case class for signatures.
pub fn judge(b: &Built, spec: &StreamSpec) -> Result<Option<(String, String)>, String> {
    // generator ↔ reference binding: a disagreement is a machinery error, never a verdict
    match guarded(|| refdec::decode(&b.bytes)) {
        Ok(Ok(st)) if st.pcm == b.pcm => {}
        Ok(Ok(_)) => return Err("fgen/refdec disagree on PCM".into()),
        Ok(Err(r)) => return Err(format!("refdec rejects an fgen stream: {} {}", r.code, r.msg)),
        Err(p) => return Err(format!("refdec panic {p}")),
    }
    for r in READERS {
        match decode(r, &b.bytes) {
            Ok(d) => {
                if d.pcm != b.pcm {
                    let at = d.pcm.iter().zip(&b.pcm).position(|(x, y)| x != y).unwrap_or(d.pcm.len().min(b.pcm.len()));
                    return Ok(Some(("wrong-samples".into(), format!("{r:?} returns different samples (first difference at {at}: got {:?}, format defines {:?}; {} vs {} samples)", d.pcm.get(at), b.pcm.get(at), d.pcm.len(), b.pcm.len()))));
                }
                if d.ch != spec.channels || d.rate != spec.rate || d.bps != spec.bps as u32 {
                    return Ok(Some(("wrong-parameters".into(), format!("{r:?} reports {}ch {}Hz {}bit", d.ch, d.rate, d.bps))));
                }
            }
            Err((e, _)) => return Ok(Some((format!("rejects-valid-{}", err_class(&e)), format!("{r:?} fails on a valid stream: {e}")))),
        }
    }
    let want = match spec.md5 { Md5Spec::Correct => Verified::MD5Match, Md5Spec::Zero => Verified::NoMD5, Md5Spec::Wrong => Verified::MD5Mismatch };
    match guarded(|| verify_reader(&b.bytes[..])) {
        Ok(Ok(v)) if v == want => {}
        Ok(Ok(v)) => return Ok(Some(("md5-verdict".into(), format!("verify_reader says {v:?}, expected {want:?}")))),
        Ok(Err(e)) => return Ok(Some((format!("verify-fails-{e:?}").split('(').next().unwrap().to_string(), format!("verify_reader fails on a valid stream: {e:?}")))),
        Err(p) => return Ok(Some((format!("panic@{}", crate::core::panic_loc(&p)), format!("verify_reader panics: {p}")))),
    }
    Ok(None)
}

fn run_spec(acc: &mut Acc, spec: &StreamSpec, class: &str, origin: Value) {
    let b = match fgen::build(spec) {
        Ok(b) => b,
        Err(_) => {
            acc.outcome(format!("{class}:unbuildable"));
            acc.dim("unbuildable", 1);
            return;
        }
    };
    acc.states += 1;
    acc.executions += 1;
    acc.transitions += 9;
    match judge(&b, spec) {
        Err(m) => {
            acc.outcome(format!("{class}:machinery"));
            acc.notes.push(format!("machinery: {m} on {origin}"));
            acc.violation("C03|machinery|generator-reference-disagree".to_string(), format!("{m} ({origin})"), json!({"kind":"valid-stream","bytes":hex(&b.bytes),"pcm":b.pcm,"ch":spec.channels,"rate":spec.rate,"bps":spec.bps,"md5":format!("{:?}",spec.md5),"origin":origin}));
        }
        Ok(None) => acc.outcome(format!("{class}:ok")),
        Ok(Some((clause, detail))) => {
            acc.outcome(format!("{class}:{clause}"));
            acc.violation(format!("C03|{clause}"), format!("{detail} [{origin}]"), json!({"kind":"valid-stream","bytes":hex(&b.bytes),"pcm":b.pcm,"ch":spec.channels,"rate":spec.rate,"bps":spec.bps,"md5":format!("{:?}",spec.md5),"origin":origin}));
        }
    }
    if acc.states % 5000 == 1 {
        acc.sample(json!({"origin": origin, "stream_bytes": b.bytes.len(), "hex_prefix": hex(&b.bytes[..b.bytes.len().min(80)])}));
    }
}

fn mono(bps: u8, n: usize, tkind: usize, sub: SubSpec) -> StreamSpec {
    let mut f = plain_frame(vec![gspace::target(tkind, bps, 0, n, 0, sub.wasted)]);
    f.subframes[0] = sub;
    plain_stream(1, bps, 44100, vec![f])
}

pub fn run(ctx: &Ctx, acc: &mut Acc) {
    let m = menus();
    // ---- deviation-bounded lattice
    for_each_deviation(&m, if ctx.quick { 3 } else { 5 }, |k| {
        if !ctx.mine() {
            return;
        }
        let axes: Vec<&str> = k.iter().enumerate().filter(|(_, v)| **v != 0).map(|(i, _)| NAMES[i]).collect();
        let class = format!("dev:{}", axes.join("+"));
        match make_spec(k) {
            Ok(spec) => run_spec(acc, &spec, &class, json!({"vector": k})),
            Err(_) => {
                acc.dim("inapplicable", 1);
            }
        }
    });
    // ---- single-axis sweeps
    // every LPC order × precision × shift class × coefficient pattern, at 4 depths
    for bps in [8u8, 16, 24, 32] {
        for order in 1..=32u8 {
            for precision in 1..=15u8 {
                for shift in [0u8, precision.saturating_sub(1).min(15), 15] {
                    for pat in 0..3u8 {
                        for tk in [0usize, 2] {
                            if !ctx.mine() {
                                continue;
                            }
                            let mxc = (1i32 << (precision - 1)) - 1;
                            let coefs: Vec<i32> = (0..order as usize).map(|j| match pat { 0 => if j == 0 { mxc.min(1 << shift.min(14)) } else { 0 }, 1 => if j % 2 == 0 { mxc } else { -mxc - 1 }, _ => if j < 2 { mxc } else { 0 } }).collect();
                            let mut sub = plain_sub();
                            sub.kind = SubKind::Lpc { order, precision, shift, coefs };
                            sub.res.method = (bps > 16) as u8;
                            run_spec(acc, &mono(bps, 40, tk, sub), "sweep:lpc", json!({"sweep":"lpc","bps":bps,"order":order,"precision":precision,"shift":shift,"pattern":pat,"target":tk}));
                        }
                    }
                }
            }
        }
    }
    // every Rice parameter / escape width, both methods
    for bps in [8u8, 16, 24, 32] {
        for method in 0..2u8 {
            for p in 0..(if method == 0 { 15 } else { 31 }) {
                for tk in [0usize, 2, 3] {
                    for kind in [SubKind::Fixed(0), SubKind::Fixed(2)] {
                        if !ctx.mine() {
                            continue;
                        }
                        let mut sub = plain_sub();
                        sub.kind = kind.clone();
                        sub.res = ResSpec { method, order: 1, params: vec![PartParam::Rice(p), PartParam::Auto] };
                        run_spec(acc, &mono(bps, 16, tk, sub), "sweep:rice", json!({"sweep":"rice","bps":bps,"method":method,"param":p,"target":tk}));
                    }
                }
            }
            for w in 0..32u8 {
                for tk in [0usize, 1, 2, 3] {
                    if !ctx.mine() {
                        continue;
                    }
                    let mut sub = plain_sub();
                    sub.kind = SubKind::Fixed(1);
                    sub.res = ResSpec { method, order: 0, params: vec![PartParam::Escape(Some(w))] };
                    run_spec(acc, &mono(bps, 16, tk, sub), "sweep:escape", json!({"sweep":"escape","bps":bps,"method":method,"width":w,"target":tk}));
                }
            }
        }
    }
    // every wasted-bit count at every depth; every depth through STREAMINFO reference
    for bps in 1..=32u8 {
        for w in 0..bps {
            for kind in [SubKind::Verbatim, SubKind::Fixed(1), SubKind::Constant] {
                for tk in [0usize, 3, 4] {
                    if !ctx.mine() {
                        continue;
                    }
                    let mut sub = plain_sub();
                    sub.kind = kind.clone();
                    sub.wasted = w;
                    let mut spec = mono(bps, 16, tk, sub);
                    if w % 2 == 1 {
                        spec.frames[0].bps = BpsCoding::Streaminfo;
                    }
                    run_spec(acc, &spec, "sweep:wasted", json!({"sweep":"wasted","bps":bps,"wasted":w,"target":tk}));
                }
            }
        }
    }
    // every legal partition order for block sizes 16..=64 and predictor orders 0..4
    for n in 16..=64usize {
        for po in 0..=6u8 {
            for fo in 0..=4u8 {
                if n % (1 << po) != 0 || (n >> po) <= fo as usize {
                    continue;
                }
                if !ctx.mine() {
                    continue;
                }
                let mut sub = plain_sub();
                sub.kind = SubKind::Fixed(fo);
                sub.res = ResSpec { method: 0, order: po, params: vec![PartParam::Auto, PartParam::Escape(None), PartParam::Rice(2)] };
                run_spec(acc, &mono(16, n, 3, sub), "sweep:partition", json!({"sweep":"partition","n":n,"order":po,"fixed":fo}));
            }
        }
    }
    // partition orders 0..=15 on blocks of 512 / 4096 / 32768 samples (gspace::partition_high_specs)
    for (spec, origin) in gspace::partition_high_specs() {
        if ctx.mine() {
            run_spec(acc, &spec, "sweep:partition-high", origin);
        }
    }
    // stereo modes at every depth incl. the 33-bit side channel, all target kinds, wasted bits on the side channel
    for bps in [4u8, 8, 16, 24, 31, 32] {
        for assign in [Assign::LeftSide, Assign::SideRight, Assign::MidSide, Assign::Independent] {
            for tk in 0..5usize {
                for kind in [SubKind::Verbatim, SubKind::Fixed(1), SubKind::Fixed(4)] {
                    for w in [0u8, 1, 2] {
                        if !ctx.mine() {
                            continue;
                        }
                        let pcm: Vec<Vec<i32>> = (0..2).map(|c| gspace::target(tk, bps, c, 24, 0, w)).collect();
                        let mut f = plain_frame(pcm);
                        f.assign = assign.clone();
                        for s in f.subframes.iter_mut() {
                            s.kind = kind.clone();
                            s.wasted = w;
                            s.res.method = 1;
                        }
                        let spec = plain_stream(2, bps, 48000, vec![f]);
                        run_spec(acc, &spec, "sweep:stereo", json!({"sweep":"stereo","bps":bps,"assign":format!("{assign:?}"),"target":tk,"wasted":w}));
                    }
                }
            }
        }
    }
    header_table_sweep(ctx, acc);
}

/// header code-table sweep (specs: gspace::header_table_specs)
fn header_table_sweep(ctx: &Ctx, acc: &mut Acc) {
    for (spec, origin, _subset) in gspace::header_table_specs() {
        if !ctx.mine() {
            continue;
        }
        run_spec(acc, &spec, "sweep:header-tables", origin);
    }
}

pub fn replay(v: &Value) -> Option<(bool, String)> {
    if v["kind"] != "valid-stream" {
        return None;
    }
    let bytes = crate::core::unhex(v["bytes"].as_str()?);
    let pcm = crate::core::ivec(&v["pcm"]);
    let md5 = match v["md5"].as_str()? { "Correct" => Md5Spec::Correct, "Zero" => Md5Spec::Zero, _ => Md5Spec::Wrong };
    let b = Built { bytes, first_frame_offset: 0, frame_offsets: vec![], pcm, minimal_numbers: true, any_bad: false };
    let mut spec = plain_stream(v["ch"].as_u64()? as u8, v["bps"].as_u64()? as u8, v["rate"].as_u64()? as u32, vec![]);
    spec.md5 = md5;
    match judge(&b, &spec) {
        Err(m) => Some((true, format!("machinery: {m}"))),
        Ok(None) => Some((false, "all readers return the defined samples".into())),
        Ok(Some((c, d))) => Some((true, format!("{c}: {d}"))),
    }
}
