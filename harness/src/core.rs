//! Explorer core: sharded exhaustive enumeration, result accumulation, panic capture,
//! allocation accounting, watchdog, evidence + known-finding plumbing, replay files.
//!
//! Process model: `vpx run <ID> <tier>` (parent, opt profile) spawns `nshards` single-threaded
//! children per build profile (`vpx shard ...`, from target/release or target/chk), each of which
//! enumerates the *whole* case space deterministically and executes the cases whose running index
//! is congruent to its shard number.  Children write a JSON result; the parent merges them,
//! matches violations against known_findings.json, writes evidence and prints verdict lines.

use serde_json::{json, Map, Value};
use std::alloc::{GlobalAlloc, Layout, System};
use std::collections::BTreeMap;
use std::sync::atomic::{AtomicU64, AtomicUsize, Ordering};

// ---------------------------------------------------------------------------------------------
// Counting allocator

pub struct CountingAlloc;
static LIVE: AtomicUsize = AtomicUsize::new(0);
static PEAK: AtomicUsize = AtomicUsize::new(0);

unsafe impl GlobalAlloc for CountingAlloc {
    unsafe fn alloc(&self, l: Layout) -> *mut u8 {
        let p = unsafe { System.alloc(l) };
        if !p.is_null() {
            let now = LIVE.fetch_add(l.size(), Ordering::Relaxed) + l.size();
            if now > PEAK.load(Ordering::Relaxed) {
                PEAK.store(now, Ordering::Relaxed);
            }
        }
        p
    }
    unsafe fn dealloc(&self, p: *mut u8, l: Layout) {
        LIVE.fetch_sub(l.size(), Ordering::Relaxed);
        unsafe { System.dealloc(p, l) }
    }
    unsafe fn realloc(&self, p: *mut u8, l: Layout, new: usize) -> *mut u8 {
        let q = unsafe { System.realloc(p, l, new) };
        if !q.is_null() {
            if new >= l.size() {
                let now = LIVE.fetch_add(new - l.size(), Ordering::Relaxed) + (new - l.size());
                if now > PEAK.load(Ordering::Relaxed) {
                    PEAK.store(now, Ordering::Relaxed);
                }
            } else {
                LIVE.fetch_sub(l.size() - new, Ordering::Relaxed);
            }
        }
        q
    }
}

/// Reset the peak to the current live size; returns live bytes.
pub fn alloc_mark() -> usize {
    let live = LIVE.load(Ordering::Relaxed);
    PEAK.store(live, Ordering::Relaxed);
    live
}
/// Peak bytes above the mark taken by `alloc_mark` (pass its return value).
pub fn alloc_peak_since(mark: usize) -> usize {
    PEAK.load(Ordering::Relaxed).saturating_sub(mark)
}

// ---------------------------------------------------------------------------------------------
// Panic capture

thread_local! {
    static GUARD_DEPTH: std::cell::Cell<u32> = const { std::cell::Cell::new(0) };
    static LAST_PANIC: std::cell::RefCell<Option<String>> = const { std::cell::RefCell::new(None) };
}

pub fn install_panic_hook() {
    std::panic::set_hook(Box::new(|info| {
        let loc = info
            .location()
            .map(|l| {
                let f = l.file();
                // keep paths stable: strip everything before "src/" for the repo, keep crate name for deps
                let f = f.strip_prefix("/repo/").unwrap_or(f);
                format!("{}:{}", f, l.line())
            })
            .unwrap_or_else(|| "?".into());
        let msg = if let Some(s) = info.payload().downcast_ref::<&str>() {
            (*s).to_string()
        } else if let Some(s) = info.payload().downcast_ref::<String>() {
            s.clone()
        } else {
            "<non-string panic>".into()
        };
        if GUARD_DEPTH.with(|d| d.get()) == 0 {
            // a panic of the harness itself: machinery failure, make it visible
            eprintln!("MACHINERY: harness panic: {} @ {}", msg, loc);
        }
        LAST_PANIC.with(|p| *p.borrow_mut() = Some(format!("{} @ {}", msg, loc)));
    }));
}

/// Run `f`, converting a panic into `Err("msg @ file:line")`.
pub fn guarded<T>(f: impl FnOnce() -> T) -> Result<T, String> {
    GUARD_DEPTH.with(|d| d.set(d.get() + 1));
    let r = std::panic::catch_unwind(std::panic::AssertUnwindSafe(f));
    GUARD_DEPTH.with(|d| d.set(d.get() - 1));
    match r {
        Ok(v) => Ok(v),
        Err(_) => Err(LAST_PANIC
            .with(|p| p.borrow_mut().take())
            .unwrap_or_else(|| "panic (no message)".into())),
    }
}

/// Location part ("file:line") of a captured panic string.
pub fn panic_loc(p: &str) -> &str {
    p.rsplit(" @ ").next().unwrap_or(p)
}

// ---------------------------------------------------------------------------------------------
// Context and accumulator

#[derive(Clone, Debug)]
pub struct Ctx {
    pub prop: String,
    pub quick: bool,
    pub shard: u64,
    pub nshards: u64,
    pub profile: String, // "opt" | "chk"
    pub seed: u64,
    next: std::cell::Cell<u64>,
}

impl Ctx {
    pub fn new(prop: &str, quick: bool, shard: u64, nshards: u64, profile: &str, seed: u64) -> Self {
        Ctx { prop: prop.into(), quick, shard, nshards, profile: profile.into(), seed, next: 0.into() }
    }
    /// Deterministic round-robin sharding: true if the case with the next running index is ours.
    #[inline]
    pub fn mine(&self) -> bool {
        let i = self.next.get();
        self.next.set(i + 1);
        HEARTBEAT.store(i, Ordering::Relaxed);
        i % self.nshards == self.shard
    }
    pub fn thorough(&self) -> bool {
        !self.quick
    }
    pub fn chk(&self) -> bool {
        self.profile == "chk"
    }
}

pub static HEARTBEAT: AtomicU64 = AtomicU64::new(0);
pub static CASE_CLOCK: AtomicU64 = AtomicU64::new(0); // bumped whenever a case starts

#[derive(Clone, Debug)]
pub struct Violation {
    pub sig: String,  // stable signature (known-finding key)
    pub what: String, // human readable
    pub case: Value,  // replayable case (has "kind")
}

#[derive(Default)]
pub struct Acc {
    pub states: u64,
    pub transitions: u64,
    pub executions: u64,
    pub outcomes: BTreeMap<String, u64>,
    pub dims: BTreeMap<String, u64>,
    pub viol: BTreeMap<String, (u64, Violation)>, // sig -> (count, first witness)
    pub samples: Vec<Value>,
    pub caps: Vec<String>,
    pub notes: Vec<String>,
}

impl Acc {
    pub fn outcome(&mut self, k: impl Into<String>) {
        *self.outcomes.entry(k.into()).or_insert(0) += 1;
    }
    pub fn dim(&mut self, k: &str, n: u64) {
        *self.dims.entry(k.into()).or_insert(0) += n;
    }
    pub fn violation(&mut self, sig: impl Into<String>, what: impl Into<String>, case: Value) {
        let sig = sig.into();
        match self.viol.get_mut(&sig) {
            Some(e) => e.0 += 1,
            None => {
                self.viol.insert(sig.clone(), (1, Violation { sig, what: what.into(), case }));
            }
        }
    }
    pub fn sample(&mut self, v: Value) {
        if self.samples.len() < 6 {
            self.samples.push(v);
        }
    }
    pub fn to_json(&self) -> Value {
        json!({
            "states": self.states, "transitions": self.transitions, "executions": self.executions,
            "outcomes": self.outcomes, "dims": self.dims,
            "viol": self.viol.iter().map(|(k,(n,v))| json!({"sig":k,"count":n,"what":v.what,"case":v.case})).collect::<Vec<_>>(),
            "samples": self.samples, "caps": self.caps, "notes": self.notes,
        })
    }
    pub fn merge_json(&mut self, v: &Value) {
        self.states += v["states"].as_u64().unwrap_or(0);
        self.transitions += v["transitions"].as_u64().unwrap_or(0);
        self.executions += v["executions"].as_u64().unwrap_or(0);
        for (k, n) in v["outcomes"].as_object().into_iter().flatten() {
            *self.outcomes.entry(k.clone()).or_insert(0) += n.as_u64().unwrap_or(0);
        }
        for (k, n) in v["dims"].as_object().into_iter().flatten() {
            *self.dims.entry(k.clone()).or_insert(0) += n.as_u64().unwrap_or(0);
        }
        for x in v["viol"].as_array().into_iter().flatten() {
            let sig = x["sig"].as_str().unwrap_or("?").to_string();
            let n = x["count"].as_u64().unwrap_or(1);
            match self.viol.get_mut(&sig) {
                Some(e) => e.0 += n,
                None => {
                    self.viol.insert(
                        sig.clone(),
                        (n, Violation { sig, what: x["what"].as_str().unwrap_or("").into(), case: x["case"].clone() }),
                    );
                }
            }
        }
        for s in v["samples"].as_array().into_iter().flatten() {
            self.sample(s.clone());
        }
        for s in v["caps"].as_array().into_iter().flatten() {
            let s = s.as_str().unwrap_or("").to_string();
            if !self.caps.contains(&s) {
                self.caps.push(s);
            }
        }
        for s in v["notes"].as_array().into_iter().flatten() {
            let s = s.as_str().unwrap_or("").to_string();
            if !self.notes.contains(&s) {
                self.notes.push(s);
            }
        }
    }
}

// ---------------------------------------------------------------------------------------------
// Small helpers

pub fn hex(b: &[u8]) -> String {
    let mut s = String::with_capacity(b.len() * 2);
    for x in b {
        s.push_str(&format!("{:02x}", x));
    }
    s
}
pub fn unhex(s: &str) -> Vec<u8> {
    (0..s.len() / 2).map(|i| u8::from_str_radix(&s[2 * i..2 * i + 2], 16).unwrap_or(0)).collect()
}
pub fn fnv64(b: &[u8]) -> u64 {
    let mut h: u64 = 0xcbf29ce484222325;
    for x in b {
        h ^= *x as u64;
        h = h.wrapping_mul(0x100000001b3);
    }
    h
}
pub fn ivec(v: &Value) -> Vec<i32> {
    v.as_array().map(|a| a.iter().map(|x| x.as_i64().unwrap_or(0) as i32).collect()).unwrap_or_default()
}
pub fn obj(pairs: Vec<(&str, Value)>) -> Value {
    let mut m = Map::new();
    for (k, v) in pairs {
        m.insert(k.to_string(), v);
    }
    Value::Object(m)
}

/// All sequences over `alpha` with length in lo..=hi, shortest first, lexicographic; calls f(seq).
pub fn for_each_seq<T: Copy>(alpha: &[T], lo: usize, hi: usize, mut f: impl FnMut(&[T])) {
    let mut buf: Vec<T> = Vec::new();
    let mut idx: Vec<usize> = Vec::new();
    for len in lo..=hi {
        if len == 0 {
            f(&[]);
            continue;
        }
        if alpha.is_empty() {
            continue;
        }
        idx.clear();
        idx.resize(len, 0);
        buf.clear();
        buf.resize(len, alpha[0]);
        loop {
            f(&buf);
            // odometer increment
            let mut p = len;
            let mut done = true;
            while p > 0 {
                p -= 1;
                idx[p] += 1;
                if idx[p] < alpha.len() {
                    buf[p] = alpha[idx[p]];
                    done = false;
                    break;
                }
                idx[p] = 0;
                buf[p] = alpha[0];
            }
            if done {
                break;
            }
        }
    }
}

/// Every choice vector over `menus` (menu sizes) with at most `d` non-zero entries, fewest deviations first.
pub fn for_each_deviation(menus: &[usize], d: usize, mut f: impl FnMut(&[usize])) {
    let n = menus.len();
    let mut v = vec![0usize; n];
    fn rec(menus: &[usize], v: &mut Vec<usize>, start: usize, left: usize, f: &mut dyn FnMut(&[usize])) {
        if left == 0 {
            f(v);
            return;
        }
        for p in start..menus.len() {
            for c in 1..menus[p] {
                v[p] = c;
                rec(menus, v, p + 1, left - 1, f);
            }
            v[p] = 0;
        }
    }
    for k in 0..=d.min(n) {
        rec(menus, &mut v, 0, k, &mut f);
    }
}

/// Deterministic LCG used only for *fixed grid constants* (noise carriers), never for sampling the case space.
pub struct Lcg(pub u64);
impl Lcg {
    pub fn next(&mut self) -> u64 {
        self.0 = self.0.wrapping_mul(6364136223846793005).wrapping_add(1442695040888963407);
        self.0 >> 11
    }
}
