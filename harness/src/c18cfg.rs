// Shared between the serial reference generator (vpx c18ref, feature-less build) and the schedule explorer
// (vp18, rayon feature on the model runtime). Plain code, `include!`d by both.

#[derive(Clone, Debug)]
pub struct Cfg18 {
    pub name: String,
    pub stream_api: bool, // FlacStreamWriter instead of FlacSampleWriter
    pub ch: u8,
    pub bps: u32,
    pub lpc: Option<u8>,
    pub mid_side: bool,
    pub fast: bool,
    pub signal: u32,
    pub frames: usize, // PCM frames
    pub block: u16,
    pub window: u8, // 0 = default Tukey(0.5), 1 = Hann, 2 = rectangle
}

pub fn configs18() -> Vec<Cfg18> {
    let mut v = Vec::new();
    for stream_api in [false, true] {
        for (ch, variants) in [(1u8, vec![(true, false)]), (2, vec![(true, false), (false, false), (true, true), (false, true)]), (3, vec![(true, false)]), (8, vec![(true, false)])] {
            for (mid_side, fast) in variants {
                for lpc in [None, Some(2u8)] {
                    for signal in 0..2u32 {
                        for frames in [16usize, 37] {
                            if stream_api && frames != 16 {
                                continue;
                            }
                            v.push(Cfg18 { name: format!("{}-ch{}-{}{}-lpc{}-sig{}-{}f", if stream_api { "stream" } else { "file" }, ch, if mid_side { "ms" } else { "noms" }, if fast { "-fast" } else { "" }, lpc.unwrap_or(0), signal, frames), stream_api, ch, bps: 16, lpc, mid_side, fast, signal, frames, block: 16, window: 0 });
                        }
                    }
                }
            }
        }
    }
    // non-default analysis windows (per-channel window tables are state the tasks must not share)
    let base: Vec<Cfg18> = v.iter().filter(|c| c.lpc.is_some() && c.signal == 1).cloned().collect();
    for c in base {
        for (window, wn) in [(1u8, "hann"), (2, "rect")] {
            v.push(Cfg18 { name: format!("{}-{}", c.name, wn), window, ..c.clone() });
        }
    }
    // input sweep on the small configurations (cheap to explore): many signals, so that data-dependent
    // situations (equal-size candidates, constant / wasted-bit channels, verbatim fallbacks) meet every schedule
    for (ch, mid_side, fast) in [(1u8, true, false), (2, true, false), (2, false, true), (2, true, true)] {
        for lpc in [Some(2u8), Some(8)] {
            // mono has 3 schedules per configuration: sweep far more signals there
            let n = if ch == 1 { SWEEP_SIGNALS * 25 } else { SWEEP_SIGNALS };
            for signal in 2..(2 + n) {
                v.push(Cfg18 { name: format!("sweep-ch{}-{}{}-lpc{}-sig{}", ch, if mid_side { "ms" } else { "noms" }, if fast { "-fast" } else { "" }, lpc.unwrap_or(0), signal), stream_api: false, ch, bps: 16, lpc, mid_side, fast, signal: signal as u32, frames: 16, block: 16, window: 0 });
            }
        }
    }
    // realistic block size (576): FIXED and LPC candidates compete closely there, equal-size candidates occur
    for lpc in [Some(2u8), Some(8)] {
        for signal in 2..(2 + SWEEP_SIGNALS * 12) {
            v.push(Cfg18 { name: format!("sweep576-ch1-lpc{}-sig{}", lpc.unwrap_or(0), signal), stream_api: false, ch: 1, bps: 16, lpc, mid_side: true, fast: false, signal: signal as u32, frames: 576, block: 576, window: 0 });
        }
    }
    for signal in 2..(2 + SWEEP_SIGNALS) {
        v.push(Cfg18 { name: format!("sweep576-ch2-fast-lpc2-sig{}", signal), stream_api: false, ch: 2, bps: 16, lpc: Some(2), mid_side: false, fast: true, signal: signal as u32, frames: 576, block: 576, window: 0 });
    }
    // LPC subframes are actually chosen at this block size, so whatever differs between the tasks' LPC analyses shows in the bytes:
    // non-default windows × {stereo fast, stereo exhaustive, 3 channels}
    for signal in 2..(2 + SWEEP_SIGNALS / 4) {
        for (window, wn) in [(1u8, "hann"), (2, "rect")] {
            for (ch, fast, cn) in [(2u8, true, "ch2-fast"), (2, false, "ch2"), (3, false, "ch3")] {
                v.push(Cfg18 { name: format!("sweep576-{}-lpc8-{}-sig{}", cn, wn, signal), stream_api: false, ch, bps: 16, lpc: Some(8), mid_side: true, fast, signal: signal as u32, frames: 576, block: 576, window });
            }
        }
    }
    // channel-heterogeneous inputs: every assignment of 8 per-channel traits (noise, noise with 4 / 1 wasted bits, non-zero
    // constant, silence, exact ramp, shared noise ± 4000 (constant non-zero difference), shared noise (dual mono)) to the
    // channels, so that situations in which the tasks of one frame see DIFFERENT kinds of data meet every schedule
    for (mid_side, fast) in [(true, false), (false, false), (false, true), (true, true)] {
        for code in 0..64u32 {
            v.push(Cfg18 { name: format!("sweep-hetero-ch2-{}{}-t{}{}", if mid_side { "ms" } else { "noms" }, if fast { "-fast" } else { "" }, code % 8, code / 8), stream_api: false, ch: 2, bps: 16, lpc: Some(2), mid_side, fast, signal: HETERO + code, frames: 16, block: 16, window: 0 });
        }
    }
    for code in 0..512u32 {
        // 3 channels: traits 0..3 only (noise, 4 wasted bits, constant, silence) — 64 assignments
        if (0..3).any(|c| (code >> (3 * c)) & 7 > 3) {
            continue;
        }
        v.push(Cfg18 { name: format!("sweep-hetero-ch3-t{}{}{}", code & 7, (code >> 3) & 7, (code >> 6) & 7), stream_api: false, ch: 3, bps: 16, lpc: Some(2), mid_side: true, fast: false, signal: HETERO + code, frames: 16, block: 16, window: 0 });
    }
    // the constant-difference and dual-mono pairs again on two frames of a larger block (state carried between frames)
    for code in [5 + 8 * 5, 6 + 8 * 6, 1, 8, 1 + 8 * 7, 5 + 8 * 6u32] {
        v.push(Cfg18 { name: format!("sweep-hetero64-ch2-ms-t{}{}", code % 8, code / 8), stream_api: false, ch: 2, bps: 16, lpc: Some(2), mid_side: true, fast: false, signal: HETERO + code, frames: 128, block: 64, window: 0 });
    }
    // the same through the raw-frame writer (its own EncoderOptions / caches), and 8 channels with exactly one odd channel
    for code in [1u32, 8, 5 + 8 * 5, 6 + 8 * 6, 2 + 8 * 1, 7] {
        v.push(Cfg18 { name: format!("sweep-hetero-stream-ch2-ms-t{}{}", code % 8, code / 8), stream_api: true, ch: 2, bps: 16, lpc: Some(2), mid_side: true, fast: false, signal: HETERO + code, frames: 16, block: 16, window: 0 });
    }
    for odd in 0..8u32 {
        for t in 1..=3u32 {
            v.push(Cfg18 { name: format!("sweep-hetero-ch8-odd{}-t{}", odd, t), stream_api: false, ch: 8, bps: 16, lpc: Some(2), mid_side: true, fast: false, signal: HETERO + (t << (3 * odd)), frames: 16, block: 16, window: 0 });
        }
    }
    // "click tracks": one tonal channel (LPC analysis succeeds and LPC beats FIXED) next to channels that hold a single
    // odd-valued impulse per block (LPC analysis FAILS there); three 256-sample blocks, so that whatever the tasks remember
    // about earlier failures or successes is carried from frame to frame. Full budget (names without the sweep prefix).
    for (ch, tonal) in [(8u8, 0u8), (8, 7), (6, 0), (5, 0), (3, 1)] {
        v.push(Cfg18 { name: format!("clicks-ch{}-tonal{}-lpc8", ch, tonal), stream_api: false, ch, bps: 16, lpc: Some(8), mid_side: true, fast: false, signal: CLICKS + tonal as u32, frames: 768, block: 256, window: 0 });
    }
    // one tonal channel (LPC wins there) next to channels holding a non-zero constant (FIXED residuals all zero): the two kinds
    // of subframe whose by-products differ most — whatever a task leaves behind for "the next one" matters here
    for (ch, tonal, mid_side, fast) in [(2u8, 0u8, true, false), (2, 1, true, false), (2, 0, false, false), (2, 0, false, true), (3, 0, true, false), (6, 2, true, false), (8, 0, true, false)] {
        v.push(Cfg18 { name: format!("dcmix-ch{}-tonal{}-{}{}-lpc8", ch, tonal, if mid_side { "ms" } else { "noms" }, if fast { "-fast" } else { "" }), stream_api: false, ch, bps: 16, lpc: Some(8), mid_side, fast, signal: DCMIX + tonal as u32, frames: 512, block: 256, window: 0 });
    }
    v
}

pub const DCMIX: u32 = 3_000_000;
pub const CLICKS: u32 = 2_000_000;
pub const HETERO: u32 = 1_000_000;
pub const SWEEP_SIGNALS: usize = 120;

pub fn pcm18(c: &Cfg18) -> Vec<i32> {
    if c.signal >= DCMIX {
        let tonal = (c.signal - DCMIX) as usize;
        let mut lcg: u32 = 0x1234_5678;
        return (0..c.frames * c.ch as usize)
            .map(|k| {
                let (i, ch) = (k / c.ch as usize, k % c.ch as usize);
                if ch == tonal {
                    lcg = lcg.wrapping_mul(1_664_525).wrapping_add(1_013_904_223);
                    let t = i as f64;
                    (9000.0 * (t * 0.031).sin() + 5000.0 * (t * 0.0713).sin()) as i32 + ((lcg >> 24) as i32 - 128) / 16
                } else {
                    101 + 50 * ch as i32
                }
            })
            .collect();
    }
    if c.signal >= CLICKS {
        let tonal = (c.signal - CLICKS) as usize;
        let mut lcg: u32 = 0x1234_5678;
        return (0..c.frames * c.ch as usize)
            .map(|k| {
                let (i, ch) = (k / c.ch as usize, k % c.ch as usize);
                if ch == tonal {
                    lcg = lcg.wrapping_mul(1_664_525).wrapping_add(1_013_904_223);
                    let t = i as f64;
                    (9000.0 * (t * 0.031).sin() + 5000.0 * (t * 0.0713).sin()) as i32 + ((lcg >> 24) as i32 - 128) / 16
                } else if i % c.block as usize == 64 + ((i / c.block as usize) * 7 + ch * 13) % 128 {
                    1001 + 2 * ch as i32
                } else {
                    0
                }
            })
            .collect();
    }
    if c.signal >= HETERO {
        let code = c.signal - HETERO;
        let noise = |seed: u64, i: usize| -> i64 {
            let mut z = (seed.wrapping_add(i as u64)).wrapping_mul(0x9E3779B97F4A7C15);
            z ^= z >> 29;
            z = z.wrapping_mul(0xBF58476D1CE4E5B9);
            z ^= z >> 32;
            (z % 2001) as i64 - 1000
        };
        return (0..c.frames * c.ch as usize)
            .map(|k| {
                let (i, ch) = (k / c.ch as usize, k % c.ch as usize);
                let own = noise(0x1000 * (ch as u64 + 1), i);
                let shared = noise(0x77, i);
                (match (code >> (3 * ch)) & 7 {
                    0 => own,
                    1 => own << 4,
                    2 => 1000,
                    3 => 0,
                    4 => i as i64 * 7 - 50,
                    5 => shared + if ch == 0 { 4000 } else { -4000 },
                    6 => shared,
                    _ => own << 1,
                }) as i32
            })
            .collect();
    }
    if c.signal >= 2 {
        // deterministic family: ramp slope × triangle × bounded LCG walk at 4 amplitude classes
        let s = c.signal as u64;
        let amp: i64 = [1, 30, 1000, 12000][(s % 4) as usize];
        let slope: i64 = [0, 1, -3, 17, 250][((s / 4) % 5) as usize];
        let mut state = s.wrapping_mul(0x9E3779B97F4A7C15);
        let mut acc = vec![0i64; c.ch as usize];
        return (0..c.frames * c.ch as usize)
            .map(|k| {
                let (i, ch) = ((k / c.ch as usize) as i64, k % c.ch as usize);
                state = state.wrapping_mul(6364136223846793005).wrapping_add(1442695040888963407);
                let n = ((state >> 33) as i64 % (2 * amp + 1)) - amp;
                acc[ch] = (acc[ch] + n).clamp(-15000, 15000);
                let tri = if (i / 5) % 2 == 0 { i % 5 } else { 5 - i % 5 } * (s as i64 % 7);
                (slope * i + tri * 20 + acc[ch] + ch as i64 * (s as i64 % 3)).clamp(-32768, 32767) as i32
            })
            .collect();
    }
    (0..c.frames * c.ch as usize)
        .map(|k| {
            let (i, ch) = ((k / c.ch as usize) as i64, (k % c.ch as usize) as i64);
            match c.signal {
                0 => ((i * 37 + ch * 101 + 11) % 4001) as i32 - 2000,
                _ => (((i as f64) * 0.35 + ch as f64).sin() * 12000.0) as i32 + (ch as i32) * 3,
            }
        })
        .collect()
}

pub fn encode18(c: &Cfg18) -> Result<Vec<u8>, String> {
    use flac_codec::encode::{FlacSampleWriter, FlacStreamWriter, Options};
    let pcm = pcm18(c);
    let o = Options::default()
        .block_size(c.block)
        .map_err(|e| format!("{e:?}"))?
        .max_lpc_order(c.lpc)
        .map_err(|e| format!("{e:?}"))?
        .mid_side(c.mid_side)
        .fast_channel_correlation(c.fast)
        .seektable_frames(1)
        .window(match c.window {
            1 => flac_codec::encode::Window::Hann,
            2 => flac_codec::encode::Window::Rectangle,
            _ => flac_codec::encode::Window::default(),
        });
    if c.stream_api {
        let mut out = Vec::new();
        let mut w = FlacStreamWriter::new(&mut out, o);
        w.write(44100, c.ch, c.bps, &pcm).map_err(|e| format!("{e:?}"))?;
        // a second frame re-uses the encoder's caches
        w.write(44100, c.ch, c.bps, &pcm[..(8 * c.ch as usize)]).map_err(|e| format!("{e:?}"))?;
        Ok(out)
    } else {
        let mut out = std::io::Cursor::new(Vec::new());
        let mut w = FlacSampleWriter::new(&mut out, o, 44100, c.bps, c.ch, Some(pcm.len() as u64)).map_err(|e| format!("{e:?}"))?;
        w.write(&pcm).map_err(|e| format!("{e:?}"))?;
        w.finalize().map_err(|e| format!("{e:?}"))?;
        Ok(out.into_inner())
    }
}
