// Shared between the serial reference generator (vpx c18ref, feature-less build) and the schedule explorer
// (vp18, rayon feature on the model runtime). Plain code, `include!`d by both.

#[derive(Clone, Debug)]
pub struct Cfg18 {
    pub name: String,
    pub stream_api: bool, // FlacStreamWriter instead of FlacSampleWriter
    pub ch: u8,
    pub bps: u32,
    pub lpc: Option<u8>,
    pub mid_side: bool,
    pub fast: bool,
    pub signal: u8,
    pub frames: usize, // PCM frames (block size 16)
}

pub fn configs18() -> Vec<Cfg18> {
    let mut v = Vec::new();
    for stream_api in [false, true] {
        for (ch, variants) in [(1u8, vec![(true, false)]), (2, vec![(true, false), (false, false), (true, true), (false, true)]), (3, vec![(true, false)]), (8, vec![(true, false)])] {
            for (mid_side, fast) in variants {
                for lpc in [None, Some(2u8)] {
                    for signal in 0..2u8 {
                        for frames in [16usize, 37] {
                            if stream_api && frames != 16 {
                                continue;
                            }
                            v.push(Cfg18 { name: format!("{}-ch{}-{}{}-lpc{}-sig{}-{}f", if stream_api { "stream" } else { "file" }, ch, if mid_side { "ms" } else { "noms" }, if fast { "-fast" } else { "" }, lpc.unwrap_or(0), signal, frames), stream_api, ch, bps: 16, lpc, mid_side, fast, signal, frames });
                        }
                    }
                }
            }
        }
    }
    v
}

pub fn pcm18(c: &Cfg18) -> Vec<i32> {
    (0..c.frames * c.ch as usize)
        .map(|k| {
            let (i, ch) = ((k / c.ch as usize) as i64, (k % c.ch as usize) as i64);
            match c.signal {
                0 => ((i * 37 + ch * 101 + 11) % 4001) as i32 - 2000,
                _ => (((i as f64) * 0.35 + ch as f64).sin() * 12000.0) as i32 + (ch as i32) * 3,
            }
        })
        .collect()
}

pub fn encode18(c: &Cfg18) -> Result<Vec<u8>, String> {
    use flac_codec::encode::{FlacSampleWriter, FlacStreamWriter, Options};
    let pcm = pcm18(c);
    let o = Options::default()
        .block_size(16)
        .map_err(|e| format!("{e:?}"))?
        .max_lpc_order(c.lpc)
        .map_err(|e| format!("{e:?}"))?
        .mid_side(c.mid_side)
        .fast_channel_correlation(c.fast)
        .seektable_frames(1);
    if c.stream_api {
        let mut out = Vec::new();
        let mut w = FlacStreamWriter::new(&mut out, o);
        w.write(44100, c.ch, c.bps, &pcm).map_err(|e| format!("{e:?}"))?;
        // a second frame re-uses the encoder's caches
        w.write(44100, c.ch, c.bps, &pcm[..(8 * c.ch as usize)]).map_err(|e| format!("{e:?}"))?;
        Ok(out)
    } else {
        let mut out = std::io::Cursor::new(Vec::new());
        let mut w = FlacSampleWriter::new(&mut out, o, 44100, c.bps, c.ch, Some(pcm.len() as u64)).map_err(|e| format!("{e:?}"))?;
        w.write(&pcm).map_err(|e| format!("{e:?}"))?;
        w.finalize().map_err(|e| format!("{e:?}"))?;
        Ok(out.into_inner())
    }
}
