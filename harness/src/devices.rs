//! In-memory environment models: a logging device, a fault-injecting device.
use std::io::{Read, Seek, SeekFrom, Write};

#[derive(Clone, Debug, PartialEq)]
pub enum Call {
    Write { off: u64, len: usize },
    Flush,
    Seek { to: u64 },
    Read { off: u64, len: usize },
}

/// `Read + Write + Seek` over a `Vec<u8>` with an append-only call log (the boring reference device).
#[derive(Clone, Debug, Default)]
pub struct MemDevice {
    pub data: Vec<u8>,
    pub pos: u64,
    pub log: Vec<Call>,
    /// 0 = accept whole buffers; k > 0 = every write call accepts at most k bytes (a legal short-writing sink)
    pub max_write: usize,
    /// keep the call log (on by default; the bulk encode wrappers switch it off)
    pub quiet: bool,
}
impl MemDevice {
    pub fn new(initial: Vec<u8>, pos: u64) -> Self {
        MemDevice { data: initial, pos, log: Vec::new(), max_write: 0, quiet: false }
    }
}
impl Write for MemDevice {
    fn write(&mut self, buf: &[u8]) -> std::io::Result<usize> {
        let buf = if self.max_write > 0 { &buf[..buf.len().min(self.max_write)] } else { buf };
        let off = self.pos as usize;
        if self.data.len() < off + buf.len() {
            self.data.resize(off + buf.len(), 0);
        }
        self.data[off..off + buf.len()].copy_from_slice(buf);
        if !self.quiet {
            self.log.push(Call::Write { off: self.pos, len: buf.len() });
        }
        self.pos += buf.len() as u64;
        Ok(buf.len())
    }
    fn flush(&mut self) -> std::io::Result<()> {
        if !self.quiet {
            self.log.push(Call::Flush);
        }
        Ok(())
    }
}
impl Read for MemDevice {
    fn read(&mut self, buf: &mut [u8]) -> std::io::Result<usize> {
        let off = (self.pos as usize).min(self.data.len());
        let n = buf.len().min(self.data.len() - off);
        buf[..n].copy_from_slice(&self.data[off..off + n]);
        if !self.quiet {
            self.log.push(Call::Read { off: self.pos, len: n });
        }
        self.pos += n as u64;
        Ok(n)
    }
}
impl Seek for MemDevice {
    fn seek(&mut self, p: SeekFrom) -> std::io::Result<u64> {
        let np: i128 = match p {
            SeekFrom::Start(x) => x as i128,
            SeekFrom::Current(d) => self.pos as i128 + d as i128,
            SeekFrom::End(d) => self.data.len() as i128 + d as i128,
        };
        if np < 0 {
            return Err(std::io::Error::new(std::io::ErrorKind::InvalidInput, "negative seek"));
        }
        self.pos = np as u64;
        if !self.quiet {
            self.log.push(Call::Seek { to: self.pos });
        }
        Ok(self.pos)
    }
}

#[derive(Clone, Copy, Debug, PartialEq, Eq)]
pub enum FaultKind {
    /// every call from index n on fails
    Permanent,
    /// call n fails once (ErrorKind::Other)
    Once,
    /// call n returns ErrorKind::Interrupted once
    Interrupted,
    /// call n transfers a single byte (writes/reads only; for flush/seek behaves like Once)
    Short,
}
pub const FAULT_KINDS: [FaultKind; 4] = [FaultKind::Permanent, FaultKind::Once, FaultKind::Interrupted, FaultKind::Short];

#[derive(Clone, Copy, Debug, PartialEq, Eq)]
pub enum Target {
    Writes, // write / flush / seek calls (the output side)
    Reads,  // read calls
}

/// Wraps a MemDevice; the answer schedule is a list of (call index among targeted calls, kind).
#[derive(Clone, Debug)]
pub struct FaultDevice {
    pub inner: MemDevice,
    pub target: Target,
    pub faults: Vec<(usize, FaultKind)>,
    pub count: usize, // targeted calls seen so far
    pub injected: usize,
}
impl FaultDevice {
    pub fn new(inner: MemDevice, target: Target, faults: Vec<(usize, FaultKind)>) -> Self {
        FaultDevice { inner, target, faults, count: 0, injected: 0 }
    }
    /// decide the fate of the next targeted call
    fn fate(&mut self) -> Option<FaultKind> {
        let i = self.count;
        self.count += 1;
        for &(n, k) in &self.faults {
            let hit = match k {
                FaultKind::Permanent => i >= n,
                _ => i == n,
            };
            if hit {
                self.injected += 1;
                return Some(k);
            }
        }
        None
    }
}
fn err(k: FaultKind) -> std::io::Error {
    match k {
        FaultKind::Interrupted => std::io::Error::new(std::io::ErrorKind::Interrupted, "injected EINTR"),
        _ => std::io::Error::other("injected fault"),
    }
}
impl Write for FaultDevice {
    fn write(&mut self, buf: &[u8]) -> std::io::Result<usize> {
        if self.target == Target::Writes {
            match self.fate() {
                Some(FaultKind::Short) if buf.len() > 1 => return self.inner.write(&buf[..1]),
                Some(FaultKind::Short) | None => {}
                Some(k) => return Err(err(k)),
            }
        }
        self.inner.write(buf)
    }
    fn flush(&mut self) -> std::io::Result<()> {
        if self.target == Target::Writes {
            match self.fate() {
                None => {}
                Some(FaultKind::Short) => {}
                Some(k) => return Err(err(k)),
            }
        }
        self.inner.flush()
    }
}
impl Seek for FaultDevice {
    fn seek(&mut self, p: SeekFrom) -> std::io::Result<u64> {
        if self.target == Target::Writes {
            match self.fate() {
                None => {}
                Some(FaultKind::Short) => {}
                Some(k) => return Err(err(k)),
            }
        }
        self.inner.seek(p)
    }
}
impl Read for FaultDevice {
    fn read(&mut self, buf: &mut [u8]) -> std::io::Result<usize> {
        if self.target == Target::Reads {
            match self.fate() {
                Some(FaultKind::Short) if buf.len() > 1 => return self.inner.read(&mut buf[..1]),
                Some(FaultKind::Short) | None => {}
                Some(k) => return Err(err(k)),
            }
        }
        self.inner.read(buf)
    }
}
