pub mod refdec;
