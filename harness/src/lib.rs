pub mod refdec;
pub mod fgen;
