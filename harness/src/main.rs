//! vpx — the check binary.  See core.rs for the process model.
//!   vpx run <ID> <quick|thorough>          parent: spawn shards for every profile, merge, verdict, evidence
//!   vpx shard <ID> <tier> <i> <n> <profile> <out.json>
//!   vpx replay <file>                      re-execute one recorded case without any explorer
//!   vpx selftest                           reference-model self-binding

mod codec;
mod core;
mod props;
mod encspace;
mod bfs;
mod corpus;
mod readers;
mod devices;
mod gspace;

use crate::core::{Acc, Ctx};
use serde_json::{json, Value};
use std::path::{Path, PathBuf};
use std::process::Command;
use std::time::Instant;

#[global_allocator]
static ALLOC: core::CountingAlloc = core::CountingAlloc;

const VERIF: &str = "/verif";

fn main() {
    let args: Vec<String> = std::env::args().collect();
    core::install_panic_hook();
    let code = match args.get(1).map(|s| s.as_str()) {
        Some("run") => run_parent(&args[2], &args[3]),
        Some("shard") => run_shard(&args),
        Some("replay") => run_replay(&args[2]),
        Some("selftest") => props::selftest(),
        Some("c18ref") => c18ref(),
        Some("lpcprobe") => lpcprobe(),
        Some("lpcprobe2") => lpcprobe2(),
        _ => {
            eprintln!("usage: vpx run <ID> <quick|thorough> | replay <file> | selftest");
            2
        }
    };
    std::process::exit(code);
}

mod c18 {
    include!("c18cfg.rs");
}

/// serial (feature-less build) reference files for every C18 configuration
fn c18ref() -> i32 {
    let mut m = serde_json::Map::new();
    for c in c18::configs18() {
        match c18::encode18(&c) {
            Ok(b) => {
                m.insert(c.name.clone(), json!([b.len(), format!("{:016x}", core::fnv64(&b))]));
            }
            Err(e) => {
                eprintln!("MACHINERY: serial reference for {} fails: {e}", c.name);
                return 2;
            }
        }
    }
    std::fs::write(Path::new(VERIF).join("target").join("c18ref.json"), serde_json::to_vec(&Value::Object(m)).unwrap()).unwrap();
    0
}

/// diagnostic: which LPC orders does the encoder actually pick on the signal families?
fn lpcprobe() -> i32 {
    use crate::codec::{encode, Opt, Sig, WriterKind};
    use crate::encspace::{family, KINDS};
    for bs in [192u16, 576, 1152, 4096] {
        for bps in [8u32, 16, 24] {
            for &kind in KINDS {
                for amp in 0..3 {
                    let pcm = family(kind, amp, bps, bs as usize * 2 + 1);
                    let opt = Opt { block: bs, lpc: Some(32), part: 15, ..Opt::base16() };
                    if let Ok(b) = encode(WriterKind::Sample, &opt, &Sig { rate: 44100, bps, ch: 1 }, &pcm) {
                        if let Ok(st) = vph::refdec::decode(&b) {
                            let mx = st.frames.iter().flat_map(|f| f.subframes.iter()).filter_map(|s| if let vph::refdec::SubKind::Lpc(o) = s.kind { Some(o) } else { None }).max();
                            if mx.unwrap_or(0) >= 20 {
                                println!("bs {bs} bps {bps} {kind:?} amp {amp}: max LPC order {mx:?}");
                            }
                        }
                    }
                }
            }
        }
    }
    0
}

/// diagnostic: look for inputs that drive the LPC quantiser to a shift of 0 / the negative-shift branch
fn lpcprobe2() -> i32 {
    use crate::codec::{encode, Opt, Sig, WriterKind, Win};
    let mut best: Vec<(i8, i32, String)> = Vec::new();
    for bps in [16u32, 24, 32] {
        let amp = ((1i64 << (bps - 1)) - 1) as f64;
        for bs in [128u16, 192, 384] {
            for k in 6..=12usize {
                for f0 in [0.004f64, 0.006, 0.008, 0.01, 0.012, 0.015, 0.02, 0.025, 0.03] {
                    for spread in [1.6f64, 1.8, 2.0, 2.2, 2.5] {
                        let n = bs as usize + 1;
                        let pcm: Vec<i32> = (0..n).map(|i| { let mut v = 0.0; for j in 0..k { v += ((i as f64) * f0 * spread.powi(j as i32) + j as f64).sin(); } (v / k as f64 * amp * 0.95) as i32 }).collect();
                        for lpc in [12u8, 32] {
                            for win in [Win::Hann, Win::Tukey(1.0), Win::Tukey(0.5)] {
                                let opt = Opt { block: bs, lpc: Some(lpc), win, part: 0, ..Opt::base16() };
                                if let Ok(b) = encode(WriterKind::Sample, &opt, &Sig { rate: 44100, bps, ch: 1 }, &pcm) {
                                    if let Ok(st) = vph::refdec::decode(&b) {
                                        for s in st.frames.iter().flat_map(|f| f.subframes.iter()) {
                                            if let vph::refdec::SubKind::Lpc(o) = s.kind {
                                                let mx = s.coefs.iter().map(|c| c.abs()).max().unwrap_or(0);
                                                if s.shift <= 1 {
                                                    best.push((s.shift, mx, format!("bps {bps} bs {bs} k {k} f0 {f0} spread {spread} lpc {lpc} win {win:?}: order {o} precision {} shift {} max|c| {mx}", s.precision, s.shift)));
                                                }
                                            }
                                        }
                                    }
                                }
                            }
                        }
                    }
                }
            }
        }
    }
    // m-fold integrated noise: spectrum ~ 1/f^(2m), the optimal predictor approaches (1 - z^-1)^m (binomial coefficients)
    for bps in [24u32, 32] {
        let amp = ((1i64 << (bps - 1)) - 1) as f64;
        for bs in [64u16, 96, 128, 192] {
            for m in 4..=14usize {
                for seed in 0..6u64 {
                    let n = bs as usize + 1;
                    let mut g = crate::core::Lcg(seed * 977 + m as u64);
                    let mut v: Vec<f64> = (0..n).map(|_| (g.next() % 2001) as f64 - 1000.0).collect();
                    for _ in 0..m {
                        let mut acc = 0.0;
                        for x in v.iter_mut() {
                            acc += *x;
                            *x = acc;
                        }
                        let mean = v.iter().sum::<f64>() / n as f64;
                        for x in v.iter_mut() {
                            *x -= mean;
                        }
                    }
                    let mx = v.iter().fold(0.0f64, |a, b| a.max(b.abs())).max(1.0);
                    let pcm: Vec<i32> = v.iter().map(|x| (x / mx * amp * 0.9) as i32).collect();
                    for lpc in [8u8, 12, 32] {
                        for win in [Win::Rect, Win::Hann, Win::Tukey(0.5)] {
                            let opt = Opt { block: bs, lpc: Some(lpc), win, part: 0, ..Opt::base16() };
                            if let Ok(b) = encode(WriterKind::Sample, &opt, &Sig { rate: 44100, bps, ch: 1 }, &pcm) {
                                if let Ok(st) = vph::refdec::decode(&b) {
                                    for s in st.frames.iter().flat_map(|f| f.subframes.iter()) {
                                        if let vph::refdec::SubKind::Lpc(o) = s.kind {
                                            let mxc = s.coefs.iter().map(|c| c.abs()).max().unwrap_or(0);
                                            if s.shift <= 2 {
                                                best.push((s.shift, mxc, format!("INTEG bps {bps} bs {bs} m {m} seed {seed} lpc {lpc} win {win:?}: order {o} precision {} shift {} max|c| {mxc} coefs {:?}", s.precision, s.shift, s.coefs)));
                                            }
                                        }
                                    }
                                }
                            }
                        }
                    }
                }
            }
        }
    }
    best.sort_by_key(|b| (b.0, -b.1));
    for b in best.iter().take(12) {
        println!("{}", b.2);
    }
    for b in best.iter().filter(|b| b.2.starts_with("INTEG")).take(12) {
        println!("{}", b.2);
    }
    println!("{} candidates with shift <= 1", best.len());
    0
}

fn seed() -> u64 {
    std::env::var("VERIF_SEED").ok().and_then(|s| s.parse().ok()).unwrap_or(0)
}

fn run_shard(a: &[String]) -> i32 {
    let (id, tier, i, n, profile, out) = (&a[2], &a[3], a[4].parse().unwrap(), a[5].parse().unwrap(), &a[6], &a[7]);
    // address-space cap: an over-allocating case aborts this worker only
    unsafe {
        let lim = libc::rlimit { rlim_cur: 6 << 30, rlim_max: 6 << 30 };
        libc::setrlimit(libc::RLIMIT_AS, &lim);
    }
    // watchdog: a single case may not take longer than CASE_TIMEOUT seconds
    let timeout: u64 = std::env::var("VPX_CASE_TIMEOUT").ok().and_then(|s| s.parse().ok()).unwrap_or(120);
    let out2 = out.clone();
    std::thread::spawn(move || {
        use std::sync::atomic::Ordering;
        let mut last = u64::MAX;
        let mut since = Instant::now();
        loop {
            std::thread::sleep(std::time::Duration::from_millis(500));
            let hb = core::HEARTBEAT.load(Ordering::Relaxed) ^ (core::CASE_CLOCK.load(Ordering::Relaxed) << 40);
            if hb != last {
                last = hb;
                since = Instant::now();
            } else if since.elapsed().as_secs() >= timeout {
                let _ = std::fs::write(format!("{out2}.hang"), format!("{}", core::HEARTBEAT.load(Ordering::Relaxed)));
                std::process::exit(3);
            }
        }
    });
    let ctx = Ctx::new(id, tier == "quick", i, n, profile, seed());
    let mut acc = Acc::default();
    let t0 = Instant::now();
    let ok = props::run(&ctx, &mut acc);
    if !ok {
        eprintln!("unknown property {id}");
        return 2;
    }
    for (_, (_, viol)) in acc.viol.iter_mut() {
        viol.case["profile"] = json!(profile);
    }
    let mut v = acc.to_json();
    v["wall_s"] = json!(t0.elapsed().as_secs_f64());
    std::fs::write(out, serde_json::to_vec(&v).unwrap()).unwrap();
    0
}

fn exe_for(profile: &str) -> PathBuf {
    let dir = if profile == "opt" { "release" } else { "chk" };
    Path::new(VERIF).join("target").join(dir).join("vpx")
}

fn run_parent(id: &str, tier: &str) -> i32 {
    let t0 = Instant::now();
    let profiles = props::profiles(id);
    if profiles.is_empty() {
        eprintln!("unknown property {id}");
        return 2;
    }
    let nshards: u64 = std::env::var("VPX_SHARDS").ok().and_then(|s| s.parse().ok()).unwrap_or(16);
    let tmp = Path::new(VERIF).join("target").join("tmp").join(format!("{id}-{tier}-{}", std::process::id()));
    let _ = std::fs::remove_dir_all(&tmp);
    std::fs::create_dir_all(&tmp).unwrap();
    let mut merged = Acc::default();
    let mut machinery_errors: Vec<String> = Vec::new();
    let mut per_profile = serde_json::Map::new();
    for profile in &profiles {
        let exe = exe_for(profile);
        if !exe.exists() {
            eprintln!("MACHINERY: missing binary {}", exe.display());
            return 2;
        }
        let mut kids = Vec::new();
        for i in 0..nshards {
            let out = tmp.join(format!("{profile}-{i}.json"));
            let child = Command::new(&exe)
                .args(["shard", id, tier, &i.to_string(), &nshards.to_string(), profile, out.to_str().unwrap()])
                .stdout(std::process::Stdio::null())
                .spawn()
                .expect("spawn shard");
            kids.push((i, out, child));
        }
        let mut pacc = Acc::default();
        for (i, out, mut child) in kids {
            let st = child.wait().expect("wait");
            if st.success() {
                match std::fs::read(&out).ok().and_then(|b| serde_json::from_slice::<Value>(&b).ok()) {
                    Some(v) => pacc.merge_json(&v),
                    None => machinery_errors.push(format!("{profile} shard {i}: unreadable result")),
                }
            } else {
                let hang = std::fs::read_to_string(format!("{}.hang", out.display())).ok();
                // a dead worker is attributed to the case it was running by re-running the shard in trace mode
                let detail = match hang {
                    Some(h) => format!("watchdog: case index {h} exceeded the per-case time limit"),
                    None => format!("worker died: {st}"),
                };
                let sigs = props::worker_death_is_violation(id);
                if sigs {
                    pacc.violation(
                        format!("{id}|worker-death|{profile}"),
                        format!("{detail} (profile {profile}, shard {i}/{nshards}); abort/hang while decoding"),
                        json!({"kind":"worker-death","property":id,"profile":profile,"shard":i,"nshards":nshards,"tier":tier}),
                    );
                } else {
                    machinery_errors.push(format!("{profile} shard {i}: {detail}"));
                }
            }
        }
        per_profile.insert(
            profile.clone(),
            json!({"states": pacc.states, "transitions": pacc.transitions, "executions": pacc.executions, "distinct_outcomes": pacc.outcomes.len()}),
        );
        // violations found only under one profile are tagged with it by the property itself
        merged.merge_json(&pacc.to_json());
    }
    let _ = std::fs::remove_dir_all(&tmp);
    if !machinery_errors.is_empty() {
        for e in &machinery_errors {
            eprintln!("MACHINERY: {e}");
        }
        return 2;
    }

    props::post_merge(id, &mut merged);

    // ---- known findings
    let kf: Value = std::fs::read(Path::new(VERIF).join("known_findings.json"))
        .ok()
        .and_then(|b| serde_json::from_slice(&b).ok())
        .unwrap_or(json!({"known": []}));
    let known: Vec<(String, String)> = kf["known"]
        .as_array()
        .into_iter()
        .flatten()
        .filter(|k| k["property"].as_str() == Some(id))
        .map(|k| (k["signature"].as_str().unwrap_or("").to_string(), k["what"].as_str().unwrap_or("").to_string()))
        .collect();

    std::fs::create_dir_all(Path::new(VERIF).join("replays")).ok();
    let mut n_viol = 0u64;
    let mut n_known = 0u64;
    let mut lines = Vec::new();
    for (sig, (count, v)) in &merged.viol {
        if let Some((_, what)) = known.iter().find(|(s, _)| s == sig) {
            n_known += 1;
            lines.push(format!("KNOWN-FINDING: property={id} {what} [{count} witnesses; signature {sig}]"));
            continue;
        }
        // replay twice before reporting: identical observations or it is a machinery problem
        let mut case = v.case.clone();
        case["property"] = json!(id);
        case["signature"] = json!(sig);
        case["what"] = json!(v.what);
        let path = Path::new(VERIF).join("replays").join(format!("{id}-{:016x}.json", core::fnv64(sig.as_bytes())));
        std::fs::write(&path, serde_json::to_vec_pretty(&case).unwrap()).unwrap();
        if case["kind"] != "worker-death" {
            let profile = case["profile"].as_str().unwrap_or("opt").to_string();
            let r1 = replay_output(&profile, &path);
            let r2 = replay_output(&profile, &path);
            if r1 != r2 {
                eprintln!("MACHINERY: replay of {} is not deterministic:\n{:?}\n{:?}", path.display(), r1, r2);
                return 2;
            }
            if r1.0 != 1 {
                eprintln!("MACHINERY: replay of {} does not reproduce the violation (exit {}):\n{}", path.display(), r1.0, r1.1);
                return 2;
            }
        }
        n_viol += 1;
        lines.push(format!("VIOLATION property={id} replay={} ({count} witnesses) {}", path.display(), v.what));
    }

    // ---- evidence
    let wall = t0.elapsed().as_secs_f64();
    let exhaustive = merged.caps.is_empty();
    let mut samples = merged.samples.clone();
    if samples.is_empty() {
        samples.push(json!("no sample recorded"));
    }
    let top_outcomes: Vec<Value> = merged.outcomes.iter().take(400).map(|(k, n)| json!({"outcome":k,"count":n})).collect();
    let ev = json!({
        "property_id": id, "tier": tier, "seed": seed(), "level": "model_checking",
        "coverage": {
            "states": merged.states.max(1), "transitions": merged.transitions.max(1),
            "traces_validated_against_impl": merged.executions,
            "samples": samples,
            "evaluations": merged.executions.max(1),
            "distinct_nontrivial": merged.outcomes.len().max(0),
            "rule": props::rule(id),
            "exhaustive": exhaustive,
            "bounds_completed": props::bounds(id, tier == "quick"),
            "caps_hit": merged.caps,
            "distinct_outcomes": merged.outcomes.len(),
            "outcomes": top_outcomes,
            "dimensions": merged.dims,
            "profiles": per_profile,
            "known_findings": n_known,
            "notes": merged.notes,
        },
        "assumptions": props::assumptions(id),
        "wall_s": wall,
        "violations": n_viol,
    });
    std::fs::create_dir_all(Path::new(VERIF).join("evidence")).ok();
    std::fs::write(Path::new(VERIF).join("evidence").join(format!("{id}.json")), serde_json::to_vec_pretty(&ev).unwrap()).unwrap();

    for l in &lines {
        println!("{l}");
    }
    println!(
        "{id} {tier}: states={} transitions={} executions={} distinct_outcomes={} violations={} known={} wall={:.1}s exhaustive={}",
        merged.states,
        merged.transitions,
        merged.executions,
        merged.outcomes.len(),
        n_viol,
        n_known,
        wall,
        exhaustive
    );
    if n_viol > 0 { 1 } else { 0 }
}

fn replay_output(profile: &str, path: &Path) -> (i32, String) {
    let out = Command::new(exe_for(profile)).args(["replay", path.to_str().unwrap()]).output().expect("replay");
    (out.status.code().unwrap_or(-1), String::from_utf8_lossy(&out.stdout).to_string())
}

fn run_replay(path: &str) -> i32 {
    let v: Value = match std::fs::read(path).ok().and_then(|b| serde_json::from_slice(&b).ok()) {
        Some(v) => v,
        None => {
            eprintln!("cannot read {path}");
            return 2;
        }
    };
    let id = v["property"].as_str().unwrap_or("").to_string();
    match props::replay(&id, &v) {
        Some((violates, obs)) => {
            println!("{obs}");
            if violates {
                println!("REPLAY: property={id} still violated");
                1
            } else {
                println!("REPLAY: property={id} holds on this case");
                0
            }
        }
        None => {
            eprintln!("no replay handler for {id} / kind {}", v["kind"]);
            2
        }
    }
}
