#!/bin/bash
# tools/confirm_seed.sh <ID>  — independently confirm a sub-agent's seeded change in its scratch worktree /tmp/mut/<ID>:
#  (1) patch applies to a clean checkout, (2) full existing suite passes with it, (3) demo fails with it, (4) demo passes without it.
set -u
id="$1"; r="${2:-}"; wt=/tmp/mut$r/$id; out=/tmp/mutout$r/$id
cd "$wt" || exit 2
log=$out/confirm.log; : > $log
git checkout -q -- . ; rm -f tests/demo_$id.rs
git apply --check $out/patch.diff >>$log 2>&1 || { echo "$id: patch does not apply to clean checkout"; exit 1; }
git apply $out/patch.diff
echo "== suite with patch" >>$log
cargo test --offline >>$log 2>&1; s=$?
cp $out/demo.rs tests/demo_$id.rs
echo "== demo with patch" >>$log
cargo test --offline --test demo_$id >>$log 2>&1; d1=$?
git checkout -q -- src Cargo.toml 2>/dev/null
echo "== demo without patch" >>$log
cargo test --offline --test demo_$id >>$log 2>&1; d0=$?
rm -f tests/demo_$id.rs
git apply $out/patch.diff
echo "$id: suite_with_patch_rc=$s demo_with_patch_rc=$d1 demo_without_patch_rc=$d0  => $([ $s = 0 ] && [ $d1 != 0 ] && [ $d0 = 0 ] && echo CONFIRMED || echo REJECTED)"
