#!/usr/bin/env python3
"""print a markdown table of /verif/seeded/*/meta.json (used for DESIGN.md §11.5)"""
import json, glob, os, re
rows = []
for d in sorted(glob.glob('/verif/seeded/C*/')):
    m = json.load(open(d + 'meta.json'))
    notes = open(d + 'notes.md').read()
    patch = open(d + 'patch.diff').read()
    files = sorted(set(re.findall(r'^\+\+\+ b/(\S+)', patch, re.M)))
    first = next((l.strip('*# ').strip() for l in notes.splitlines() if len(l.strip()) > 30), '')
    first = re.sub(r'\s+', ' ', first)[:170]
    det = ', '.join(sorted(m['detected_by'])) or '—'
    hist = ' (after strengthening, see meta.json)' if m.get('history') else ''
    rows.append(f"| {os.path.basename(d[:-1])} | {m['breaks_property']} | {', '.join(files)} | {first} | {det}{hist} |")
print("| seeded change | breaks | file | what (first line of the author's notes) | quick checks that report it |")
print("|---|---|---|---|---|")
print('\n'.join(rows))
