#!/usr/bin/env python3
"""tools/mkseeded3.py — round 7 (fourth held-out round): collect confirmed seeded changes from
/tmp/mutout8/<ID>/ into /verif/seeded/<ID>-r7/ with meta.json.
Inputs: /tmp/confirm7.log (lines '<ID>-<X>: ... => CONFIRMED|REJECTED' from tools/confirm_seed6.sh) and
/tmp/seed7/<ID>.log (output of tools/seedtest.sh for that patch). Optional /tmp/seed7/<ID>.history
(free text: what had to be strengthened) is copied into meta.json."""
import json, os, re, shutil, glob
confirm = {}
for line in open('/tmp/confirm7.log'):
    m = re.match(r'(C\d\d): (.*)', line)
    if m: confirm[m.group(1)] = m.group(2).strip()
props = {json.loads(l)['id']: json.loads(l) for l in open('/verif/properties.jsonl')}
for lg in sorted(glob.glob('/tmp/seed7/C??.log')):
    key = os.path.basename(lg)[:-4]; pid = key
    if 'CONFIRMED' not in confirm.get(key, ''):
        print(key, 'not confirmed:', confirm.get(key)); continue
    detect = {}
    for line in open(lg, errors='replace'):
        m = re.match(r'(C\d\d) rc=(\d+) ?(.*)', line)
        if m: detect[m.group(1)] = (int(m.group(2)), m.group(3).strip()[:300])
    src = f'/tmp/mutout8/{pid}'
    dst = f'/verif/seeded/{pid}-r7'; os.makedirs(dst, exist_ok=True)
    for fn in ['patch.diff', 'demo.rs', 'notes.md']:
        shutil.copy(f'{src}/{fn}', f'{dst}/{fn}')
    hits = {c: v[1] for c, v in detect.items() if v[0] == 1}
    broken = {c: v for c, v in detect.items() if v[0] not in (0, 1)}
    notes = open(f'{src}/notes.md').read()
    meta = {
        "id": f"seed-{pid}-r7",
        "breaks_property": pid,
        "property_title": props[pid]['title'],
        "origin": "HELD-OUT round: independent sub-agent given only the property text, and a scratch worktree of tuffy/flac-codec (nothing from /verif)",
        "needs_to_manifest": next((l.strip() for l in notes.splitlines() if re.search(r'manifest|trigger|needs', l, re.I) and len(l) > 40), notes[:300]),
        "confirmed_by_me": {"how": "tools/confirm_seed6.sh in the scratch worktree: patch applies to a clean checkout; full existing suite passes with it; demo fails with it; demo passes without it", "result": confirm[key]},
        "checks_run": "tools/seedtest.sh <patch> quick <own property>  (git -C /repo apply; the quick check of the property the change breaks; git -C /repo checkout -- .) - no cross run against the other 19 checks in this round (time)",
        "detected_by": hits,
        "not_detected_by_quick": [c for c, v in detect.items() if v[0] == 0],
        "machinery_errors": broken,
        "demo_run_cmd": f"cp demo.rs <checkout>/tests/demo_{pid}.rs && cargo test --offline --test demo_{pid}" + (" --features rayon" if pid == 'C18' else ""),
    }
    h = f'/tmp/seed7/{key}.history'
    if os.path.exists(h): meta["history"] = open(h).read().strip()
    f1 = f'/tmp/seed7/{key}.firstpass'
    if os.path.exists(f1): meta["first_pass_before_any_change_to_the_checks"] = open(f1).read().strip()
    json.dump(meta, open(f'{dst}/meta.json', 'w'), indent=1)
    print(key, 'detected by', sorted(hits) or 'NOTHING', '| own property:', 'YES' if pid in hits else 'no')
