#!/bin/bash
# tools/confirm_seed3.sh <ID> <A|B>  — round 3 (two mutants per property): confirm in scratch worktree /tmp/mut4/<ID>
set -u
id="$1"; x="$2"; lx=$(echo "$x" | tr 'AB' 'ab'); wt=/tmp/mut4/$id; out=/tmp/mutout4/$id/$x
feat=""; [ "$id" = C18 ] && feat="--features rayon"
cd "$wt" || exit 2
log=$out/confirm.log; : > $log
git checkout -q -- . ; rm -f tests/demo_*.rs
git apply --check $out/patch.diff >>$log 2>&1 || { echo "$id-$x: patch does not apply to clean checkout => REJECTED"; exit 1; }
git apply $out/patch.diff
echo "== suite with patch" >>$log
cargo test --offline >>$log 2>&1; s=$?
if [ -n "$feat" ]; then cargo test --offline $feat >>$log 2>&1; s2=$?; [ $s2 != 0 ] && s=$s2; fi
cp $out/demo.rs tests/demo_${id}${lx}.rs
echo "== demo with patch" >>$log
cargo test --offline $feat --test demo_${id}${lx} >>$log 2>&1; d1=$?
git checkout -q -- src Cargo.toml 2>/dev/null
echo "== demo without patch" >>$log
cargo test --offline $feat --test demo_${id}${lx} >>$log 2>&1; d0=$?
rm -f tests/demo_${id}${lx}.rs
echo "$id-$x: suite_with_patch_rc=$s demo_with_patch_rc=$d1 demo_without_patch_rc=$d0  => $([ $s = 0 ] && [ $d1 != 0 ] && [ $d0 = 0 ] && echo CONFIRMED || echo REJECTED)"
