#!/bin/bash
# tools/seedtest.sh <patch.diff> [tier] [checks...]   apply a seeded change to /repo, run checks, ALWAYS undo it.
# prints one line per check: <ID> <exit code> <first VIOLATION line>
set -u
patch="$1"; tier="${2:-quick}"; shift; shift || true
checks=("$@")
[ ${#checks[@]} -eq 0 ] && checks=(C01 C02 C03 C04 C05 C06 C07 C08 C09 C10 C11 C12 C13 C14 C15 C16 C17 C18 C19 C20)
cd /repo || exit 2
if [ -n "$(git status --porcelain --untracked-files=no)" ]; then echo "refusing: /repo has local modifications" >&2; exit 2; fi
git apply --check "$patch" || { echo "patch does not apply" >&2; exit 2; }
git apply "$patch"
trap 'git -C /repo checkout -- . ' EXIT
for c in "${checks[@]}"; do
  out=$(cd /verif && timeout 1800 ./check "$c" "$tier" 2>&1); rc=$?
  echo "$c rc=$rc $(echo "$out" | grep -m1 '^VIOLATION' | cut -c1-260)$(echo "$out" | grep -m1 'MACHINERY' | cut -c1-200)"
done
