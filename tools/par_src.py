#!/usr/bin/env python3
"""tools/par_src.py — (re)create /verif/target/par-src/repo, the copy of /repo's CURRENT working tree that the C18
schedule explorer compiles: identical sources, except that every path into std::sync / core::sync::atomic and
every thread_local! is redirected to the scheduler-visible model in harness-par/vsync. Files are only rewritten
when their content changes, so cargo's fingerprints stay valid."""
import os, re, sys, shutil
SRC, DST = '/repo', '/verif/target/par-src/repo'
def put(path, data):
    os.makedirs(os.path.dirname(path), exist_ok=True)
    if os.path.exists(path) and open(path, 'rb').read() == data:
        return
    open(path, 'wb').write(data)
want = set()
n_rewritten = 0
for root, _, files in os.walk(os.path.join(SRC, 'src')):
    for f in files:
        p = os.path.join(root, f); rel = os.path.relpath(p, SRC)
        data = open(p, 'rb').read()
        if f.endswith('.rs'):
            t = data.decode('utf-8')
            t2 = re.sub(r'(?<![\w:])(?:::)?std::sync::', '::vsync::sync::', t)
            t2 = re.sub(r'(?<![\w:])(?:::)?core::sync::atomic', '::vsync::sync::atomic', t2)
            t2 = re.sub(r'(?<![\w:])(?:(?:::)?std::)?thread_local!', '::vsync::thread_local!', t2)
            if t2 != t:
                n_rewritten += 1
            data = t2.encode('utf-8')
        put(os.path.join(DST, rel), data); want.add(rel)
toml = open(os.path.join(SRC, 'Cargo.toml')).read()
toml = re.sub(r'(?m)^\[dependencies\]\n', '[dependencies]\nvsync = { path = "/verif/harness-par/vsync" }\n', toml, count=1)
put(os.path.join(DST, 'Cargo.toml'), toml.encode()); want.add('Cargo.toml')
# remove files that disappeared from /repo
for root, _, files in os.walk(DST):
    for f in files:
        rel = os.path.relpath(os.path.join(root, f), DST)
        if rel not in want and not rel.startswith('target'):
            os.remove(os.path.join(root, f))
print(f"par-src: {len(want)} files, {n_rewritten} source file(s) use synchronisation primitives (redirected to the model)")
