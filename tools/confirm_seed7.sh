#!/bin/bash
# tools/confirm_seed6.sh <ID>  — round 7 (fourth held-out round): confirm in scratch worktree /tmp/mut8/<ID>
#  (1) patch applies to a clean checkout, (2) full existing suite passes with it (C18: also with --features rayon),
#  (3) demo fails with it, (4) demo passes without it.
set -u
id="$1"; wt=/tmp/mut8/$id; out=/tmp/mutout8/$id
feat=""; [ "$id" = C18 ] && feat="--features rayon"
cd "$wt" || exit 2
log=$out/confirm.log; : > $log
git checkout -q -- . ; rm -f tests/demo_*.rs
git apply --check $out/patch.diff >>$log 2>&1 || { echo "$id: patch does not apply to clean checkout => REJECTED"; exit 1; }
git apply $out/patch.diff
echo "== suite with patch" >>$log
cargo test --offline >>$log 2>&1; s=$?
if [ -n "$feat" ]; then cargo test --offline $feat >>$log 2>&1; s2=$?; [ $s2 != 0 ] && s=$s2; fi
cp $out/demo.rs tests/demo_$id.rs
echo "== demo with patch" >>$log
cargo test --offline $feat --test demo_$id >>$log 2>&1; d1=$?
git checkout -q -- src Cargo.toml 2>/dev/null
echo "== demo without patch" >>$log
cargo test --offline $feat --test demo_$id >>$log 2>&1; d0=$?
rm -f tests/demo_$id.rs
echo "$id: suite_with_patch_rc=$s demo_with_patch_rc=$d1 demo_without_patch_rc=$d0  => $([ $s = 0 ] && [ $d1 != 0 ] && [ $d0 = 0 ] && echo CONFIRMED || echo REJECTED)"
