#!/usr/bin/env python3
"""tools/mkseeded.py — collect confirmed seeded changes from /tmp/mutout/<ID>/ into /verif/seeded/<ID>/ with meta.json.
Detection results are parsed from the seedtest logs given on the command line."""
import json, os, re, shutil, sys, glob
ROUND = os.environ.get('ROUND', '')   # '' = first round, '2' = second round (/tmp/mutout2, seeded/<ID>-r2)
logs = sys.argv[1:]
detect = {}   # id -> {check: line}
cur = None
for lg in logs:
    for line in open(lg, errors='replace'):
        m = re.match(r'=== seed (C\d\d)', line)
        if m: cur = m.group(1); detect.setdefault(cur, {}); continue
        m = re.match(r'(C\d\d) rc=(\d+) ?(.*)', line)
        if m and cur:
            detect[cur][m.group(1)] = (int(m.group(2)), m.group(3).strip()[:300])
confirm = {}
for f in glob.glob(f'/tmp/confirm{ROUND}_*.log' if ROUND else '/tmp/confirm[0-9].log'):
    for line in open(f):
        m = re.match(r'(C\d\d): (.*)', line)
        if m: confirm[m.group(1)] = m.group(2).strip()
props = {json.loads(l)['id']: json.loads(l) for l in open('/verif/properties.jsonl')}
for pid in sorted(detect):
    src = f'/tmp/mutout{ROUND}/{pid}'
    if 'CONFIRMED' not in confirm.get(pid, ''):
        print(pid, 'not confirmed:', confirm.get(pid)); continue
    dst = f'/verif/seeded/{pid}' + (f'-r{ROUND}' if ROUND else ''); os.makedirs(dst, exist_ok=True)
    for fn in ['patch.diff', 'demo.rs', 'notes.md']:
        shutil.copy(f'{src}/{fn}', f'{dst}/{fn}')
    hits = {c: v[1] for c, v in detect[pid].items() if v[0] == 1}
    broken = {c: v for c, v in detect[pid].items() if v[0] not in (0, 1)}
    notes = open(f'{src}/notes.md').read()
    meta = {
        "id": f"seed-{pid}" + (f"-r{ROUND}" if ROUND else ""),
        "breaks_property": pid,
        "property_title": props[pid]['title'],
        "origin": "independent sub-agent given only the property text and a scratch worktree of tuffy/flac-codec (nothing from /verif)",
        "needs_to_manifest": next((l.strip() for l in notes.splitlines() if re.search(r'manifest|trigger|needs', l, re.I) and len(l) > 40), notes[:300]),
        "confirmed_by_me": {"how": "tools/confirm_seed.sh in the scratch worktree: patch applies to a clean checkout; full existing suite passes with it; demo fails with it; demo passes without it", "result": confirm[pid]},
        "checks_run": "tools/seedtest.sh <patch> quick  (git -C /repo apply; every registered quick check; git -C /repo checkout -- .)",
        "detected_by": hits,
        "not_detected_by_quick": [c for c, v in detect[pid].items() if v[0] == 0],
        "machinery_errors": broken,
        "demo_run_cmd": f"cp demo.rs <checkout>/tests/demo_{pid}.rs && cargo test --offline --test demo_{pid}" + (" --features rayon" if pid == 'C18' else ""),
    }
    json.dump(meta, open(f'{dst}/meta.json', 'w'), indent=1)
    print(pid, 'detected by', sorted(hits) or 'NOTHING')
