#!/usr/bin/env python3
"""Regenerate /verif/MANIFEST.json from the table below (one row per claimed property)."""
import json, subprocess
ALL = ["C%02d" % i for i in range(1, 21)]
# id -> (technique, level text, level note, design ref)
CLAIMED = {
 "C01": ("bounded-exhaustive input/option enumeration of the real encoder+decoders (small-scope model checking of the implementation), sharded over 16 workers",
         "Every (writer, option vector, stream parameters, PCM) case of a finite, explicitly listed space is executed on the real crate and compared with the identity oracle; the space is enumerated completely (all sequences over a 6-value alphabet per bit depth up to length L, all option vectors within d deviations, all front-end pairs, a fixed signal-family grid), so within those bounds the claim is a coverage statement, not a sample.",
         "Trusts: rustc, the harness encode/decode wrappers, determinism of the crate (violations replayed twice). Not covered: sample values outside the alphabets/grid, block sizes other than those listed for sample-exhaustive sets.",
         "§4 C01"),
 "C02": ("bounded-exhaustive enumeration of the C01 input/option space through the real encoder; every finished file judged frame by frame by an independently written strict RFC 9639 validator/decoder (refdec)",
         "Same finite space as C01 plus FlacStreamWriter frame sequences; the oracle shares no code with the crate (own bit reader, CRCs, MD5, exact untruncated prediction), so self-consistent but non-conforming output is visible.",
         "Trusts refdec, which is bound to reality by the libFLAC-made fixtures (MD5 match) and by inverting the independently written builder fgen. The RFC's 'depth >= 4' recommendation is not enforced (the crate documents 1..32).",
         "§4 C02"),
 "C03": ("bounded-exhaustive enumeration of a 23-axis frame-grammar choice space (all vectors within d deviations + full single-axis sweeps) through an independently written stream builder; every built stream decoded by 7 real reader front-ends + verify_reader in both build profiles",
         "Streams are valid by construction and their expected decode is the target PCM; generator and independent decoder must invert each other on every stream (else machinery error). Covers constructs the crate's encoder never emits (variable blocking, STREAMINFO-referenced depths, escapes, 5-bit Rice at any depth, LPC order 32 / 15-bit coefficients, 33-bit side, wasted bits on side channels).",
         "Trusts fgen+refdec only jointly (two independent halves that must agree). Targets limited to 5 signal kinds.",
         "§4 C03"),
 "C04": ("bounded-exhaustive input enumeration (grammar-generated malformed frames with valid checksums; every single-byte substitution with and without checksum repair and every truncation of a corpus; every short byte string after fixed prefixes) pushed through every decoding entry point in both build profiles under a counting allocator and watchdog",
         "≈1.5M inputs × 13 entry points per profile in the quick tier; a panic, allocation above 48 MiB + 16×len, >10^6 reads past end of data, a worker abort or a watchdog hit is a violation.",
         "'All byte strings' is reduced to three enumerated spaces; no coverage-guided fuzzing (sampling) is used.",
         "§4 C04"),
 "C05": ("exhaustive damage enumeration per corpus file (every single-bit flip in the audio frames, every truncation, every stored-MD5 bit) and every must-reject class generated with valid checksums, on 4 real readers + verify_reader; oracle tied to the independent decoder",
         "Ok ⇒ the independent decoder accepts the same bytes with the same PCM; Err ⇒ what was delivered is a whole-frame prefix of the original and nothing of a must-reject frame; MD5Match only for PCM that hashes to the stored digest.",
         "One damage per file; codes a decoder may accept (non-zero padding, residual -2^31, out-of-range samples, 15-sample non-final block) give no verdict.",
         "§4 C05"),
 "C06": ("explicit-state BFS to a fixpoint over read/fill/consume/seek histories on clones of the real seekable readers, exact-state de-duplication through the verif-hooks accessor, reference = cursor over the PCM",
         "All reachable states of each seekable reader under a fixed op alphabet are visited for every file of a seek corpus (channels × depth × seek-table shape × declared/unknown length); every transition is compared with a reference cursor. Fixpoint reached ⇒ every history over the alphabet is covered, of any length.",
         "Trusts the hook to expose all mutable reader state (source position, current sample, decoded frame, buffered remainder, consumed count). Arguments outside the alphabet are not explored.",
         "§4 C06"),
 "C07": ("explicit-state BFS over consumption histories on the real non-seekable readers × exhaustive enumeration of source segmentations (every cut point, pairs in thorough) with drain scripts; reference = PCM cursor",
         "Every consumption history over the alphabet (to a fixpoint, incl. unlimited repeated calls after end-of-stream) and every single split point of the underlying byte source are executed on the real readers and compared with the reference PCM in each front-end's representation.",
         "Segmentations with >2 cut points only via 1-byte and 7-byte sources; read sizes limited to the alphabet.",
         "§4 C07"),
 "C08": ("exhaustive enumeration of write-call histories (all compositions of a small input; all ≤2/3-cut histories incl. zero-length calls and mid-sample cuts; all trailing partial-frame lengths) on the four real writer front-ends; oracle = byte identity with the single-call file",
         "All 2^17 (thorough 2^20) ways of splitting a small input into write calls and all ≤2(3)-cut histories of multi-block inputs are executed for every writer front-end and compared byte-for-byte with the one-call reference; reference hashes are compared across 16 worker processes.",
         "PCM content is fixed (position-identifying); values are C01's dimension.",
         "§4 C08"),
 "C09": ("exhaustive grid over (input length 1..49 × signal × channels × depth × seek policy × declared/undeclared × padding swept across the exact-fit boundary −8..+8 × start offset × extra blocks) on the real writer over a logging in-memory device; oracles: independent validator, device call log, generate_seektable",
         "≈690k complete encode+finalize runs; every finished image is validated independently (counts, extrema, MD5, every seek point names a real frame, ordering) and the device log proves the audio region is append-only and the header rewrite stays inside [start, first frame).",
         "PCM from 3 fixed signals; >932067-frame streams only in the thorough tier.",
         "§4 C09"),
 "C10": ("explicit-state BFS over metadata edit histories applied through the real update_file on in-memory devices, state = file bytes (content de-duplicated), edits parameterised by the current padding so size deltas sweep −8..+8 around an exact fit",
         "From 48 initial files every edit sequence to depth 2 (thorough 3) over a 41-edit alphabet is executed; per transition the audio region, PCM (independent decoder), in-place/rebuilt contracts and failure atomicity are checked.",
         "Edited lists are installed wholesale inside the callback; write_blocks/BlockList::read themselves are judged by C11.",
         "§4 C10"),
 "C13": ("fault enumeration with deviation bound 1 (every call index × 4 fault kinds) and 2 (pairs) over an in-memory fault device, executed on the real encode/finalize/write_blocks/update_file/decode paths",
         "For each scenario the fault-free run fixes N targeted calls; every n<N × {permanent, once, Interrupted, short} is executed (pairs in thorough / on update_file in quick). Oracle: no panic and API Ok ⇒ device contents and results byte-identical to the fault-free run.",
         "At most 2 faults per run. File-backed wrappers are represented by BufWriter<device> passed by value.",
         "§4 C13"),
 "C14": ("crash-point enumeration: every byte prefix of the pre-finalize output of the real writers (append-only log verified) decoded by three real readers against frame extents from the independent decoder",
         "All ≈245k (configuration, prefix) crash images × 3 readers are executed; the delivered samples must be exactly the PCM of the completely written frames.",
         "Write reordering by an OS is out of scope (the code issues no syncs); torn writes are covered by byte granularity.",
         "§4 C14"),
 "C15": ("full-product parameter grids and exhaustive ≤2-cut under/exact/over-fill write histories executed on the real constructors/writers in both build profiles; 'works' judged by the independent decoder",
         "The complete boundary grid of constructor arguments (≈80k calls per writer), every Options setter boundary value, every documented value alone and every cross-axis pair, and every ≤2-cut history that under-, exactly- or over-fills a declared length are executed; nothing is sampled.",
         "Trusts refdec (self-bound to libFLAC fixtures). Triples of documented values only via C01's lattice. Huge declared totals use no_seektable() outside a representative sub-grid (cost).",
         "§4 C15"),
 "C17": ("bounded-exhaustive enumeration of frames (crate output over the C01 space, valid and malformed grammar-built streams), each isolated into a one-frame stream; structural parser vs streaming decoder vs independent decoder",
         "≈1.3M frames in the quick tier: accept/reject agreement, exact expansion length, sample agreement after inverse decorrelation, byte-identical re-serialisation when the independent decoder reports minimal coded number and zero padding.",
         "Frames judged under the original STREAMINFO with total/MD5 cleared.",
         "§4 C17"),
 "C16": ("exhaustive enumeration of frame sequences × garbage placements × source segmentations on the real FlacStreamWriter/FlacStreamReader; oracle: independent subset decode per frame, subsequence/no-loss rules",
         "All 1..3-frame sequences over a 12-entry parameter menu (parameters change between frames), all placements of ≤2 (thorough ≤3) garbage strings from a 9-string alphabet in the 4 gaps, every single cut point of the buffered source (pairs in thorough) and 1-byte buffers, incl. cuts inside the 2-byte sync code.",
         "Garbage and frame parameters come from fixed menus.",
         "§4 C16"),
 "C18": ("schedule exploration: the real encoder built with the rayon feature against a model of rayon on the shuttle runtime; custom deviation-bounded depth-first scheduler enumerating every task schedule with ≤ b deviations, b raised until nothing is pruned (= all schedules) or the budget is hit; oracle: bytes identical to the feature-less build",
         "84 configurations (file writer and stream writer × 1/2/3/8 channels × correlation modes × LPC none/2 × 2 signals × 1 or 3 frames); for the smaller ones ALL schedules are covered, for the larger ones every schedule within the reported deviation bound; every execution runs the real crate code.",
         "The model implements rayon's contract (each closure once, any time between call and return, indexed collect order), not its implementation; tasks are coroutines on one OS thread (no memory-model effects; crate has no unsafe/atomics); code between scheduling points (task start, yield, join, exit) is atomic.",
         "§4 C18"),
 "C19": ("bounded-exhaustive enumeration of the C01 space plus adversarial signals × the option lattice through the real encoder; per-frame arithmetic bound evaluated on sizes measured by the independent decoder",
         "≈1.9M encodes, every frame measured; bound = verbatim bits (+1 bit/sample for one channel under stereo decorrelation) + 32 + 6·channels bytes; constant blocks ≤ 32 + 12·channels bytes.",
         "Same input bounds as C01; the allowance constants are derived from the format's maximum header/footer sizes.",
         "§4 C19"),
}
NOT_YET = "check not built yet in this revision of /verif (planned in DESIGN.md §4); not claimed until it runs green on the unchanged tree"
def main():
    checks = []
    for pid, (tech, text, note, ref) in sorted(CLAIMED.items()):
        checks.append({
            "property_id": pid,
            "quick_cmd": f"./check {pid} quick",
            "thorough_cmd": f"./check {pid} thorough",
            "evidence_file": f"/verif/evidence/{pid}.json",
            "replay_cmd_template": "./check replay {path}",
            "engine": "vpx" if pid != "C18" else "vp18",
            "level_claimed": {"category": "model_checking", "text": text, "design_ref": ref},
            "level_note": note,
            "technique": tech,
        })
    commits = subprocess.run(["git", "-C", "/repo", "log", "--format=%h %s"], capture_output=True, text=True).stdout.splitlines()
    hook_commits = [c.split()[0] for c in commits if c.split(" ", 1)[1].startswith("verif-hooks")]
    m = {
        "version": 1,
        "setup_cmd": "./check setup",
        "hooks": {
            "guard": "cargo feature `verif-hooks` of flac-codec (off by default)",
            "enable": "the harness depends on flac-codec = { path = \"/repo\", features = [\"verif-hooks\"] }; nothing else enables it",
            "baseline_off_cmd": "cd /repo && (cargo nextest run --workspace --no-fail-fast --tool-config-file pb:/w/lib/nextest.toml --profile pb --test-threads 8 --offline || cargo test --workspace --no-fail-fast --offline)",
            "source_commits": hook_commits,
            "add_only": True,
        },
        "engines": [
            {"name": "vpx", "path": "/verif/harness", "serves_properties": [p for p in sorted(CLAIMED) if p != "C18"],
             "kind_free_text": "Rust explorer linked against the real crate: sharded bounded-exhaustive enumeration (inputs, option lattices, operation histories with exact-state BFS, fault/crash/segmentation schedules) with reference models (independent RFC 9639 decoder, PCM cursor, in-memory devices)"},
        ],
        "checks": checks,
        "notes": "All checks: exit 0 = held on everything explored, 1 = VIOLATION line, 2 = machinery failure (never a verdict). known_findings.json lists recorded defects; evidence/<id>.json is rewritten by every run.",
        "not_applicable": [{"property_id": p, "reason": NOT_YET} for p in ALL if p not in CLAIMED],
    }
    if "C18" in CLAIMED:
        m["engines"].append({"name": "vp18", "path": "/verif/harness-par", "serves_properties": ["C18"], "kind_free_text": "real crate built with the rayon feature against a model of rayon on the shuttle runtime; DFS over task schedules"})
    json.dump(m, open("/verif/MANIFEST.json", "w"), indent=1)
    print("claimed:", sorted(CLAIMED))
main()
