//! vp18 — C18: multithreaded encoding produces the same bytes as single-threaded encoding.
//! The real crate (feature "rayon") runs against a model of rayon on the shuttle runtime; a deviation-bounded
//! depth-first scheduler enumerates every task schedule with ≤ b deviations from the default schedule
//! ("keep running the current task; otherwise the lowest id"), b = 0, 1, 2, … until the space is exhausted
//! (no alternative was pruned ⇒ ALL schedules explored) or the execution budget is reached.
include!("../../harness/src/c18cfg.rs");

use serde_json::{json, Value};
use shuttle::scheduler::{Schedule, Scheduler, Task, TaskId};
use shuttle::{Config, Runner};
use std::collections::BTreeSet;
use std::sync::{Arc, Mutex};

#[derive(Default)]
struct Shared {
    executions: u64,
    pruned: bool,            // some alternative was skipped because of the deviation bound
    max_steps: usize,        // scheduling points in the longest execution
    max_options: usize,
    current: Vec<usize>,     // choices of the running execution
    stopped: bool,           // budget reached
}

struct DevDfs {
    bound: usize,
    budget: u64,
    shared: Arc<Mutex<Shared>>,
    stack: Vec<Vec<usize>>,      // pending prefixes (LIFO ⇒ depth first)
    prefix: Vec<usize>,
    trace: Vec<(usize, usize)>,  // (choice, number of options) of the running execution
    started: bool,
    fixed: Option<Vec<usize>>,   // replay mode: exactly this schedule once
}

impl DevDfs {
    fn new(bound: usize, budget: u64, shared: Arc<Mutex<Shared>>) -> Self {
        DevDfs { bound, budget, shared, stack: vec![], prefix: vec![], trace: vec![], started: false, fixed: None }
    }
}

impl Scheduler for DevDfs {
    fn new_execution(&mut self) -> Option<Schedule> {
        let mut sh = self.shared.lock().unwrap();
        if let Some(f) = &self.fixed {
            if self.started {
                return None;
            }
            self.started = true;
            self.prefix = f.clone();
            self.trace.clear();
            sh.current.clear();
            sh.executions += 1;
            return Some(Schedule::new(0));
        }
        if self.started {
            // successors of the execution that just finished: deviate at every step after the prefix
            let mut dev = self.trace.iter().take(self.prefix.len()).filter(|(c, _)| *c != 0).count();
            for i in self.prefix.len()..self.trace.len() {
                let (c, n) = self.trace[i];
                debug_assert_eq!(c, 0);
                if n > 1 {
                    if dev + 1 <= self.bound {
                        for alt in (1..n).rev() {
                            let mut p: Vec<usize> = self.trace[..i].iter().map(|x| x.0).collect();
                            p.push(alt);
                            self.stack.push(p);
                        }
                    } else {
                        sh.pruned = true;
                    }
                }
                dev += (c != 0) as usize;
            }
            sh.max_steps = sh.max_steps.max(self.trace.len());
            match self.stack.pop() {
                Some(p) => self.prefix = p,
                None => return None,
            }
        } else {
            self.started = true;
            self.prefix = vec![];
        }
        if sh.executions >= self.budget {
            sh.stopped = true;
            return None;
        }
        sh.executions += 1;
        sh.current.clear();
        self.trace.clear();
        Some(Schedule::new(0))
    }

    fn next_task(&mut self, runnable: &[&Task], current: Option<TaskId>, _is_yielding: bool) -> Option<TaskId> {
        // canonical order: the running task first (if still runnable), then ascending ids
        let mut ids: Vec<TaskId> = runnable.iter().map(|t| t.id()).collect();
        ids.sort_by_key(|t| usize::from(*t));
        if let Some(c) = current {
            if let Some(p) = ids.iter().position(|t| *t == c) {
                let t = ids.remove(p);
                ids.insert(0, t);
            }
        }
        let s = self.trace.len();
        let choice = if s < self.prefix.len() { self.prefix[s] } else { 0 };
        assert!(choice < ids.len(), "schedule replay diverged at step {s}: choice {choice} of {} options", ids.len());
        self.trace.push((choice, ids.len()));
        let mut sh = self.shared.lock().unwrap();
        sh.current.push(choice);
        sh.max_options = sh.max_options.max(ids.len());
        Some(ids[choice])
    }

    fn next_u64(&mut self) -> u64 {
        panic!("the system under test asked the scheduler for random data")
    }
}

fn fnv64(b: &[u8]) -> u64 {
    let mut h: u64 = 0xcbf29ce484222325;
    for x in b {
        h ^= *x as u64;
        h = h.wrapping_mul(0x100000001b3);
    }
    h
}

#[derive(Default)]
struct Findings {
    outputs: BTreeSet<u64>,
    mismatch: Option<(Vec<usize>, String)>, // first schedule whose output differs + description
}

/// explore one configuration with the given bound; returns (executions, pruned, stopped, max_steps, max_options)
fn explore(cfg: &Cfg18, reference: Arc<(usize, u64)>, bound: usize, budget: u64, fixed: Option<Vec<usize>>, findings: Arc<Mutex<Findings>>) -> Result<(u64, bool, bool, usize, usize), String> {
    let shared = Arc::new(Mutex::new(Shared::default()));
    let mut sched = DevDfs::new(bound, budget, shared.clone());
    sched.fixed = fixed;
    let cfg = cfg.clone();
    let sh2 = shared.clone();
    let f2 = findings.clone();
    let mut config = Config::default();
    config.max_steps = shuttle::MaxSteps::FailAfter(1_000_000);
    // model threads get real-thread-sized stacks (the default 60 KiB overflows as soon as the code under test keeps a 64 KiB
    // buffer on its stack; a crash of the explorer would be a machinery exit, not a verdict)
    config.stack_size = 1 << 20;
    let runner = Runner::new(sched, config);
    let res = std::panic::catch_unwind(std::panic::AssertUnwindSafe(|| {
        runner.run(move || {
            vsync::reset_worker_locals();
            let out = encode18(&cfg);
            let mut f = f2.lock().unwrap();
            match out {
                Ok(bytes) => {
                    f.outputs.insert(fnv64(&bytes));
                    if (bytes.len(), fnv64(&bytes)) != *reference && f.mismatch.is_none() {
                        f.mismatch = Some((sh2.lock().unwrap().current.clone(), format!("output differs from the single-threaded file ({} bytes, fnv {:016x}; serial build: {} bytes, fnv {:016x})", bytes.len(), fnv64(&bytes), reference.0, reference.1)));
                    }
                }
                Err(e) => {
                    f.outputs.insert(fnv64(e.as_bytes()));
                    if f.mismatch.is_none() {
                        f.mismatch = Some((sh2.lock().unwrap().current.clone(), format!("parallel encode fails: {e}")));
                    }
                }
            }
        })
    }));
    let sh = shared.lock().unwrap();
    match res {
        Ok(_) => Ok((sh.executions, sh.pruned, sh.stopped, sh.max_steps, sh.max_options)),
        Err(p) => {
            let msg = p.downcast_ref::<String>().cloned().or_else(|| p.downcast_ref::<&str>().map(|s| s.to_string())).unwrap_or_else(|| "panic".into());
            let mut f = findings.lock().unwrap();
            if f.mismatch.is_none() {
                f.mismatch = Some((sh.current.clone(), format!("execution aborted (deadlock or panic): {}", msg.lines().next().unwrap_or(""))));
            }
            Ok((sh.executions, sh.pruned, true, sh.max_steps, sh.max_options))
        }
    }
}

fn main() {
    let args: Vec<String> = std::env::args().collect();
    std::panic::set_hook(Box::new(|_| {})); // shuttle prints failing schedules itself; keep output clean
    let refs: Value = serde_json::from_slice(&std::fs::read("/verif/target/c18ref.json").expect("c18ref.json (run ./check C18)")).unwrap();
    if args.get(1).map(|s| s.as_str()) == Some("replay") {
        let v: Value = serde_json::from_slice(&std::fs::read(&args[2]).unwrap()).unwrap();
        let name = v["config"].as_str().unwrap();
        let cfg = configs18().into_iter().find(|c| c.name == name).expect("config");
        let sched: Vec<usize> = v["schedule"].as_array().unwrap().iter().map(|x| x.as_u64().unwrap() as usize).collect();
        let reference = Arc::new((refs[name][0].as_u64().unwrap() as usize, u64::from_str_radix(refs[name][1].as_str().unwrap(), 16).unwrap()));
        let findings = Arc::new(Mutex::new(Findings::default()));
        let _ = explore(&cfg, reference, usize::MAX, 1, Some(sched), findings.clone());
        let f = findings.lock().unwrap();
        match &f.mismatch {
            Some((_, what)) => {
                println!("{what}\nREPLAY: property=C18 still violated");
                std::process::exit(1);
            }
            None => {
                println!("output identical to the single-threaded file\nREPLAY: property=C18 holds on this schedule");
                std::process::exit(0);
            }
        }
    }
    let tier = args.get(1).cloned().unwrap_or_else(|| "quick".into());
    let quick = tier == "quick";
    let t0 = std::time::Instant::now();
    let budget: u64 = if quick { 12_000 } else { 600_000 };
    let sweep_budget: u64 = if quick { 1_500 } else { 20_000 };
    let known: Vec<String> = std::fs::read("/verif/known_findings.json").ok().and_then(|b| serde_json::from_slice::<Value>(&b).ok()).map(|k| k["known"].as_array().into_iter().flatten().filter(|x| x["property"] == "C18").map(|x| x["signature"].as_str().unwrap_or("").to_string()).collect()).unwrap_or_default();
    let cfgs = configs18();
    // configurations are independent: explore them on a pool of OS threads (each exploration itself is single-threaded)
    let results: Arc<Mutex<Vec<Value>>> = Arc::new(Mutex::new(Vec::new()));
    let next = Arc::new(Mutex::new(0usize));
    let mut workers = Vec::new();
    for _ in 0..16 {
        let (cfgs, refs, results, next) = (cfgs.clone(), refs.clone(), results.clone(), next.clone());
        workers.push(std::thread::spawn(move || loop {
            let i = {
                let mut n = next.lock().unwrap();
                let i = *n;
                *n += 1;
                i
            };
            if i >= cfgs.len() {
                break;
            }
            let cfg = &cfgs[i];
            let reference = match refs[&cfg.name].as_array() {
                Some(a) => Arc::new((a[0].as_u64().unwrap_or(0) as usize, u64::from_str_radix(a[1].as_str().unwrap_or("0"), 16).unwrap_or(0))),
                None => {
                    results.lock().unwrap().push(json!({"config": cfg.name, "machinery": "no reference"}));
                    continue;
                }
            };
            let findings = Arc::new(Mutex::new(Findings::default()));
            let budget = if cfg.name.starts_with("sweep") { sweep_budget } else { budget };
            let mut bound = 0usize;
            let (mut total, mut completed_bound, mut exhaustive, mut steps, mut options, mut last_n) = (0u64, None, false, 0usize, 0usize, 0u64);
            loop {
                let (n, pruned, stopped, ms, mo) = explore(cfg, reference.clone(), bound, budget, None, findings.clone()).unwrap();
                total += n;
                steps = steps.max(ms);
                options = options.max(mo);
                if stopped {
                    break;
                }
                completed_bound = Some(bound);
                last_n = n;
                if !pruned {
                    exhaustive = true;
                    break;
                }
                if findings.lock().unwrap().mismatch.is_some() {
                    break;
                }
                bound += 1;
            }
            let f = findings.lock().unwrap();
            results.lock().unwrap().push(json!({"config": cfg.name, "executions_total": total, "schedules_at_completed_bound": last_n, "completed_bound": completed_bound, "all_schedules": exhaustive,
                "scheduling_points": steps, "max_runnable": options, "distinct_outputs": f.outputs.len(),
                "mismatch": f.mismatch.as_ref().map(|(s, w)| json!({"schedule": s, "what": w}))}));
        }));
    }
    for w in workers {
        w.join().unwrap();
    }
    let results = results.lock().unwrap().clone();
    let mut viol = 0;
    let mut knownn = 0;
    std::fs::create_dir_all("/verif/replays").ok();
    let (mut states, mut transitions, mut execs) = (0u64, 0u64, 0u64);
    let mut caps = Vec::new();
    for r in &results {
        if r.get("machinery").is_some() {
            eprintln!("MACHINERY: {r}");
            std::process::exit(2);
        }
        execs += r["executions_total"].as_u64().unwrap_or(0);
        states += r["schedules_at_completed_bound"].as_u64().unwrap_or(0);
        transitions += r["executions_total"].as_u64().unwrap_or(0) * r["scheduling_points"].as_u64().unwrap_or(1);
        if !r["all_schedules"].as_bool().unwrap_or(false) {
            caps.push(format!("{}: complete up to deviation bound {} only", r["config"].as_str().unwrap(), r["completed_bound"]));
        }
        if !r["mismatch"].is_null() {
            let cfgname = r["config"].as_str().unwrap();
            let sig = format!("C18|{}|{}", cfgname.split('-').take(2).collect::<Vec<_>>().join("-"), if r["mismatch"]["what"].as_str().unwrap().starts_with("output differs") { "output-differs" } else { "fails" });
            if known.contains(&sig) {
                knownn += 1;
                println!("KNOWN-FINDING: property=C18 {sig}");
                continue;
            }
            let path = format!("/verif/replays/C18-{:016x}.json", fnv64(cfgname.as_bytes()));
            std::fs::write(&path, serde_json::to_vec_pretty(&json!({"property":"C18","kind":"schedule","config":cfgname,"schedule":r["mismatch"]["schedule"],"what":r["mismatch"]["what"],"signature":sig})).unwrap()).unwrap();
            println!("VIOLATION property=C18 replay={path} {}: {} under schedule {}", cfgname, r["mismatch"]["what"].as_str().unwrap(), r["mismatch"]["schedule"]);
            viol += 1;
        }
    }
    let distinct: u64 = results.iter().map(|r| r["distinct_outputs"].as_u64().unwrap_or(0)).max().unwrap_or(0);
    let ev = json!({
        "property_id": "C18", "tier": tier, "seed": std::env::var("VERIF_SEED").ok().and_then(|s| s.parse::<u64>().ok()).unwrap_or(0), "level": "model_checking",
        "coverage": {
            "states": states.max(1), "transitions": transitions.max(1), "traces_validated_against_impl": execs,
            "samples": results.iter().filter(|r| !r["config"].as_str().unwrap_or("").starts_with("sweep")).take(4).cloned().collect::<Vec<_>>(),
            "evaluations": execs.max(1), "distinct_nontrivial": results.len(),
            "rule": "one exploration per configuration (84 base configurations: file writer / stream writer × channels 1,2,3,8 × mid-side/fast correlation variants × LPC none/2 × 2 signals × 1 or 3 frames; plus an input sweep of 120 signals × {mono, stereo exhaustive, stereo fast ± mid-side} × LPC 2/8 on one 16-sample block, 1440 signals × LPC 2/8 mono + 120 stereo on one 576-sample block, and channel-heterogeneous inputs (every assignment of 8 per-channel traits — noise, 4 / 1 wasted bits, constant, silence, ramp, shared noise ± 4000, shared noise — to 2 channels × 4 correlation modes, of 4 traits to 3 channels, plus 6 pairs on two 64-sample blocks), with a smaller budget): every schedule of the rayon tasks with ≤ b deviations from the default schedule, b increased until no alternative is pruned (= all schedules) or the execution budget is reached; each execution is the REAL encoder built with the rayon feature over a model of rayon on the shuttle runtime; oracle: bytes identical to the feature-less build's file; states = schedules at the completed bound, transitions = executions × scheduling points",
            "exhaustive": caps.is_empty(),
            "caps_hit": caps,
            "max_distinct_outputs_per_configuration": distinct,
            "per_configuration": results.iter().filter(|r| !r["config"].as_str().unwrap_or("").starts_with("sweep") || !r["mismatch"].is_null()).cloned().collect::<Vec<_>>(),
            "sweep_configurations": results.iter().filter(|r| r["config"].as_str().unwrap_or("").starts_with("sweep")).count(),
            "sweep_all_schedules": results.iter().filter(|r| r["config"].as_str().unwrap_or("").starts_with("sweep") && r["all_schedules"] == true).count(),
            "budget_executions_per_bound": budget, "sweep_budget_executions_per_bound": sweep_budget,
            "known_findings": knownn,
        },
        "assumptions": [
            "the model implements rayon's documented contract for join and indexed map/collect (each closure exactly once, any time between call and return, results in index order), not rayon's implementation; all tasks are coroutines on one OS thread, so memory-model effects are invisible (the crate has no unsafe code, atomics or locks)",
            "scheduling points exist at task start, yield, join and exit; code between them runs atomically",
            "inputs: two fixed signals at 16 bit"
        ],
        "wall_s": t0.elapsed().as_secs_f64(),
        "violations": viol,
    });
    std::fs::create_dir_all("/verif/evidence").ok();
    std::fs::write("/verif/evidence/C18.json", serde_json::to_vec_pretty(&ev).unwrap()).unwrap();
    println!("C18 {tier}: configurations={} executions={} all_schedules_for={} bounded_only_for={} max_distinct_outputs={} violations={viol} known={knownn} wall={:.1}s", results.len(), execs, results.iter().filter(|r| r["all_schedules"] == true).count(), results.iter().filter(|r| r["all_schedules"] != true).count(), distinct, t0.elapsed().as_secs_f64());
    std::process::exit(if viol > 0 { 1 } else { 0 });
}
