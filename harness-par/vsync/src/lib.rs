//! `std::sync` / `thread_local!` as seen by the code under test in the C18 build.
//!
//! The transformed copy of the crate (tools/par_src.py) has every `std::sync::` path rewritten to `::vsync::sync::`.
//! The unchanged crate contains no synchronisation primitive at all, so this model only matters for code that
//! introduces shared state between the parallel tasks. Two things make such state visible to the scheduler:
//!   * every primitive is shuttle's, i.e. every lock / atomic operation is a scheduling point;
//!   * a task that has just ACQUIRED a lock yields once while holding it — on real threads a holder can be
//!     preempted anywhere inside its critical section, which is what makes `try_lock` fail and lock-order
//!     dependent results appear. (A yield cannot introduce behaviour real threads do not have.)

pub use shuttle;

/// `std::thread::LocalKey` with the convenience methods the standard library offers for `Cell` / `RefCell` keys (shuttle's
/// own key only has `with` / `try_with`). One model thread = one rayon task, so a key is FRESH in every task: the model
/// explores the executions in which each task runs on a worker that has not touched the key before.
pub struct LocalKey<T: 'static> {
    inner: &'static shuttle::thread::LocalKey<T>,
}
impl<T: 'static> LocalKey<T> {
    pub const fn new(inner: &'static shuttle::thread::LocalKey<T>) -> Self {
        LocalKey { inner }
    }
    pub fn with<F: FnOnce(&T) -> R, R>(&'static self, f: F) -> R {
        self.inner.with(f)
    }
    pub fn try_with<F: FnOnce(&T) -> R, R>(&'static self, f: F) -> Result<R, shuttle::thread::AccessError> {
        self.inner.try_with(f)
    }
}
impl<T: 'static> LocalKey<std::cell::Cell<T>> {
    pub fn set(&'static self, value: T) {
        self.with(|c| c.set(value))
    }
    pub fn get(&'static self) -> T
    where
        T: Copy,
    {
        self.with(|c| c.get())
    }
    pub fn take(&'static self) -> T
    where
        T: Default,
    {
        self.with(|c| c.take())
    }
    pub fn replace(&'static self, value: T) -> T {
        self.with(|c| c.replace(value))
    }
}
impl<T: 'static> LocalKey<std::cell::RefCell<T>> {
    pub fn with_borrow<F: FnOnce(&T) -> R, R>(&'static self, f: F) -> R {
        self.with(|c| f(&c.borrow()))
    }
    pub fn with_borrow_mut<F: FnOnce(&mut T) -> R, R>(&'static self, f: F) -> R {
        self.with(|c| f(&mut c.borrow_mut()))
    }
    pub fn set(&'static self, value: T) {
        self.with(|c| *c.borrow_mut() = value)
    }
    pub fn take(&'static self) -> T
    where
        T: Default,
    {
        self.with(|c| c.take())
    }
    pub fn replace(&'static self, value: T) -> T {
        self.with(|c| c.replace(value))
    }
}

#[macro_export]
macro_rules! thread_local {
    () => {};
    ($(#[$attr:meta])* $vis:vis static $name:ident : $t:ty = const { $init:expr } ; $($rest:tt)*) => {
        $crate::__vsync_tl!($(#[$attr])* $vis $name, $t, $init);
        $crate::thread_local!($($rest)*);
    };
    ($(#[$attr:meta])* $vis:vis static $name:ident : $t:ty = const { $init:expr }) => {
        $crate::__vsync_tl!($(#[$attr])* $vis $name, $t, $init);
    };
    ($(#[$attr:meta])* $vis:vis static $name:ident : $t:ty = $init:expr ; $($rest:tt)*) => {
        $crate::__vsync_tl!($(#[$attr])* $vis $name, $t, $init);
        $crate::thread_local!($($rest)*);
    };
    ($(#[$attr:meta])* $vis:vis static $name:ident : $t:ty = $init:expr) => {
        $crate::__vsync_tl!($(#[$attr])* $vis $name, $t, $init);
    };
}
#[doc(hidden)]
#[macro_export]
macro_rules! __vsync_tl {
    ($(#[$attr:meta])* $vis:vis $name:ident, $t:ty, $init:expr) => {
        $(#[$attr])*
        $vis static $name: $crate::LocalKey<$t> = {
            $crate::shuttle::thread_local! {
                static INNER: $t = $init;
            }
            $crate::LocalKey::new(&INNER)
        };
    };
}

pub mod sync {
    pub use shuttle::sync::{atomic, mpsc, Barrier, BarrierWaitResult, Condvar, Once, OnceState, WaitTimeoutResult};
    pub use std::sync::{Arc, LockResult, PoisonError, TryLockError, TryLockResult, Weak};

    pub use shuttle::sync::{MutexGuard, RwLockReadGuard, RwLockWriteGuard};

    #[derive(Debug, Default)]
    pub struct Mutex<T: ?Sized>(shuttle::sync::Mutex<T>);

    impl<T> Mutex<T> {
        pub const fn new(value: T) -> Self {
            Mutex(shuttle::sync::Mutex::new(value))
        }
        pub fn into_inner(self) -> LockResult<T> {
            self.0.into_inner()
        }
    }
    impl<T: ?Sized> Mutex<T> {
        pub fn lock(&self) -> LockResult<MutexGuard<'_, T>> {
            let g = self.0.lock();
            shuttle::thread::yield_now(); // the holder may be preempted inside its critical section
            g
        }
        pub fn try_lock(&self) -> TryLockResult<MutexGuard<'_, T>> {
            let g = self.0.try_lock();
            if g.is_ok() {
                shuttle::thread::yield_now();
            }
            g
        }
        pub fn get_mut(&mut self) -> LockResult<&mut T> {
            self.0.get_mut()
        }
    }
    impl<T> From<T> for Mutex<T> {
        fn from(v: T) -> Self {
            Mutex::new(v)
        }
    }

    #[derive(Debug, Default)]
    pub struct RwLock<T: ?Sized>(shuttle::sync::RwLock<T>);

    impl<T> RwLock<T> {
        pub const fn new(value: T) -> Self {
            RwLock(shuttle::sync::RwLock::new(value))
        }
        pub fn into_inner(self) -> LockResult<T> {
            self.0.into_inner()
        }
    }
    impl<T: ?Sized> RwLock<T> {
        pub fn read(&self) -> LockResult<RwLockReadGuard<'_, T>> {
            let g = self.0.read();
            shuttle::thread::yield_now();
            g
        }
        pub fn write(&self) -> LockResult<RwLockWriteGuard<'_, T>> {
            let g = self.0.write();
            shuttle::thread::yield_now();
            g
        }
        pub fn try_read(&self) -> TryLockResult<RwLockReadGuard<'_, T>> {
            let g = self.0.try_read();
            if g.is_ok() {
                shuttle::thread::yield_now();
            }
            g
        }
        pub fn try_write(&self) -> TryLockResult<RwLockWriteGuard<'_, T>> {
            let g = self.0.try_write();
            if g.is_ok() {
                shuttle::thread::yield_now();
            }
            g
        }
        pub fn get_mut(&mut self) -> LockResult<&mut T> {
            self.0.get_mut()
        }
    }

    /// `std::sync::OnceLock`: the value lives in a real `OnceLock` (so `get` can hand out `&T`), every access is a
    /// scheduling point, and initialisation is serialised by a scheduler-visible lock (blocked initialisers are
    /// modelled as blocked threads instead of blocking the single OS thread all model threads run on).
    #[derive(Debug)]
    pub struct OnceLock<T> {
        cell: std::sync::OnceLock<T>,
        init: shuttle::sync::Mutex<()>,
    }
    impl<T> Default for OnceLock<T> {
        fn default() -> Self {
            Self::new()
        }
    }
    impl<T> OnceLock<T> {
        pub const fn new() -> Self {
            OnceLock { cell: std::sync::OnceLock::new(), init: shuttle::sync::Mutex::new(()) }
        }
        pub fn get(&self) -> Option<&T> {
            shuttle::thread::yield_now();
            self.cell.get()
        }
        pub fn get_mut(&mut self) -> Option<&mut T> {
            self.cell.get_mut()
        }
        pub fn set(&self, value: T) -> Result<(), T> {
            shuttle::thread::yield_now();
            let _g = self.init.lock().unwrap();
            self.cell.set(value)
        }
        pub fn get_or_init<F: FnOnce() -> T>(&self, f: F) -> &T {
            shuttle::thread::yield_now();
            if let Some(v) = self.cell.get() {
                return v;
            }
            let _g = self.init.lock().unwrap();
            shuttle::thread::yield_now();
            if self.cell.get().is_none() {
                let _ = self.cell.set(f());
            }
            self.cell.get().unwrap()
        }
        pub fn into_inner(self) -> Option<T> {
            self.cell.into_inner()
        }
        pub fn take(&mut self) -> Option<T> {
            self.cell.take()
        }
    }
    impl<T: Clone> Clone for OnceLock<T> {
        fn clone(&self) -> Self {
            let c = OnceLock::new();
            if let Some(v) = self.cell.get() {
                let _ = c.cell.set(v.clone());
            }
            c
        }
    }
    impl<T> From<T> for OnceLock<T> {
        fn from(v: T) -> Self {
            let c = OnceLock::new();
            let _ = c.cell.set(v);
            c
        }
    }

    /// `std::sync::LazyLock` on top of the OnceLock model.
    pub struct LazyLock<T, F = fn() -> T> {
        cell: OnceLock<T>,
        f: std::sync::Mutex<Option<F>>,
    }
    impl<T, F: FnOnce() -> T> LazyLock<T, F> {
        pub const fn new(f: F) -> Self {
            LazyLock { cell: OnceLock::new(), f: std::sync::Mutex::new(Some(f)) }
        }
        pub fn force(this: &Self) -> &T {
            this.cell.get_or_init(|| (this.f.lock().unwrap().take().expect("LazyLock initialiser ran twice"))())
        }
    }
    impl<T, F: FnOnce() -> T> std::ops::Deref for LazyLock<T, F> {
        type Target = T;
        fn deref(&self) -> &T {
            LazyLock::force(self)
        }
    }
}
