//! `std::sync` / `thread_local!` as seen by the code under test in the C18 build.
//!
//! The transformed copy of the crate (tools/par_src.py) has every `std::sync::` path rewritten to `::vsync::sync::`.
//! The unchanged crate contains no synchronisation primitive at all, so this model only matters for code that
//! introduces shared state between the parallel tasks. Two things make such state visible to the scheduler:
//!   * every primitive is shuttle's, i.e. every lock / atomic operation is a scheduling point;
//!   * a task that has just ACQUIRED a lock yields once while holding it — on real threads a holder can be
//!     preempted anywhere inside its critical section, which is what makes `try_lock` fail and lock-order
//!     dependent results appear. (A yield cannot introduce behaviour real threads do not have.)

pub use shuttle::thread_local;

pub mod sync {
    pub use shuttle::sync::{atomic, mpsc, Barrier, BarrierWaitResult, Condvar, Once, OnceState, WaitTimeoutResult};
    pub use std::sync::{Arc, LockResult, PoisonError, TryLockError, TryLockResult, Weak};

    pub use shuttle::sync::{MutexGuard, RwLockReadGuard, RwLockWriteGuard};

    #[derive(Debug, Default)]
    pub struct Mutex<T: ?Sized>(shuttle::sync::Mutex<T>);

    impl<T> Mutex<T> {
        pub const fn new(value: T) -> Self {
            Mutex(shuttle::sync::Mutex::new(value))
        }
        pub fn into_inner(self) -> LockResult<T> {
            self.0.into_inner()
        }
    }
    impl<T: ?Sized> Mutex<T> {
        pub fn lock(&self) -> LockResult<MutexGuard<'_, T>> {
            let g = self.0.lock();
            shuttle::thread::yield_now(); // the holder may be preempted inside its critical section
            g
        }
        pub fn try_lock(&self) -> TryLockResult<MutexGuard<'_, T>> {
            let g = self.0.try_lock();
            if g.is_ok() {
                shuttle::thread::yield_now();
            }
            g
        }
        pub fn get_mut(&mut self) -> LockResult<&mut T> {
            self.0.get_mut()
        }
    }
    impl<T> From<T> for Mutex<T> {
        fn from(v: T) -> Self {
            Mutex::new(v)
        }
    }

    #[derive(Debug, Default)]
    pub struct RwLock<T: ?Sized>(shuttle::sync::RwLock<T>);

    impl<T> RwLock<T> {
        pub const fn new(value: T) -> Self {
            RwLock(shuttle::sync::RwLock::new(value))
        }
        pub fn into_inner(self) -> LockResult<T> {
            self.0.into_inner()
        }
    }
    impl<T: ?Sized> RwLock<T> {
        pub fn read(&self) -> LockResult<RwLockReadGuard<'_, T>> {
            let g = self.0.read();
            shuttle::thread::yield_now();
            g
        }
        pub fn write(&self) -> LockResult<RwLockWriteGuard<'_, T>> {
            let g = self.0.write();
            shuttle::thread::yield_now();
            g
        }
        pub fn try_read(&self) -> TryLockResult<RwLockReadGuard<'_, T>> {
            let g = self.0.try_read();
            if g.is_ok() {
                shuttle::thread::yield_now();
            }
            g
        }
        pub fn try_write(&self) -> TryLockResult<RwLockWriteGuard<'_, T>> {
            let g = self.0.try_write();
            if g.is_ok() {
                shuttle::thread::yield_now();
            }
            g
        }
        pub fn get_mut(&mut self) -> LockResult<&mut T> {
            self.0.get_mut()
        }
    }
}
