//! `std::sync` / `thread_local!` as seen by the code under test in the C18 build.
//!
//! The transformed copy of the crate (tools/par_src.py) has every `std::sync::` path rewritten to `::vsync::sync::`.
//! The unchanged crate contains no synchronisation primitive at all, so this model only matters for code that
//! introduces shared state between the parallel tasks. Two things make such state visible to the scheduler:
//!   * every primitive is shuttle's, i.e. every lock / atomic operation is a scheduling point;
//!   * a task that has just ACQUIRED a lock yields once while holding it — on real threads a holder can be
//!     preempted anywhere inside its critical section, which is what makes `try_lock` fail and lock-order
//!     dependent results appear. (A yield cannot introduce behaviour real threads do not have.)

pub use shuttle;

/// `std::thread::LocalKey`, modelled as WORKER-local rather than task-local state.
///
/// In real rayon a thread-local belongs to a worker thread and survives from one task to the next task that happens to run
/// on that worker (also to a task the worker steals while it waits in a `join`). In this model every task is its own model
/// thread, so a per-model-thread key would be fresh in every task and hide exactly that carry-over. The key is therefore
/// kept in ONE store shared by all tasks of an execution ("whatever ran before may have left this behind"): every schedule
/// shows a task the leftovers of the tasks the scheduler ran before it (the serial build's order is one such schedule, not
/// necessarily the model's default one, which prefers the oldest runnable task). Code whose result does not depend on leftovers
/// (a cache, a scratch buffer that is reset before use) is unaffected; code whose result does depend on them is
/// schedule-dependent under real work stealing as well. The store lives in a real thread-local of the OS thread that runs
/// the exploration (all model threads of one execution are coroutines on that thread) and is cleared by
/// `reset_worker_locals()` at the start of every execution.
pub struct LocalKey<T: 'static> {
    init: fn() -> T,
}
std::thread_local! {
    static WORKER_STORE: std::cell::RefCell<std::collections::HashMap<usize, Box<dyn std::any::Any>>> = std::cell::RefCell::new(std::collections::HashMap::new());
}
/// forget every worker-local value (call at the start of each explored execution)
pub fn reset_worker_locals() {
    WORKER_STORE.with(|m| m.borrow_mut().clear());
}
#[derive(Clone, Copy, Debug, PartialEq, Eq)]
pub struct AccessError;
impl<T: 'static> LocalKey<T> {
    pub const fn new(init: fn() -> T) -> Self {
        LocalKey { init }
    }
    pub fn with<F: FnOnce(&T) -> R, R>(&'static self, f: F) -> R {
        let key = self as *const Self as usize;
        let ptr: *const T = WORKER_STORE.with(|m| {
            let mut m = m.borrow_mut();
            let e = m.entry(key).or_insert_with(|| Box::new((self.init)()) as Box<dyn std::any::Any>);
            e.downcast_ref::<T>().expect("worker-local type") as *const T
        });
        // SAFETY: the boxed value stays at this address until `reset_worker_locals()`, which is only called between
        // executions; all users run on this OS thread
        f(unsafe { &*ptr })
    }
    pub fn try_with<F: FnOnce(&T) -> R, R>(&'static self, f: F) -> Result<R, AccessError> {
        Ok(self.with(f))
    }
}
impl<T: 'static> LocalKey<std::cell::Cell<T>> {
    pub fn set(&'static self, value: T) {
        self.with(|c| c.set(value))
    }
    pub fn get(&'static self) -> T
    where
        T: Copy,
    {
        self.with(|c| c.get())
    }
    pub fn take(&'static self) -> T
    where
        T: Default,
    {
        self.with(|c| c.take())
    }
    pub fn replace(&'static self, value: T) -> T {
        self.with(|c| c.replace(value))
    }
}
impl<T: 'static> LocalKey<std::cell::RefCell<T>> {
    pub fn with_borrow<F: FnOnce(&T) -> R, R>(&'static self, f: F) -> R {
        self.with(|c| f(&c.borrow()))
    }
    pub fn with_borrow_mut<F: FnOnce(&mut T) -> R, R>(&'static self, f: F) -> R {
        self.with(|c| f(&mut c.borrow_mut()))
    }
    pub fn set(&'static self, value: T) {
        self.with(|c| *c.borrow_mut() = value)
    }
    pub fn take(&'static self) -> T
    where
        T: Default,
    {
        self.with(|c| c.take())
    }
    pub fn replace(&'static self, value: T) -> T {
        self.with(|c| c.replace(value))
    }
}

#[macro_export]
macro_rules! thread_local {
    () => {};
    ($(#[$attr:meta])* $vis:vis static $name:ident : $t:ty = const { $init:expr } ; $($rest:tt)*) => {
        $crate::__vsync_tl!($(#[$attr])* $vis $name, $t, $init);
        $crate::thread_local!($($rest)*);
    };
    ($(#[$attr:meta])* $vis:vis static $name:ident : $t:ty = const { $init:expr }) => {
        $crate::__vsync_tl!($(#[$attr])* $vis $name, $t, $init);
    };
    ($(#[$attr:meta])* $vis:vis static $name:ident : $t:ty = $init:expr ; $($rest:tt)*) => {
        $crate::__vsync_tl!($(#[$attr])* $vis $name, $t, $init);
        $crate::thread_local!($($rest)*);
    };
    ($(#[$attr:meta])* $vis:vis static $name:ident : $t:ty = $init:expr) => {
        $crate::__vsync_tl!($(#[$attr])* $vis $name, $t, $init);
    };
}
#[doc(hidden)]
#[macro_export]
macro_rules! __vsync_tl {
    ($(#[$attr:meta])* $vis:vis $name:ident, $t:ty, $init:expr) => {
        $(#[$attr])*
        $vis static $name: $crate::LocalKey<$t> = $crate::LocalKey::new(|| $init);
    };
}
