//! A model of rayon's *contract* for the two entry points flac-codec uses:
//!   * `join(a, b)`: both closures run exactly once, on any thread, at any time between call and return;
//!   * `vec.into_par_iter().map(f).collect::<Vec<_>>()`: `f` runs exactly once per item, in any order and
//!     interleaving; results are collected in index order.
//! Every closure that rayon may run on another worker becomes a shuttle thread, so the controlled scheduler
//! decides when it starts relative to everything else. shuttle's `spawn` is not a scheduling point, hence the
//! explicit `yield_now()` after each spawn. Scoped threads of shuttle-std mis-handle nested joins, so plain
//! `spawn` is used with the borrow's lifetime erased — sound because every spawned task is joined before the
//! function returns (also on unwind), exactly like `std::thread::scope`.

use shuttle::thread;

struct SendPtr<T>(*mut T);
unsafe impl<T> Send for SendPtr<T> {}

/// Spawn `task` (which may borrow from the caller's stack) as a shuttle thread.
fn spawn_erased<'a>(task: Box<dyn FnOnce() + Send + 'a>) -> thread::JoinHandle<()> {
    // SAFETY: the caller joins the handle before any borrowed data goes out of scope.
    let task: Box<dyn FnOnce() + Send + 'static> = unsafe { std::mem::transmute(task) };
    thread::spawn(task)
}

pub fn join<A, B, RA, RB>(oper_a: A, oper_b: B) -> (RA, RB)
where
    A: FnOnce() -> RA + Send,
    B: FnOnce() -> RB + Send,
    RA: Send,
    RB: Send,
{
    let mut slot: Option<RB> = None;
    let p = SendPtr(&mut slot as *mut Option<RB>);
    let h = spawn_erased(Box::new(move || {
        let p = p;
        let r = oper_b();
        unsafe { *p.0 = Some(r) };
    }));
    thread::yield_now();
    let ra = std::panic::catch_unwind(std::panic::AssertUnwindSafe(oper_a));
    let jb = h.join();
    match (ra, jb) {
        (Ok(ra), Ok(())) => (ra, slot.take().expect("join: task b produced no result")),
        (Err(p), _) => std::panic::resume_unwind(p),
        (_, Err(p)) => std::panic::resume_unwind(p),
    }
}

pub mod iter {
    use super::{spawn_erased, SendPtr};
    use shuttle::thread;

    pub trait ParallelIterator: Sized + Send {
        type Item: Send;
        /// run the pipeline and return the items in index order
        fn drive(self) -> Vec<Self::Item>;
        fn map<F, R>(self, map_op: F) -> Map<Self, F>
        where
            F: Fn(Self::Item) -> R + Sync + Send,
            R: Send,
        {
            Map { base: self, map_op }
        }
        fn collect<C>(self) -> C
        where
            C: FromParallelIterator<Self::Item>,
        {
            C::from_par_iter(self)
        }
    }

    pub trait IntoParallelIterator {
        type Iter: ParallelIterator<Item = Self::Item>;
        type Item: Send;
        fn into_par_iter(self) -> Self::Iter;
    }

    pub trait FromParallelIterator<T: Send> {
        fn from_par_iter<I: ParallelIterator<Item = T>>(par_iter: I) -> Self;
    }

    impl<T: Send> FromParallelIterator<T> for Vec<T> {
        fn from_par_iter<I: ParallelIterator<Item = T>>(par_iter: I) -> Self {
            par_iter.drive()
        }
    }

    pub struct VecIter<T>(Vec<T>);
    impl<T: Send> ParallelIterator for VecIter<T> {
        type Item = T;
        fn drive(self) -> Vec<T> {
            self.0
        }
    }
    impl<T: Send> IntoParallelIterator for Vec<T> {
        type Iter = VecIter<T>;
        type Item = T;
        fn into_par_iter(self) -> VecIter<T> {
            VecIter(self)
        }
    }

    pub struct Map<I, F> {
        base: I,
        map_op: F,
    }
    impl<I, F, R> ParallelIterator for Map<I, F>
    where
        I: ParallelIterator,
        F: Fn(I::Item) -> R + Sync + Send,
        R: Send,
    {
        type Item = R;
        fn drive(self) -> Vec<R> {
            let items = self.base.drive();
            let f = &self.map_op;
            let mut slots: Vec<Option<R>> = (0..items.len()).map(|_| None).collect();
            let mut handles = Vec::new();
            for (i, item) in items.into_iter().enumerate() {
                let p = SendPtr(&mut slots[i] as *mut Option<R>);
                handles.push(spawn_erased(Box::new(move || {
                    let p = p;
                    let r = f(item);
                    unsafe { *p.0 = Some(r) };
                })));
                thread::yield_now();
            }
            let mut panic = None;
            for h in handles {
                if let Err(p) = h.join() {
                    panic = Some(p);
                }
            }
            if let Some(p) = panic {
                std::panic::resume_unwind(p);
            }
            slots.into_iter().map(|s| s.expect("map: task produced no result")).collect()
        }
    }
}

pub mod prelude {
    pub use crate::iter::{FromParallelIterator, IntoParallelIterator, ParallelIterator};
}
